//! C11 — the query interfaces cannot modify stored data.
//!
//! For every generated statement (statement kind x target location x session
//! state) the harness
//!  * asks DataFusion's own planner for the LogicalPlan of the text and
//!    serialises its node kinds into the plan tree of Model/SqlGate.v;
//!  * "raw": runs the text with plain `ctx.sql(..).collect()` on a scratch
//!    node and compares the observed effect classes with the model's `effects`
//!    (this validates the per-kind description of the embedded engine);
//!  * "gate": submits the text through every query interface of a real query
//!    node and compares accepted/rejected + observed effects with the model's
//!    `submit`;
//!  * oracle: the object listing (path, size, e_tag), the server's scratch
//!    directory, the session catalog / settings / prepared statements and a
//!    fixed probe query are unchanged, and writing statements are rejected.
use crate::env::*;
use crate::wire;
use arrow_flight::Ticket;
use cardinalsin::adaptive_index::{AdaptiveIndexConfig, AdaptiveIndexController};
use cardinalsin::api::query::flight_sql::FlightSqlQueryService;
use axum::extract::{Path as AxPath, Query as AxQuery, State};
use cardinalsin::api::query::prometheus_api as prom;
use cardinalsin::api::ApiState;
use cardinalsin::ingester::{Ingester, IngesterConfig};
use cardinalsin::query::QueryNode;
use cardinalsin::schema::MetricSchema;
use csv_common::{Args, Model, Report, Rng};
use datafusion::common::tree_node::TreeNodeRecursion;
use datafusion::logical_expr::{DdlStatement, LogicalPlan, Statement, WriteOp};
use datafusion::prelude::SessionContext;
use serde_json::{json, Value};
use std::collections::BTreeSet;
use std::sync::Arc;

const PROBE_SQL: &str = "SELECT count(*) AS n, sum(value_f64) AS s, min(timestamp) AS lo, max(timestamp) AS hi, count(DISTINCT host) AS h, sum(value_i64) AS c FROM metrics WHERE timestamp >= 0 AND timestamp <= 1000000";

fn chunk_specs() -> Vec<ChunkSpec> {
    vec![
        ChunkSpec { id: 1, min_ts: 0, max_ts: 100, rows: 4, extra_label: false },
        ChunkSpec { id: 2, min_ts: 200, max_ts: 300, rows: 5, extra_label: false },
        ChunkSpec { id: 3, min_ts: 400, max_ts: 500, rows: 3, extra_label: false },
    ]
}

#[derive(Clone, Debug, PartialEq)]
pub enum Pre {
    Cold,
    WarmOne,
    WarmAll,
}

impl Pre {
    fn name(&self) -> &'static str {
        match self {
            Pre::Cold => "cold",
            Pre::WarmOne => "warm1",
            Pre::WarmAll => "warmall",
        }
    }
    fn parse(s: &str) -> Pre {
        match s {
            "warm1" => Pre::WarmOne,
            "warmall" => Pre::WarmAll,
            _ => Pre::Cold,
        }
    }
}

#[derive(Clone, Debug)]
pub struct Case {
    /// statement text; `{LOCAL}` is replaced by the run's scratch directory
    pub sql: String,
    /// generator's label (statement kind / target), for the histogram
    pub kind: String,
    /// the generator's own verdict: this statement would write or redefine something
    pub must_reject: bool,
    pub pre: Pre,
    /// the raw effect is expected to materialise exactly (false: only "observed is a subset of predicted")
    pub exact: bool,
}

impl Case {
    fn to_json(&self) -> Value {
        json!({"sql": self.sql, "kind": self.kind, "must_reject": self.must_reject, "pre": self.pre.name(), "exact": self.exact})
    }
    fn from_json(v: &Value) -> Case {
        Case {
            sql: v["sql"].as_str().unwrap_or("").to_string(),
            kind: v["kind"].as_str().unwrap_or("replay").to_string(),
            must_reject: v["must_reject"].as_bool().unwrap_or(false),
            pre: Pre::parse(v["pre"].as_str().unwrap_or("cold")),
            exact: v["exact"].as_bool().unwrap_or(false),
        }
    }
}

// ------------------------------------------------------------------ session ----
pub struct Sess {
    pub world: World,
    pub node: Arc<QueryNode>,
    pub local: tempfile::TempDir,
    _btx: tokio::sync::broadcast::Sender<arrow_array::RecordBatch>,
}

const PREPARED_NAMES: &[&str] = &["p0", "pins", "p1", "p2"];

impl Sess {
    pub async fn new(indexed: bool, pre: &Pre) -> Sess {
        let world = World::build(&chunk_specs()).await;
        let mut node = world.node().await;
        let (btx, brx) = tokio::sync::broadcast::channel(16);
        node.connect_broadcast(brx);
        if indexed {
            node = node.with_adaptive_indexing(Arc::new(AdaptiveIndexController::new(AdaptiveIndexConfig::default())));
        }
        let node = Arc::new(node);
        // objects a statement could drop / overwrite if it were let through; created with the
        // harness's own privilege (directly on the session), never through a query interface
        let ctx = node.engine.context();
        for s in [
            "CREATE VIEW v0 AS SELECT 1 AS x",
            "CREATE SCHEMA s0",
            "CREATE TABLE m0 AS SELECT 1 AS x",
            "PREPARE p0 AS SELECT 1 AS x",
            "PREPARE pins(BIGINT) AS INSERT INTO m0 VALUES ($1)",
        ] {
            ctx.sql(s).await.unwrap_or_else(|e| panic!("setup {}: {}", s, e));
        }
        match pre {
            Pre::Cold => {}
            Pre::WarmOne => {
                node.query("SELECT count(*) FROM metrics WHERE timestamp >= 0 AND timestamp <= 100").await.unwrap();
            }
            Pre::WarmAll => {
                node.query("SELECT count(*) FROM metrics WHERE timestamp >= 0 AND timestamp <= 1000").await.unwrap();
            }
        }
        Sess { world, node, local: tempfile::tempdir().unwrap(), _btx: btx }
    }

    pub fn ctx(&self) -> &SessionContext {
        self.node.engine.context()
    }

    pub fn local_dir(&self) -> String {
        self.local.path().to_str().unwrap().to_string()
    }

    pub fn sql_text(&self, case: &Case) -> String {
        case.sql.replace("{LOCAL}", &self.local_dir())
    }

    fn local_listing(&self) -> Vec<(String, u64)> {
        fn walk(dir: &std::path::Path, base: &std::path::Path, out: &mut Vec<(String, u64)>) {
            if let Ok(rd) = std::fs::read_dir(dir) {
                for e in rd.flatten() {
                    let p = e.path();
                    if p.is_dir() {
                        out.push((format!("{}/", p.strip_prefix(base).unwrap().display()), 0));
                        walk(&p, base, out);
                    } else {
                        out.push((p.strip_prefix(base).unwrap().display().to_string(), e.metadata().map(|m| m.len()).unwrap_or(0)));
                    }
                }
            }
        }
        let mut v = Vec::new();
        walk(self.local.path(), self.local.path(), &mut v);
        v.sort();
        v
    }

    async fn tables(&self) -> Vec<String> {
        let ctx = self.ctx();
        let mut out = Vec::new();
        for cat in ctx.catalog_names() {
            out.push(format!("catalog {}", cat));
            let c = ctx.catalog(&cat).unwrap();
            for sch in c.schema_names() {
                if sch == "information_schema" {
                    continue;
                }
                out.push(format!("{}.{}", cat, sch));
                let s = c.schema(&sch).unwrap();
                for t in s.table_names() {
                    let desc = match s.table(&t).await {
                        Ok(Some(p)) => {
                            if t == "metrics" && cat == "datafusion" && sch == "public" {
                                // the chunk set behind `metrics` is rebound by every query (C10's subject);
                                // only its existence and kind are part of the session's definition
                                let any = p.as_any();
                                let chunks = any.is::<datafusion::datasource::listing::ListingTable>() || any.is::<datafusion::datasource::empty::EmptyTable>();
                                format!("{:?}:{}", p.table_type(), if chunks { "chunk-backed" } else { "redefined" })
                            } else {
                                format!("{:?}:{}", p.table_type(), p.schema().fields().iter().map(|f| f.name().as_str()).collect::<Vec<_>>().join("/"))
                            }
                        }
                        _ => "unresolvable".to_string(),
                    };
                    out.push(format!("{}.{}.{}={}", cat, sch, t, desc));
                }
            }
        }
        out.sort();
        out
    }

    /// Observes prepared statements and the memory table on a *copy* of the session state.
    async fn session_probe(&self) -> (Vec<String>, String) {
        let copy = SessionContext::new_with_state(self.ctx().state());
        let mut prepared = Vec::new();
        for name in PREPARED_NAMES {
            // `EXECUTE` only builds the DataFrame of the prepared plan here; it is never collected
            let call = match *name {
                "pins" => "EXECUTE pins(7)".to_string(),
                "p2" => "EXECUTE p2(7)".to_string(),
                _ => format!("EXECUTE {}", name),
            };
            if copy.sql(&call).await.is_ok() {
                prepared.push(name.to_string());
            }
        }
        let m0 = match copy.sql("SELECT count(*) AS n, sum(x) AS s FROM datafusion.public.m0").await {
            Ok(df) => match df.collect().await {
                Ok(b) => show_batches(&b),
                Err(_) => "ERR".into(),
            },
            Err(_) => "GONE".into(),
        };
        (prepared, m0)
    }

    pub async fn snapshot(&self) -> Snap {
        let (prepared, m0) = self.session_probe().await;
        let st = self.ctx().state();
        let mut config: Vec<String> = st
            .config_options()
            .entries()
            .into_iter()
            .map(|e| format!("{}={}", e.key, e.value.unwrap_or_default()))
            .collect();
        config.sort();
        Snap {
            objects: self.world.listing().await,
            local: self.local_listing(),
            tables: self.tables().await,
            config,
            prepared,
            m0,
            functions: st.scalar_functions().len() + st.aggregate_functions().len() + st.window_functions().len(),
        }
    }

    pub async fn probe(&self) -> String {
        match self.node.query(PROBE_SQL).await {
            Ok(b) => show_batches(&b),
            Err(e) => format!("ERR {}", first_line(&e.to_string())),
        }
    }

    pub async fn probe_fresh_node(&self) -> String {
        let n = self.world.node().await;
        match n.query(PROBE_SQL).await {
            Ok(b) => show_batches(&b),
            Err(e) => format!("ERR {}", first_line(&e.to_string())),
        }
    }
}

fn first_line(s: &str) -> String {
    s.lines().next().unwrap_or("").chars().take(200).collect()
}

pub fn show_batches(b: &[arrow_array::RecordBatch]) -> String {
    arrow::util::pretty::pretty_format_batches(b).map(|d| d.to_string().replace('\n', "/")).unwrap_or_else(|_| "FMT".into())
}

#[derive(Clone, Debug, PartialEq)]
pub struct Snap {
    objects: Vec<(String, u64, String)>,
    local: Vec<(String, u64)>,
    tables: Vec<String>,
    config: Vec<String>,
    prepared: Vec<String>,
    m0: String,
    functions: usize,
}

/// effect classes (same vocabulary as the model runner prints) from a before/after pair
fn diff_classes(a: &Snap, b: &Snap) -> BTreeSet<String> {
    let mut out = BTreeSet::new();
    let chunk_paths: BTreeSet<String> = chunk_specs().iter().map(|c| chunk_path(c.id)).collect();
    let mut changed: BTreeSet<&String> = BTreeSet::new();
    for o in &b.objects {
        if !a.objects.contains(o) {
            changed.insert(&o.0);
        }
    }
    for o in &a.objects {
        if !b.objects.contains(o) {
            changed.insert(&o.0);
        }
    }
    for p in changed {
        if p == CATALOG_PATH {
            out.insert("store:catalog".to_string());
        } else if chunk_paths.contains(p) {
            out.insert("store:chunk".to_string());
        } else {
            out.insert("store:fresh".to_string());
        }
    }
    if a.local != b.local {
        out.insert("store:local".to_string());
    }
    if a.tables != b.tables {
        out.insert("catalog".to_string());
    }
    if a.config != b.config || a.prepared != b.prepared {
        out.insert("session".to_string());
    }
    if a.m0 != b.m0 && a.tables == b.tables {
        out.insert("store:mem".to_string());
    }
    if a.functions != b.functions {
        out.insert("function".to_string());
    }
    out
}

fn diff_text(a: &Snap, b: &Snap) -> String {
    let mut v = Vec::new();
    for o in &b.objects {
        if !a.objects.contains(o) {
            v.push(format!("object now {:?}", o));
        }
    }
    for o in &a.objects {
        if !b.objects.contains(o) {
            v.push(format!("object was {:?}", o));
        }
    }
    if a.local != b.local {
        v.push(format!("server files {:?} -> {:?}", a.local, b.local));
    }
    if a.tables != b.tables {
        let x: Vec<&String> = a.tables.iter().filter(|t| !b.tables.contains(t)).collect();
        let y: Vec<&String> = b.tables.iter().filter(|t| !a.tables.contains(t)).collect();
        v.push(format!("session catalog -{:?} +{:?}", x, y));
    }
    if a.config != b.config {
        let y: Vec<&String> = b.config.iter().filter(|t| !a.config.contains(t)).collect();
        v.push(format!("session settings now {:?}", y));
    }
    if a.prepared != b.prepared {
        v.push(format!("prepared statements {:?} -> {:?}", a.prepared, b.prepared));
    }
    if a.m0 != b.m0 {
        v.push(format!("table m0 {} -> {}", a.m0, b.m0));
    }
    if a.functions != b.functions {
        v.push(format!("functions {} -> {}", a.functions, b.functions));
    }
    v.join("; ")
}

// ---------------------------------------------------------- plan serialiser ----
struct SerCx<'a> {
    sess: &'a Sess,
}

impl<'a> SerCx<'a> {
    fn loc_of_url(&self, url: &str) -> &'static str {
        let bucket_prefix = format!("s3://{}/", BUCKET);
        if let Some(rest) = url.strip_prefix(&bucket_prefix) {
            let rest = rest.trim_start_matches('/');
            if rest == CATALOG_PATH {
                "catalog"
            } else if chunk_specs().iter().any(|c| chunk_path(c.id) == rest) {
                "chunk"
            } else {
                "fresh"
            }
        } else if url.starts_with("file://") || url.starts_with('/') || !url.contains("://") {
            "local"
        } else {
            "unreg"
        }
    }

    async fn loc_of_table(&self, name: &str) -> &'static str {
        let bare = name.rsplit('.').next().unwrap_or(name);
        match self.sess.ctx().table_provider(bare).await {
            Ok(p) => {
                let any = p.as_any();
                if any.is::<datafusion::datasource::MemTable>() {
                    "mem"
                } else if any.is::<datafusion::datasource::listing::ListingTable>() {
                    // a listing table over a directory accepts INSERT (new objects under it); one over
                    // plain files -- what register_metrics_table_for_chunks builds -- refuses it
                    let lt = any.downcast_ref::<datafusion::datasource::listing::ListingTable>().unwrap();
                    if lt.table_paths().len() == 1 && lt.table_paths()[0].is_collection() {
                        "fresh"
                    } else {
                        "noinsert"
                    }
                } else {
                    "noinsert"
                }
            }
            Err(_) => "noinsert",
        }
    }
}

fn qop_name(p: &LogicalPlan) -> &'static str {
    match p {
        LogicalPlan::Projection(_) => "Projection",
        LogicalPlan::Filter(_) => "Filter",
        LogicalPlan::Window(_) => "Window",
        LogicalPlan::Aggregate(_) => "Aggregate",
        LogicalPlan::Sort(_) => "Sort",
        LogicalPlan::Join(_) => "Join",
        LogicalPlan::Repartition(_) => "Repartition",
        LogicalPlan::Union(_) => "Union",
        LogicalPlan::TableScan(_) => "TableScan",
        LogicalPlan::EmptyRelation(_) => "EmptyRelation",
        LogicalPlan::Subquery(_) => "Subquery",
        LogicalPlan::SubqueryAlias(_) => "SubqueryAlias",
        LogicalPlan::Limit(_) => "Limit",
        LogicalPlan::Values(_) => "Values",
        LogicalPlan::Extension(_) => "Extension",
        LogicalPlan::Distinct(_) => "Distinct",
        LogicalPlan::Unnest(_) => "Unnest",
        LogicalPlan::RecursiveQuery(_) => "RecursiveQuery",
        _ => "Extension",
    }
}

fn ser_plan<'a>(p: &'a LogicalPlan, cx: &'a SerCx<'a>, prepared: &'a [(String, String)]) -> std::pin::Pin<Box<dyn std::future::Future<Output = String> + 'a>> {
    Box::pin(async move {
        let mut kids = Vec::new();
        for c in p.inputs() {
            kids.push(ser_plan(c, cx, prepared).await);
        }
        let mut subs: Vec<LogicalPlan> = Vec::new();
        let _ = p.apply_subqueries(|s| {
            subs.push(s.clone());
            Ok(TreeNodeRecursion::Jump)
        });
        for s in &subs {
            kids.push(ser_plan(s, cx, prepared).await);
        }
        let one = |k: &Vec<String>| k.first().cloned().unwrap_or_else(|| "q.EmptyRelation[]".to_string());
        match p {
            LogicalPlan::Dml(d) => {
                let k = match d.op {
                    WriteOp::Insert(_) => "Insert",
                    WriteOp::Delete => "Delete",
                    WriteOp::Update => "Update",
                    WriteOp::Ctas => "Ctas",
                };
                format!("dml.{}.{}[{}]", k, cx.loc_of_table(&d.table_name.to_string()).await, one(&kids))
            }
            LogicalPlan::Copy(c) => format!("copy.{}[{}]", cx.loc_of_url(&c.output_url), one(&kids)),
            LogicalPlan::Ddl(d) => {
                let name = match d {
                    DdlStatement::CreateExternalTable(_) => "CreateExternalTable",
                    DdlStatement::CreateMemoryTable(_) => "CreateMemoryTable",
                    DdlStatement::CreateView(_) => "CreateView",
                    DdlStatement::CreateCatalogSchema(_) => "CreateCatalogSchema",
                    DdlStatement::CreateCatalog(_) => "CreateCatalog",
                    DdlStatement::CreateIndex(_) => "CreateIndex",
                    DdlStatement::DropTable(_) => "DropTable",
                    DdlStatement::DropView(_) => "DropView",
                    DdlStatement::DropCatalogSchema(_) => "DropCatalogSchema",
                    DdlStatement::CreateFunction(_) => "CreateFunction",
                    DdlStatement::DropFunction(_) => "DropFunction",
                };
                format!("ddl.{}[{}]", name, kids.join(","))
            }
            LogicalPlan::Statement(s) => {
                let name = match s {
                    Statement::TransactionStart(_) => "TransactionStart",
                    Statement::TransactionEnd(_) => "TransactionEnd",
                    Statement::SetVariable(_) => "SetVariable",
                    Statement::Prepare(_) => "Prepare",
                    Statement::Execute(_) => "Execute",
                    Statement::Deallocate(_) => "Deallocate",
                };
                if let Statement::Execute(e) = s {
                    // the prepared plan this EXECUTE would run, when the harness knows it
                    if let Some((_, body)) = prepared.iter().find(|(n, _)| *n == e.name) {
                        kids.push(body.clone());
                    }
                }
                format!("st.{}[{}]", name, kids.join(","))
            }
            LogicalPlan::Explain(_) => format!("ex[{}]", one(&kids)),
            LogicalPlan::Analyze(_) => format!("an[{}]", one(&kids)),
            LogicalPlan::DescribeTable(_) => "desc".to_string(),
            other => format!("q.{}[{}]", qop_name(other), kids.join(",")),
        }
    })
}

/// The statements of `sql` as model plan trees (None: the text does not parse / plan).
async fn model_plans(sess: &Sess, sql: &str) -> Option<Vec<String>> {
    let state = sess.ctx().state();
    let stmts = datafusion::sql::parser::DFParser::parse_sql(sql).ok()?;
    let cx = SerCx { sess };
    // prepared statements created by the harness's setup, as plan trees
    let mut prepared = Vec::new();
    if let Ok(p) = state.create_logical_plan("SELECT 1 AS x").await {
        prepared.push(("p0".to_string(), ser_plan(&p, &cx, &[]).await));
    }
    if let Ok(p) = state.create_logical_plan("INSERT INTO m0 VALUES (1)").await {
        prepared.push(("pins".to_string(), ser_plan(&p, &cx, &[]).await));
    }
    let mut out = Vec::new();
    for st in stmts {
        let plan = state.statement_to_plan(st).await.ok()?;
        out.push(ser_plan(&plan, &cx, &prepared).await);
    }
    Some(out)
}

// --------------------------------------------------------------- interfaces ----
pub const IFACES: &[(&str, &str)] = &[
    // (implementation entry point, interface of the model)
    // in-process calls
    ("node.query", "sql"),
    ("node.query_indexed", "sqlidx"),
    ("node.query_stream", "stream"),
    ("flight.do_get", "sql"),
    ("flight.get_flight_info", "flightinfo"),
    ("flight.create_prepared_statement", "flightprep"),
    ("engine.execute_stream", "execstream"),
    // the HTTP router of build_http_router served on a loopback port
    ("route.POST /api/v1/sql", "sql"),
    ("route.GET /api/v1/sql", "sql"),
    ("route.WS /api/v1/stream", "sql"),
    // the Flight SQL gRPC service of run_query_grpc_server on a loopback port, through
    // arrow-flight's FlightSqlServiceClient (server-side handlers: see GRPC_INVENTORY)
    ("wire.execute", "flightinfo"),
    ("wire.execute_update", "sql"),
    ("wire.prepare_execute", "flightprepgrpc"),
    ("wire.prepare_execute_update", "flightprepgrpc"),
    ("wire.prepare_bind_execute", "flightprepgrpc"),
    ("wire.get_schema", "flightinfo"),
    ("wire.poll_flight_info", "flightinfo"),
    ("wire.execute_in_transaction", "flightinfo"),
];

fn api_state(sess: &Sess) -> ApiState {
    let ing = Ingester::new(IngesterConfig::default(), sess.world.dynstore(), sess.world.metadata.clone(), sess.world.storage.clone(), MetricSchema::default_metrics());
    ApiState { ingester: Arc::new(ing), query_node: sess.node.clone() }
}

/// What an interface did with a statement.
#[derive(Clone, Debug, PartialEq)]
pub enum Verdict {
    /// the interface reported success
    Served,
    /// refused by the admission check (or because the text is not exactly one statement)
    Refused(String),
    /// admitted, but planning/execution failed for a reason of its own (type error, ...)
    Failed(String),
}

fn verdict_of_error(msg: String) -> Verdict {
    // SQLOptions::verify_plan: "DDL not supported: ..", "DML not supported: ..", "Statement not supported: ..";
    // SessionState::sql_to_statement: "... only supports a single SQL statement"
    // SessionState::sql_to_statement: "No SQL statements were provided in the query string"
    let gate = ["DDL not supported", "DML not supported", "Statement not supported", "only supports a single SQL statement", "No SQL statements were provided"];
    if gate.iter().any(|g| msg.contains(g)) {
        Verdict::Refused(first_line(&msg))
    } else {
        Verdict::Failed(msg.chars().take(300).collect())
    }
}

fn v<T, E: std::fmt::Display>(r: Result<T, E>) -> Verdict {
    match r {
        Ok(_) => Verdict::Served,
        Err(e) => verdict_of_error(e.to_string()),
    }
}

/// Submits `sql` through one interface.
async fn submit(sess: &Sess, entry: &str, sql: &str) -> Verdict {
    match entry {
        "node.query" | "node.query_indexed" => v(sess.node.query(sql).await),
        "route.POST /api/v1/sql" | "route.GET /api/v1/sql" | "route.WS /api/v1/stream" => {
            let st = api_state(sess);
            let srv = match wire::HttpServer::start(st.ingester.clone(), st.query_node.clone()).await {
                Ok(s) => s,
                Err(e) => panic!("http server: {}", e),
            };
            let verdict = if entry.starts_with("route.WS") {
                v(wire::ws_query(srv.addr, sql, false).await)
            } else {
                let client = wire::http_client();
                let req = if entry.starts_with("route.POST") {
                    client.post(srv.url("/api/v1/sql")).json(&json!({"query": sql, "format": "json"}))
                } else {
                    client.get(srv.url("/api/v1/sql")).query(&[("query", sql), ("format", "csv")])
                };
                match wire::http_send(req).await {
                    Ok((true, _)) => Verdict::Served,
                    Ok((false, body)) => verdict_of_error(body),
                    Err(e) => Verdict::Failed(format!("transport: {}", e)),
                }
            };
            srv.stop().await;
            verdict
        }
        e if e.starts_with("wire.") => {
            let (srv, mut client) = match wire::GrpcServer::start(sess.node.clone()).await {
                Ok(x) => x,
                Err(e) => panic!("grpc server: {}", e),
            };
            let r = wire::grpc_sql(&mut client, &e["wire.".len()..], sql).await;
            drop(client);
            srv.stop().await;
            v(r)
        }
        "node.query_stream" => match sess.node.query_stream(sql).await {
            Ok(mut rx) => {
                // drain what the historical phase produced
                while let Ok(Some(_)) = tokio::time::timeout(std::time::Duration::from_millis(20), rx.recv()).await {}
                Verdict::Served
            }
            Err(e) => verdict_of_error(e.to_string()),
        },
        "flight.do_get" => v(FlightSqlQueryService::new(sess.node.clone()).do_get(&Ticket::new(sql.as_bytes().to_vec())).await),
        "flight.get_flight_info" => v(FlightSqlQueryService::new(sess.node.clone()).get_flight_info(sql).await),
        "flight.create_prepared_statement" => v(FlightSqlQueryService::new(sess.node.clone()).create_prepared_statement(sql).await),
        "engine.execute_stream" => match sess.node.engine.execute_stream(sql).await {
            Ok(mut stream) => {
                use futures::StreamExt;
                let mut res = Verdict::Served;
                while let Some(b) = stream.next().await {
                    if let Err(e) = b {
                        res = verdict_of_error(e.to_string());
                        break;
                    }
                }
                res
            }
            Err(e) => verdict_of_error(e.to_string()),
        },
        other => panic!("unknown entry point {}", other),
    }
}

fn classes_str(c: &BTreeSet<String>) -> String {
    c.iter().cloned().collect::<Vec<_>>().join(",")
}

pub struct GateRun {
    /// what changed between the snapshots taken around the call ("" = nothing)
    pub diff: String,
    pub verdict: Verdict,
    pub impl_out: String,
    pub model_line: Option<String>,
    pub oracle: Vec<String>,
}

/// One statement through one interface on a fresh world.
pub async fn run_gate(case: &Case, entry: &str, miface: &str) -> GateRun {
    let sess = Sess::new(entry == "node.query_indexed", &case.pre).await;
    let sql = sess.sql_text(case);
    let plans = model_plans(&sess, &sql).await;
    let probe_before = sess.probe_fresh_node().await;
    let before = sess.snapshot().await;
    let verdict = submit(&sess, entry, &sql).await;
    // with a plan: "accepted" = not refused by the admission (a failure of the statement's own is
    // not a refusal); without a plan the text cannot be served at all
    let accepted = match (&verdict, plans.is_some()) {
        (Verdict::Served, _) => true,
        (Verdict::Refused(_), _) => false,
        (Verdict::Failed(_), has_plan) => has_plan,
    };
    let after = sess.snapshot().await;
    let probe_same = sess.probe().await;
    let probe_fresh = sess.probe_fresh_node().await;
    let classes = diff_classes(&before, &after);
    let mut oracle = Vec::new();
    if before != after {
        oracle.push(format!("{} changed state: {}", entry, diff_text(&before, &after)));
    }
    if probe_same != probe_before || probe_fresh != probe_before {
        oracle.push(format!("{}: probe query answered {} before, {} afterwards on the same node, {} on a new node", entry, probe_before, probe_same, probe_fresh));
    }
    if case.must_reject && verdict == Verdict::Served {
        oracle.push(format!("{}: a statement that writes or redefines objects was served instead of being rejected with an error", entry));
    }
    GateRun {
        diff: diff_text(&before, &after),
        verdict,
        impl_out: format!("accepted={} effects={}", if accepted { 1 } else { 0 }, classes_str(&classes)),
        model_line: plans.map(|p| format!("gate {} {}", miface, p.join("|")).trim_end().to_string()),
        oracle,
    }
}

pub struct RawRun {
    pub impl_out: String,
    pub observed: BTreeSet<String>,
    pub model_line: Option<String>,
    pub detail: String,
}

/// The statement run with plain `ctx.sql(..).collect()` on a scratch node: what the
/// embedded engine does with it when nothing stands in the way.
pub async fn run_raw(case: &Case) -> RawRun {
    let sess = Sess::new(false, &case.pre).await;
    let sql = sess.sql_text(case);
    let plans = model_plans(&sess, &sql).await;
    let before = sess.snapshot().await;
    let res = match sess.ctx().sql(&sql).await {
        Ok(df) => match df.collect().await {
            Ok(_) => "ok".to_string(),
            Err(e) => format!("collect: {}", first_line(&e.to_string())),
        },
        Err(e) => format!("sql: {}", first_line(&e.to_string())),
    };
    let after = sess.snapshot().await;
    let classes = diff_classes(&before, &after);
    RawRun {
        impl_out: format!("effects={}", classes_str(&classes)),
        observed: classes,
        model_line: match plans {
            Some(p) if p.len() == 1 => Some(format!("raw {}", p[0])),
            _ => None,
        },
        detail: format!("{} | {}", res, diff_text(&before, &after)),
    }
}

fn parse_effects(model_out: &str) -> Option<BTreeSet<String>> {
    let e = model_out.strip_prefix("effects=")?;
    Some(e.split(',').filter(|s| !s.is_empty()).map(|s| s.to_string()).collect())
}

// ------------------------------------------------------------- Prometheus ----
const PROM_ENDPOINTS: &[&str] = &[
    "GET /api/v1/query",
    "POST /api/v1/query",
    "GET /api/v1/query_range",
    "POST /api/v1/query_range",
    "GET /api/v1/labels",
    "POST /api/v1/labels",
    "GET /api/v1/label/:name/values",
    "GET /api/v1/series",
    "POST /api/v1/series",
    // the router's Query/Form extractors refuse `match[]` lists (400 before the handler runs), so the
    // handlers that take matchers are also called directly
    "handler series",
    "handler labels_get",
    "handler label_values",
];

fn pct(s: &str) -> String {
    s.bytes().map(|b| if b.is_ascii_alphanumeric() { (b as char).to_string() } else { format!("%{:02X}", b) }).collect()
}

/// Oracle shared by the families that have no model line: state and probe unchanged.
async fn unchanged_oracle(sess: &Sess, what: &str, before: &Snap, probe_before: &str) -> Vec<String> {
    let after = sess.snapshot().await;
    let probe_same = sess.probe().await;
    let probe_fresh = sess.probe_fresh_node().await;
    let mut oracle = Vec::new();
    if *before != after {
        oracle.push(format!("{} changed state: {}", what, diff_text(before, &after)));
    }
    if probe_same != probe_before || probe_fresh != probe_before {
        oracle.push(format!("{}: probe query answered {} before, {} / {} afterwards", what, probe_before, probe_same, probe_fresh));
    }
    oracle
}

/// A Prometheus route of the real HTTP router with hostile selector text.
async fn run_prom(endpoint: &str, text: &str) -> (String, Vec<String>) {
    let sess = Sess::new(false, &Pre::Cold).await;
    let probe_before = sess.probe_fresh_node().await;
    let before = sess.snapshot().await;
    let st = api_state(&sess);
    if let Some(h) = endpoint.strip_prefix("handler ") {
        let status = match h {
            "series" => prom::series(State(st), AxQuery(prom::SeriesQueryParams { matchers: vec![text.to_string()], start: Some(0.0), end: Some(1.0) })).await.0.status,
            "labels_get" => prom::labels_get(State(st), AxQuery(prom::LabelsQueryParams { matchers: vec![text.to_string()], start: None, end: None })).await.0.status,
            _ => prom::label_values(State(st), AxPath(text.to_string()), AxQuery(prom::LabelValuesQueryParams { matchers: vec![text.to_string()], start: None, end: None })).await.0.status,
        };
        let oracle = unchanged_oracle(&sess, &format!("prometheus {}", endpoint), &before, &probe_before).await;
        return (status, oracle);
    }
    let srv = wire::HttpServer::start(st.ingester.clone(), st.query_node.clone()).await.expect("http server");
    let client = wire::http_client();
    let (method, path) = endpoint.split_once(' ').unwrap_or(("GET", endpoint));
    let path = path.replace(":name", &pct(text));
    let mut params: Vec<(&str, String)> = Vec::new();
    if path.ends_with("/query") {
        params.push(("query", text.to_string()));
        params.push(("time", "1".into()));
    } else if path.ends_with("/query_range") {
        params.push(("query", text.to_string()));
        params.push(("start", "0".into()));
        params.push(("end", "1".into()));
        params.push(("step", "0.1".into()));
    } else {
        // without match[] the labels / label-values handlers are reached (the path carries the text)
        if path.ends_with("/series") || text.len() % 2 == 0 {
            params.push(("match[]", text.to_string()));
        }
        params.push(("start", "0".into()));
        params.push(("end", "1".into()));
    }
    let req = if method == "POST" { client.post(srv.url(&path)).form(&params) } else { client.get(srv.url(&path)).query(&params) };
    let status = match wire::http_send(req).await {
        Ok((_, body)) => serde_json::from_str::<Value>(&body).ok().and_then(|v| v["status"].as_str().map(|s| s.to_string())).unwrap_or_else(|| "http-error".into()),
        Err(_) => "transport-error".into(),
    };
    srv.stop().await;
    let oracle = unchanged_oracle(&sess, &format!("prometheus route {}", endpoint), &before, &probe_before).await;
    (status, oracle)
}

/// The Flight SQL handlers that carry no statement text (metadata, actions, unsupported commands)
/// with a hostile pattern, through the real client.
async fn run_meta(pattern: &str) -> (String, Vec<String>) {
    let sess = Sess::new(false, &Pre::WarmAll).await;
    let probe_before = sess.probe_fresh_node().await;
    let before = sess.snapshot().await;
    let (srv, mut client) = wire::GrpcServer::start(sess.node.clone()).await.expect("grpc server");
    let status = wire::grpc_metadata(&mut client, pattern).await;
    drop(client);
    srv.stop().await;
    let oracle = unchanged_oracle(&sess, "flight sql metadata/action handlers", &before, &probe_before).await;
    (status, oracle)
}

// --------------------------------------------------- entry-point inventory ----
/// Server-side handlers of the Flight SQL gRPC service (impl FlightSqlService for
/// FlightSqlGrpcService, impl FlightService for FlightSqlFlightService) -> how they are driven.
const GRPC_INVENTORY: &[(&str, &str)] = &[
    ("do_handshake", "meta: handshake (no statement text)"),
    ("get_flight_info_statement", "wire.execute / wire.execute_in_transaction / wire.poll_flight_info"),
    ("get_flight_info_substrait_plan", "meta: substrait_info (plan bytes, answers with a capability error)"),
    ("get_flight_info_prepared_statement", "wire.prepare_execute / wire.prepare_bind_execute"),
    ("get_flight_info_catalogs", "meta: catalogs"),
    ("get_flight_info_schemas", "meta: schemas"),
    ("get_flight_info_tables", "meta: tables"),
    ("get_flight_info_table_types", "meta: table_types"),
    ("get_flight_info_sql_info", "meta: sql_info"),
    ("get_flight_info_primary_keys", "meta: primary_keys"),
    ("get_flight_info_exported_keys", "meta: exported_keys"),
    ("get_flight_info_imported_keys", "meta: imported_keys"),
    ("get_flight_info_cross_reference", "meta: cross_reference"),
    ("get_flight_info_xdbc_type_info", "meta: xdbc_type_info"),
    ("get_flight_info_fallback", "meta: unknown command"),
    ("do_get_statement", "wire.execute"),
    ("do_get_prepared_statement", "wire.prepare_execute"),
    ("do_get_catalogs", "meta: catalogs"),
    ("do_get_schemas", "meta: schemas (filter patterns)"),
    ("do_get_tables", "meta: tables (filter patterns)"),
    ("do_get_table_types", "meta: table_types"),
    ("do_get_sql_info", "meta: sql_info"),
    ("do_get_primary_keys", "meta: unreachable without a ticket (get_flight_info answers with an error)"),
    ("do_get_exported_keys", "meta: unreachable without a ticket"),
    ("do_get_imported_keys", "meta: unreachable without a ticket"),
    ("do_get_cross_reference", "meta: unreachable without a ticket"),
    ("do_get_xdbc_type_info", "meta: xdbc_type_info"),
    ("do_get_fallback", "meta: unknown ticket"),
    ("do_put_statement_update", "wire.execute_update"),
    ("do_put_statement_ingest", "meta: statement_ingest (table name + batches, answers with a capability error)"),
    ("do_put_prepared_statement_query", "wire.prepare_bind_execute"),
    ("do_put_prepared_statement_update", "wire.prepare_execute_update"),
    ("do_put_substrait_plan", "meta: substrait_put"),
    ("do_put_fallback", "meta: unknown_put"),
    ("do_action_create_prepared_statement", "wire.prepare_*"),
    ("do_action_close_prepared_statement", "wire.prepare_* (close) / meta"),
    ("do_action_create_prepared_substrait_plan", "meta: CreatePreparedSubstraitPlan"),
    ("do_action_begin_transaction", "wire.execute_in_transaction"),
    ("do_action_end_transaction", "wire.execute_in_transaction / meta"),
    ("do_action_begin_savepoint", "meta: BeginSavepoint"),
    ("do_action_end_savepoint", "meta: EndSavepoint"),
    ("do_action_cancel_query", "meta: CancelQuery"),
    ("do_action_fallback", "meta: NoSuchAction"),
    ("do_exchange_fallback", "meta: do_exchange"),
    ("register_sql_info", "not a request handler"),
    // impl FlightService for FlightSqlFlightService
    ("handshake", "meta: handshake"),
    ("list_flights", "meta: list_flights (fixed statement)"),
    ("get_flight_info", "every wire.* get_flight_info call"),
    ("poll_flight_info", "wire.poll_flight_info"),
    ("get_schema", "wire.get_schema"),
    ("do_get", "every wire.* do_get call"),
    ("do_put", "every wire.* do_put call"),
    ("do_exchange", "meta: do_exchange"),
    ("do_action", "every wire.* action"),
    ("list_actions", "meta: list_actions"),
];

/// routes of build_http_router -> how they are driven
const ROUTE_INVENTORY: &[(&str, &str)] = &[
    ("get /health", "not a query interface"),
    ("get /ready", "not a query interface"),
    ("post /api/v1/sql", "route.POST /api/v1/sql"),
    ("get /api/v1/sql", "route.GET /api/v1/sql"),
    ("get /api/v1/query", "prometheus family"),
    ("post /api/v1/query", "prometheus family"),
    ("get /api/v1/query_range", "prometheus family"),
    ("post /api/v1/query_range", "prometheus family"),
    ("get /api/v1/labels", "prometheus family"),
    ("post /api/v1/labels", "prometheus family"),
    ("get /api/v1/label/:name/values", "prometheus family"),
    ("get /api/v1/series", "prometheus family"),
    ("post /api/v1/series", "prometheus family"),
    ("post /api/v1/write", "ingest interface (remote write), not a query interface"),
    ("get /api/v1/stream", "route.WS /api/v1/stream"),
];

/// functions that receive statement text (a parameter named sql / query of type &str), per file
const SQL_FN_INVENTORY: &[(&str, &[&str])] = &[
    ("src/query/engine.rs", &["plan_user_sql", "plan", "execute", "execute_with_indexes", "execute_stream", "extract_time_range", "extract_column_predicates", "analyze", "prepare"]),
    ("src/query/mod.rs", &["query", "query_for_tenant", "query_stream", "query_stream_filtered"]),
    ("src/query/streaming.rs", &["execute", "from_sql"]),
    ("src/api/query/flight_sql.rs", &["get_flight_info", "get_flight_info_with_ticket", "analyze_schema", "execute_batches", "create_prepared_statement"]),
    ("src/api/query/sql_http.rs", &[]),
    ("src/api/query/streaming.rs", &[]),
    ("src/api/query/prometheus_api.rs", &[]),
    ("src/api/grpc.rs", &["query_string_rows", "make_statement_ticket"]),
];

/// Compares the entry points that exist in the source with what this harness drives.  Anything
/// unknown that takes statement text is reported: the harness must not silently skip a route.
fn inventory_problems() -> Vec<String> {
    let repo = std::env::var("VERIF_REPO").unwrap_or_else(|_| "/repo".to_string());
    let read = |rel: &str| std::fs::read_to_string(format!("{}/{}", repo, rel)).unwrap_or_default();
    let mut problems = Vec::new();
    // 1. gRPC handlers
    let grpc = read("src/api/grpc.rs");
    if grpc.is_empty() {
        problems.push("cannot read src/api/grpc.rs".to_string());
    }
    let mut in_impl = false;
    for line in grpc.lines() {
        if line.starts_with("impl FlightSqlService for FlightSqlGrpcService") || line.starts_with("impl FlightService for FlightSqlFlightService") {
            in_impl = true;
            continue;
        }
        if line.starts_with('}') {
            in_impl = false;
        }
        if in_impl {
            if let Some(rest) = line.trim_start().strip_prefix("async fn ") {
                let name: String = rest.chars().take_while(|c| c.is_alphanumeric() || *c == '_').collect();
                if !GRPC_INVENTORY.iter().any(|(n, _)| *n == name) {
                    problems.push(format!("Flight SQL handler `{}` (src/api/grpc.rs) is not in the harness's inventory: it is not driven", name));
                }
            }
        }
    }
    // 2. HTTP routes
    let api = read("src/api/mod.rs");
    let mut rest = api.as_str();
    let mut seen_routes = 0;
    while let Some(i) = rest.find(".route(\"") {
        rest = &rest[i + 8..];
        let path: String = rest.chars().take_while(|c| *c != '"').collect();
        let after = &rest[path.len()..];
        let method: String = after.trim_start_matches(|c: char| c == '"' || c == ',' || c.is_whitespace()).chars().take_while(|c| c.is_alphanumeric()).collect();
        seen_routes += 1;
        let key = format!("{} {}", method.to_lowercase(), path);
        if !ROUTE_INVENTORY.iter().any(|(r, _)| *r == key) {
            problems.push(format!("HTTP route `{}` (src/api/mod.rs) is not in the harness's inventory: it is not driven", key));
        }
    }
    if seen_routes == 0 {
        problems.push("no routes found in src/api/mod.rs".to_string());
    }
    // 3. functions taking statement text
    for (rel, known) in SQL_FN_INVENTORY {
        let txt = read(rel);
        if txt.is_empty() {
            problems.push(format!("cannot read {}", rel));
            continue;
        }
        let code = match txt.find("#[cfg(test)]\nmod tests") {
            Some(i) => &txt[..i],
            None => &txt[..],
        };
        let mut rest = code;
        while let Some(i) = rest.find("fn ") {
            let before_ok = i == 0 || !rest.as_bytes()[i - 1].is_ascii_alphanumeric() && rest.as_bytes()[i - 1] != b'_';
            rest = &rest[i + 3..];
            if !before_ok {
                continue;
            }
            let name: String = rest.chars().take_while(|c| c.is_alphanumeric() || *c == '_').collect();
            if name.is_empty() {
                continue;
            }
            // parameter list up to the matching ')'
            let open = match rest.find('(') {
                Some(o) => o,
                None => continue,
            };
            let mut depth = 0i32;
            let mut end = open;
            for (k, ch) in rest[open..].char_indices() {
                if ch == '(' {
                    depth += 1;
                } else if ch == ')' {
                    depth -= 1;
                    if depth == 0 {
                        end = open + k;
                        break;
                    }
                }
            }
            let params: String = rest[open..end].split_whitespace().collect::<Vec<_>>().join(" ");
            let takes_sql = ["sql: &str", "query: &str", "sql: String", "query: String", "statement: &str", "stmt: &str"].iter().any(|p| params.contains(p));
            if takes_sql && !known.contains(&name.as_str()) {
                problems.push(format!("function `{}` in {} takes statement text and is not in the harness's inventory: no entry point is known to reach it", name, rel));
            }
        }
    }
    // 4. the engine hands text to DataFusion in exactly one place
    let engine = read("src/query/engine.rs");
    let code = match engine.find("#[cfg(test)]\nmod tests") {
        Some(i) => &engine[..i],
        None => &engine[..],
    };
    let n_opts = code.matches(".sql_with_options(").count();
    let n_plain = code.matches(".sql(").count() + code.matches(".execute_logical_plan(").count() + code.matches(".create_logical_plan(").count();
    if n_opts != 1 || n_plain != 0 {
        problems.push(format!("src/query/engine.rs hands statement text to the embedded engine in {} gated and {} ungated places (expected 1 and 0)", n_opts, n_plain));
    }
    problems
}

// --------------------------------------------------------- lexical variants ----
#[derive(Clone, Debug, PartialEq)]
enum Tok {
    Word(String),
    Quoted(String),
    Sym(String),
}

fn tokenize(sql: &str) -> Vec<(Tok, bool)> {
    // (token, whitespace before it)
    let cs: Vec<char> = sql.chars().collect();
    let mut out = Vec::new();
    let mut i = 0;
    let mut space = false;
    while i < cs.len() {
        let c = cs[i];
        if c.is_whitespace() {
            space = true;
            i += 1;
            continue;
        }
        if c == '\'' || c == '"' {
            let q = c;
            let mut j = i + 1;
            while j < cs.len() {
                if cs[j] == q {
                    if j + 1 < cs.len() && cs[j + 1] == q {
                        j += 2;
                        continue;
                    }
                    break;
                }
                j += 1;
            }
            let end = (j + 1).min(cs.len());
            out.push((Tok::Quoted(cs[i..end].iter().collect()), space));
            i = end;
        } else if c.is_alphanumeric() || c == '_' || c == '$' || c == '{' {
            let mut j = i;
            while j < cs.len() && (cs[j].is_alphanumeric() || "_.$:{}".contains(cs[j])) {
                j += 1;
            }
            out.push((Tok::Word(cs[i..j].iter().collect()), space));
            i = j;
        } else if "<>=!|".contains(c) {
            let mut j = i;
            while j < cs.len() && "<>=!|".contains(cs[j]) {
                j += 1;
            }
            out.push((Tok::Sym(cs[i..j].iter().collect()), space));
            i = j;
        } else {
            out.push((Tok::Sym(c.to_string()), space));
            i += 1;
        }
        space = false;
    }
    out
}

/// The same statement written differently: comments and odd whitespace between tokens, keywords
/// and identifiers in other letter case, leading comments, trailing semicolons.
fn lexical_variant(sql: &str, rng: &mut Rng) -> String {
    let toks = tokenize(sql);
    let mut out = String::new();
    match rng.below(6) {
        0 => out.push_str("/* lead */ "),
        1 => out.push_str("-- lead\n"),
        2 => out.push_str("\n\t "),
        _ => {}
    }
    let flip = rng.below(4); // 0: keep, 1: lower, 2: upper, 3: per word
    for (k, (t, space)) in toks.iter().enumerate() {
        if k > 0 {
            let sep = if *space {
                *rng.pick(&[" ", " ", "  ", "\n", "\t", " /* c */ ", "/**/", " -- c\n", "\n\n", " /* ANALYZE */ ", "\r\n"])
            } else {
                *rng.pick(&["", "", "", " ", "/* c */"])
            };
            out.push_str(sep);
        }
        match t {
            Tok::Word(w) => {
                let plain = w.chars().all(|c| c.is_ascii_alphabetic() || c == '_');
                let w2 = if !plain {
                    w.clone()
                } else {
                    match if flip == 3 { 1 + rng.below(3) } else { flip } {
                        1 => w.to_lowercase(),
                        2 => w.to_uppercase(),
                        3 => w.chars().enumerate().map(|(i, c)| if i % 2 == 0 { c.to_ascii_uppercase() } else { c.to_ascii_lowercase() }).collect(),
                        _ => w.clone(),
                    }
                };
                out.push_str(&w2);
            }
            Tok::Quoted(q) => out.push_str(q),
            Tok::Sym(s) => out.push_str(s),
        }
    }
    match rng.below(8) {
        0 => out.push(';'),
        1 => out.push_str(" ;"),
        2 => out.push_str("; -- bye"),
        3 => out.push_str(" /* end */"),
        4 => out.push_str(";\n"),
        _ => {}
    }
    out
}

/// Splits `EXPLAIN [ANALYZE] [VERBOSE] <inner>` written in any lexical form into (wrapper words, inner).
fn strip_explain(sql: &str) -> (Vec<String>, String) {
    // remove comments first
    let mut clean = String::new();
    let cs: Vec<char> = sql.chars().collect();
    let mut i = 0;
    while i < cs.len() {
        if cs[i] == '\'' {
            let mut j = i + 1;
            while j < cs.len() && cs[j] != '\'' {
                j += 1;
            }
            clean.extend(&cs[i..(j + 1).min(cs.len())]);
            i = j + 1;
        } else if cs[i] == '/' && i + 1 < cs.len() && cs[i + 1] == '*' {
            let mut j = i + 2;
            while j + 1 < cs.len() && !(cs[j] == '*' && cs[j + 1] == '/') {
                j += 1;
            }
            clean.push(' ');
            i = j + 2;
        } else if cs[i] == '-' && i + 1 < cs.len() && cs[i + 1] == '-' {
            while i < cs.len() && cs[i] != '\n' {
                i += 1;
            }
            clean.push(' ');
        } else {
            clean.push(cs[i]);
            i += 1;
        }
    }
    let mut words = Vec::new();
    let mut rest = clean.trim_start().to_string();
    loop {
        let w: String = rest.chars().take_while(|c| c.is_ascii_alphabetic()).collect();
        let up = w.to_uppercase();
        if up == "EXPLAIN" || (up == "ANALYZE" || up == "VERBOSE") && !words.is_empty() {
            words.push(up);
            rest = rest[w.len()..].trim_start().to_string();
        } else {
            break;
        }
    }
    (words, rest.trim_end().trim_end_matches(';').to_string())
}

/// Violation search from a disagreement "the interface let a statement through that the model
/// refuses, without a visible effect": the same wrapper shape and route with statements that do
/// write, and lexical variants of all of them.  Returns the first statement for which the
/// oracle fails, with the oracle's text.
fn escalate(rt: &tokio::runtime::Runtime, case: &Case, entry: &str, miface: &str, rng: &mut Rng, budget: usize) -> Option<(Case, Vec<String>)> {
    let (_, inner) = strip_explain(&case.sql);
    let c1 = format!("s3://{}/{}", BUCKET, chunk_path(1));
    let writers = vec![
        inner.clone(),
        format!("COPY (SELECT 1 AS x) TO '{}' STORED AS PARQUET", c1),
        "COPY (SELECT 1 AS x) TO 's3://cardinalsin-data/default/escalated.parquet' STORED AS PARQUET".to_string(),
        "DROP TABLE metrics".to_string(),
        "SET datafusion.catalog.default_schema = 'scratch'".to_string(),
        "INSERT INTO m0 VALUES (2)".to_string(),
        "CREATE OR REPLACE VIEW metrics AS SELECT 1 AS x".to_string(),
    ];
    let shapes: Vec<Box<dyn Fn(&str) -> String>> = vec![
        Box::new(|i| i.to_string()),
        Box::new(|i| format!("EXPLAIN ANALYZE {}", i)),
        Box::new(|i| format!("EXPLAIN /* c */ ANALYZE {}", i)),
        Box::new(|i| format!("EXPLAIN -- c\nANALYZE {}", i)),
        Box::new(|i| format!("EXPLAIN\tANALYZE {}", i)),
        Box::new(|i| format!("EXPLAIN/**/ANALYZE {}", i)),
        Box::new(|i| format!("explain analyze {}", i)),
        Box::new(|i| format!("EXPLAIN VERBOSE {}", i)),
        Box::new(|i| format!("EXPLAIN ANALYZE VERBOSE {}", i)),
        Box::new(|i| format!("/* c */ {}", i)),
        Box::new(|i| format!("{};", i)),
    ];
    let mut tried = 0usize;
    let mut candidates: Vec<String> = Vec::new();
    for w in &writers {
        for sh in &shapes {
            candidates.push(sh(w));
        }
    }
    for _ in 0..20 {
        let base = rng.pick(&candidates).clone();
        candidates.push(lexical_variant(&base, rng));
    }
    for sql in candidates {
        if tried >= budget {
            break;
        }
        tried += 1;
        let c = Case { sql, kind: format!("escalated.{}", case.kind), must_reject: false, pre: case.pre.clone(), exact: false };
        let g = match csv_common::catch(std::panic::AssertUnwindSafe(|| rt.block_on(run_gate(&c, entry, miface)))) {
            Ok(g) => g,
            Err(_) => continue,
        };
        if !g.oracle.is_empty() {
            return Some((c, g.oracle));
        }
    }
    None
}

fn hostile_promql(rng: &mut Rng) -> String {
    let payloads = [
        "up'; DROP TABLE metrics; --",
        "up' OR '1'='1",
        "x\\'; COPY (SELECT 1) TO 's3://cardinalsin-data/default/evil.parquet'; --",
        "sum by (host\") FROM metrics; DROP TABLE metrics; --) (cpu)",
        "sum by (host\", (SELECT 1) AS \"z) (cpu)",
        "cpu{host=\"a' ; DROP TABLE metrics ; --\"}",
        "cpu{host=~\"a'); COPY metrics TO 's3://cardinalsin-data/metadata/catalog.json' STORED AS JSON; --\"}",
        "rate(cpu'; SET datafusion.execution.batch_size = 1; --[5m])",
        "metrics; CREATE VIEW v9 AS SELECT 1",
        "cpu",
        "sum(cpu)",
        "host",
        "host\" FROM metrics; DROP TABLE metrics; --",
        "COPY (SELECT 1) TO 's3://cardinalsin-data/default/evil.parquet'",
        "",
    ];
    let mut s = rng.pick(&payloads).to_string();
    if rng.chance(1, 4) {
        s = format!("{}{}", s, rng.pick(&["'", "\"", ";", "\\", "--", "/*", ")"]));
    }
    s
}

// --------------------------------------------------------------- generator ----
fn target_url(loc: &str, rng: &mut Rng, n: u64) -> String {
    match loc {
        "fresh" => format!("s3://{}/default/evil_{}.{}", BUCKET, n, rng.pick(&["parquet", "csv", "json"])),
        "freshdir" => format!("s3://{}/default/evil_dir_{}/", BUCKET, n),
        "chunk" => format!("s3://{}/{}", BUCKET, chunk_path(1 + rng.below(3) as u32)),
        "catalog" => format!("s3://{}/{}", BUCKET, CATALOG_PATH),
        "local" => format!("{{LOCAL}}/evil_{}.parquet", n),
        "localuri" => format!("file://{{LOCAL}}/evil_{}.csv", n),
        _ => format!("s3://other-bucket-{}/evil.parquet", n),
    }
}

fn fmt_for(url: &str, rng: &mut Rng) -> &'static str {
    if url.ends_with(".csv") {
        "CSV"
    } else if url.ends_with(".json") {
        "JSON"
    } else if url.ends_with('/') {
        *rng.pick(&["PARQUET", "CSV", "JSON"])
    } else {
        "PARQUET"
    }
}

fn read_query(rng: &mut Rng) -> String {
    let qs = [
        "SELECT 1 AS x",
        "SELECT count(*) FROM metrics",
        "SELECT * FROM metrics WHERE timestamp >= 0 AND timestamp <= 1000",
        "SELECT host, avg(value_f64) AS v FROM metrics WHERE timestamp >= 0 AND timestamp <= 300 GROUP BY host ORDER BY host LIMIT 5",
        "SELECT * FROM metrics WHERE host IN (SELECT host FROM metrics WHERE timestamp <= 100)",
        "SELECT a.timestamp FROM metrics a JOIN metrics b ON a.timestamp = b.timestamp WHERE a.timestamp >= 0 AND a.timestamp <= 100",
        "WITH w AS (SELECT timestamp, value_f64 FROM metrics) SELECT max(value_f64) FROM w WHERE timestamp >= 0 AND timestamp <= 500",
        "SELECT timestamp FROM metrics WHERE timestamp <= 100 UNION ALL SELECT timestamp FROM metrics WHERE timestamp >= 400 AND timestamp <= 500",
        "SELECT DISTINCT metric_name FROM metrics WHERE timestamp >= 0 AND timestamp <= 1000",
        "SELECT timestamp, row_number() OVER (ORDER BY timestamp) AS r FROM metrics WHERE timestamp >= 0 AND timestamp <= 300",
        "SELECT * FROM (VALUES (1, 'a'), (2, 'b')) AS t(x, y)",
        "SELECT * FROM metrics WHERE EXISTS (SELECT 1 FROM metrics m2 WHERE m2.timestamp = metrics.timestamp) AND timestamp <= 100",
        "SELECT unnest(make_array(1, 2, 3)) AS u",
        "WITH RECURSIVE r AS (SELECT 1 AS n UNION ALL SELECT n + 1 FROM r WHERE n < 3) SELECT * FROM r",
        "SELECT table_name FROM information_schema.tables",
        "SELECT * FROM v0",
        "SELECT x FROM m0",
    ];
    rng.pick(&qs).to_string()
}

fn wrap(rng: &mut Rng, stmt: &str, report: &mut Report) -> (String, bool) {
    // returns (text, runs): whether the wrapper still runs the statement
    match rng.below(10) {
        0 => {
            report.bump("wrap.explain");
            (format!("EXPLAIN {}", stmt), false)
        }
        1 => {
            report.bump("wrap.explain_verbose");
            (format!("EXPLAIN VERBOSE {}", stmt), false)
        }
        2 | 3 => {
            report.bump("wrap.explain_analyze");
            (format!("EXPLAIN ANALYZE {}", stmt), true)
        }
        4 => {
            let k = rng.range_usize(2, 6);
            report.bump("wrap.explain_analyze_nested");
            (format!("{}{}", "EXPLAIN ANALYZE ".repeat(k), stmt), true)
        }
        _ => (stmt.to_string(), true),
    }
}

fn gen_base_case(rng: &mut Rng, n: u64, report: &mut Report) -> Case {
    let pre = match rng.below(4) {
        0 => Pre::WarmOne,
        1 => Pre::WarmAll,
        _ => Pre::Cold,
    };
    let fam = rng.below(100);
    if fam < 28 {
        // COPY ... TO <target>
        let loc = *rng.pick(&["fresh", "freshdir", "chunk", "chunk", "catalog", "local", "localuri", "unreg"]);
        let url = target_url(loc, rng, n);
        let src = if rng.chance(1, 2) { format!("({})", read_query(rng)) } else { rng.pick(&["metrics", "m0", "v0"]).to_string() };
        let f = fmt_for(&url, rng);
        let stmt = format!("COPY {} TO '{}' STORED AS {}", src, url, f);
        let (sql, runs) = wrap(rng, &stmt, report);
        report.bump(&format!("kind.copy.{}", loc));
        return Case { sql, kind: format!("copy.{}", loc), must_reject: runs && loc != "unreg", pre, exact: false };
    }
    if fam < 52 {
        // DDL
        let c1 = format!("s3://{}/{}", BUCKET, chunk_path(1));
        let ddls: Vec<(String, &str, bool)> = vec![
            ("DROP TABLE metrics".into(), "drop_table.metrics", true),
            ("DROP TABLE m0".into(), "drop_table.mem", true),
            ("DROP TABLE IF EXISTS nosuch".into(), "drop_table.absent", false),
            ("DROP VIEW v0".into(), "drop_view", true),
            ("DROP SCHEMA s0".into(), "drop_schema", true),
            (format!("CREATE TABLE t{} AS {}", n, read_query(rng)), "create_table_as", true),
            (format!("CREATE TABLE t{} (x INT, y VARCHAR)", n), "create_table", true),
            ("CREATE OR REPLACE TABLE metrics AS SELECT 1 AS x".into(), "replace_table.metrics", true),
            (format!("CREATE VIEW v{} AS {}", n, read_query(rng)), "create_view", true),
            ("CREATE OR REPLACE VIEW metrics AS SELECT 1 AS timestamp".into(), "replace_view.metrics", true),
            (format!("CREATE SCHEMA s{}", n), "create_schema", true),
            (format!("CREATE DATABASE d{}", n), "create_catalog", true),
            (format!("CREATE EXTERNAL TABLE ext{} STORED AS PARQUET LOCATION '{}'", n, c1), "create_external.chunk", true),
            (format!("CREATE EXTERNAL TABLE ext{} (x INT) STORED AS CSV LOCATION 's3://{}/default/ext_{}/'", n, BUCKET, n), "create_external.fresh", true),
            (format!("CREATE EXTERNAL TABLE ext{} (x INT) STORED AS CSV LOCATION '{{LOCAL}}/ext_{}/'", n, n), "create_external.local", true),
            (format!("CREATE UNBOUNDED EXTERNAL TABLE ext{} (x INT) STORED AS CSV LOCATION 's3://{}/default/ext_{}/'", n, BUCKET, n), "create_external.unbounded", true),
            ("CREATE FUNCTION f1(DOUBLE) RETURNS DOUBLE RETURN $1 + 1".into(), "create_function", false),
            ("DROP FUNCTION IF EXISTS f1".into(), "drop_function", false),
            ("CREATE INDEX i1 ON metrics (host)".into(), "create_index", false),
        ];
        let (stmt, kind, effective) = rng.pick(&ddls).clone();
        let (sql, runs) = wrap(rng, &stmt, report);
        let unwrapped = sql == stmt;
        report.bump(&format!("kind.ddl.{}", kind));
        // EXPLAIN [ANALYZE] of DDL does not run it (the physical planner refuses DDL)
        let _ = runs;
        // CREATE TABLE AS runs its source query, which may fail on its own (type error against the
        // placeholder table of a cold node): subset only
        return Case { sql, kind: format!("ddl.{}", kind), must_reject: unwrapped && effective, pre, exact: unwrapped && effective && kind != "create_table_as" };
    }
    if fam < 66 {
        // DML
        let dmls: Vec<(String, &str, bool)> = vec![
            ("INSERT INTO metrics SELECT * FROM metrics".into(), "insert.metrics", true),
            ("INSERT INTO metrics (timestamp, metric_name) VALUES (1, 'x')".into(), "insert.metrics_values", true),
            ("INSERT OVERWRITE metrics SELECT * FROM metrics".into(), "insert_overwrite.metrics", true),
            ("INSERT INTO m0 VALUES (2)".into(), "insert.mem", true),
            (format!("INSERT INTO m0 SELECT 3 AS x FROM ({}) q", read_query(rng)), "insert.mem_select", true),
            ("DELETE FROM metrics WHERE timestamp > 0".into(), "delete", false),
            ("DELETE FROM m0".into(), "delete.mem", false),
            ("UPDATE metrics SET host = 'x'".into(), "update", false),
            ("UPDATE m0 SET x = 5".into(), "update.mem", false),
        ];
        let (stmt, kind, writes) = rng.pick(&dmls).clone();
        let (sql, runs) = wrap(rng, &stmt, report);
        report.bump(&format!("kind.dml.{}", kind));
        // the source query of insert.mem_select may fail on its own (e.g. a type error against the
        // placeholder table of a cold node), so its effect is only required to be a subset
        return Case { sql, kind: format!("dml.{}", kind), must_reject: writes && runs && kind == "insert.mem", pre, exact: kind == "insert.mem" && runs };
    }
    if fam < 78 {
        // session statements
        let sts: Vec<(String, &str, bool)> = vec![
            ("SET datafusion.execution.batch_size = 1".into(), "set.batch_size", true),
            ("SET datafusion.catalog.information_schema = false".into(), "set.information_schema", true),
            ("SET datafusion.sql_parser.enable_ident_normalization = false".into(), "set.ident_normalization", true),
            ("SET datafusion.execution.parquet.pushdown_filters = true".into(), "set.pushdown", true),
            ("SET TIME ZONE = '+08:00'".into(), "set.timezone", true),
            ("COMMIT".into(), "commit", false),
            ("ROLLBACK".into(), "rollback", false),
            ("BEGIN".into(), "begin", false),
            ("START TRANSACTION".into(), "start_transaction", false),
            (format!("PREPARE p1 AS {}", read_query(rng)), "prepare", true),
            ("PREPARE p2(INT) AS SELECT $1 + 1".into(), "prepare.param", true),
            ("PREPARE p2(INT) AS INSERT INTO m0 VALUES ($1)".into(), "prepare.insert", true),
            ("EXECUTE p0".into(), "execute.select", false),
            ("EXECUTE pins(9)".into(), "execute.insert", true),
            ("DEALLOCATE p0".into(), "deallocate", true),
            ("DEALLOCATE PREPARE pins".into(), "deallocate.prepare", true),
        ];
        let (stmt, kind, effective) = rng.pick(&sts).clone();
        let (sql, _runs) = if rng.chance(1, 5) { wrap(rng, &stmt, report) } else { (stmt.clone(), true) };
        let unwrapped = sql == stmt;
        report.bump(&format!("kind.stmt.{}", kind));
        return Case { sql, kind: format!("stmt.{}", kind), must_reject: unwrapped && effective, pre, exact: unwrapped && effective };
    }
    if fam < 90 {
        // read-only statements: must be served, and change nothing
        let ro = match rng.below(8) {
            0 => "DESCRIBE metrics".to_string(),
            1 => "SHOW TABLES".to_string(),
            2 => "SHOW ALL".to_string(),
            3 => "SHOW COLUMNS FROM metrics".to_string(),
            _ => read_query(rng),
        };
        let is_select = ro.starts_with("SELECT") || ro.starts_with("WITH");
        let (sql, _) = if is_select { wrap(rng, &ro, report) } else { (ro.clone(), true) };
        report.bump("kind.readonly");
        return Case { sql, kind: "readonly".into(), must_reject: false, pre, exact: true };
    }
    if fam < 97 {
        // multi-statement strings
        let k = rng.range_usize(2, 3);
        let mut parts = Vec::new();
        for j in 0..k {
            let mut r = rng.fork();
            let mut scratch = Report::new("scratch");
            let c = gen_base_case(&mut r, n * 10 + j as u64, &mut scratch);
            if !c.sql.contains(';') {
                parts.push(c.sql);
            } else {
                parts.push("SELECT 1".to_string());
            }
        }
        report.bump("kind.multi_statement");
        return Case { sql: parts.join("; "), kind: "multi".into(), must_reject: true, pre, exact: false };
    }
    // text that does not parse / plan
    let junk = ["EXPLAIN (FORMAT JSON) SELECT 1", "EXPLAIN (ANALYZE) COPY (SELECT 1 AS x) TO 's3://cardinalsin-data/default/x.parquet'", "EXPLAIN FORMAT JSON SELECT 1", "EXPLAIN ANALYZE", "", ";", "SELEC 1", "COPY", "DROP", "TRUNCATE TABLE metrics", "ALTER TABLE metrics ADD COLUMN z INT", "EXPLAIN EXPLAIN SELECT 1", "SELECT * FROM nosuch", "INSERT INTO nosuch VALUES (1)", "COPY nosuch TO 's3://cardinalsin-data/default/x.parquet'", "/* DROP TABLE metrics */", "-- COPY"];
    report.bump("kind.unplannable");
    Case { sql: rng.pick(&junk).to_string(), kind: "junk".into(), must_reject: false, pre, exact: false }
}

/// A statement of a random kind, half of the time rewritten into a lexical variant (comments,
/// whitespace, letter case, leading comment, trailing semicolon) -- the plan, and therefore the
/// model's verdict, is taken from the planner for the text as written.
fn gen_case(rng: &mut Rng, n: u64, report: &mut Report) -> Case {
    let mut c = gen_base_case(rng, n, report);
    if c.kind != "junk" && rng.chance(1, 2) {
        c.sql = lexical_variant(&c.sql, rng);
        report.bump("lexical.variant");
        if c.sql.contains("/*") || c.sql.contains("--") {
            report.bump("lexical.with_comments");
        }
        // a trailing `;` keeps a single statement single; the multi family stays multi
    } else {
        report.bump("lexical.as_generated");
    }
    c
}

/// Fixed cases that always run first: the witnesses reproduced on the code before
/// the repair (they must be rejected now) and one case per proof case split.
fn corpus() -> Vec<Case> {
    let c = |sql: &str, kind: &str, must_reject: bool, pre: Pre, exact: bool| Case { sql: sql.to_string(), kind: kind.to_string(), must_reject, pre, exact };
    let c1 = format!("s3://{}/{}", BUCKET, chunk_path(1));
    vec![
        c("COPY (SELECT 1 AS x) TO 's3://cardinalsin-data/default/evil.parquet' STORED AS PARQUET", "witness.copy.fresh", true, Pre::Cold, true),
        c("DROP TABLE metrics", "witness.drop_table.metrics", true, Pre::Cold, true),
        c(&format!("COPY (SELECT 1 AS x) TO '{}' STORED AS PARQUET", c1), "copy.chunk", true, Pre::WarmAll, true),
        c("COPY (SELECT 1 AS x) TO 's3://cardinalsin-data/metadata/catalog.json' STORED AS JSON", "copy.catalog", true, Pre::Cold, true),
        c("COPY (SELECT 1 AS x) TO '{LOCAL}/evil.parquet' STORED AS PARQUET", "copy.local", true, Pre::Cold, true),
        c("COPY (SELECT 1 AS x) TO 's3://other-bucket/evil.parquet' STORED AS PARQUET", "copy.unreg", false, Pre::Cold, true),
        c("COPY metrics TO 's3://cardinalsin-data/default/copy_dir/' STORED AS PARQUET", "copy.freshdir", true, Pre::WarmAll, true),
        c("EXPLAIN COPY (SELECT 1 AS x) TO 's3://cardinalsin-data/default/evil2.parquet' STORED AS PARQUET", "explain.copy", false, Pre::Cold, true),
        c("EXPLAIN ANALYZE COPY (SELECT 1 AS x) TO 's3://cardinalsin-data/default/evil3.parquet' STORED AS PARQUET", "analyze.copy", true, Pre::Cold, true),
        c("EXPLAIN ANALYZE EXPLAIN ANALYZE EXPLAIN ANALYZE COPY (SELECT 1 AS x) TO 's3://cardinalsin-data/default/evil5.parquet' STORED AS PARQUET", "analyze3.copy", true, Pre::Cold, true),
        c("CREATE OR REPLACE VIEW metrics AS SELECT 1 AS x", "replace_view.metrics", true, Pre::Cold, true),
        c("CREATE TABLE t1 AS SELECT 1 AS x", "create_table_as", true, Pre::Cold, true),
        c(&format!("CREATE EXTERNAL TABLE ext1 STORED AS PARQUET LOCATION '{}'", c1), "create_external.chunk", true, Pre::Cold, true),
        c("INSERT INTO m0 VALUES (2)", "insert.mem", true, Pre::Cold, true),
        c("EXPLAIN ANALYZE INSERT INTO m0 VALUES (2)", "analyze.insert.mem", true, Pre::Cold, true),
        c("INSERT INTO metrics SELECT * FROM metrics", "insert.metrics.cold", false, Pre::Cold, true),
        c("INSERT INTO metrics SELECT * FROM metrics", "insert.metrics.warm1", false, Pre::WarmOne, false),
        c("INSERT INTO metrics SELECT * FROM metrics", "insert.metrics.warmall", false, Pre::WarmAll, true),
        c("SET datafusion.execution.batch_size = 1", "set", true, Pre::Cold, true),
        c("PREPARE p1 AS SELECT 1", "prepare", true, Pre::Cold, true),
        c("EXECUTE pins(9)", "execute.insert", true, Pre::Cold, true),
        c("DEALLOCATE p0", "deallocate", true, Pre::Cold, true),
        c("SELECT 1; DROP TABLE metrics", "multi", true, Pre::Cold, false),
        c("DROP TABLE metrics; SELECT 1", "multi", true, Pre::Cold, false),
        c("SELECT count(*) FROM metrics WHERE timestamp >= 0 AND timestamp <= 1000", "readonly", false, Pre::Cold, true),
        c("EXPLAIN ANALYZE SELECT count(*) FROM metrics", "readonly.analyze", false, Pre::WarmAll, true),
        c("DESCRIBE metrics", "readonly.describe", false, Pre::Cold, true),
        // lexical forms of EXPLAIN ANALYZE <writing statement>: a route that classifies statements by
        // their first words must not be fooled by comments, case or whitespace
        c(&format!("EXPLAIN /* c */ ANALYZE COPY (SELECT 1 AS x) TO '{}' STORED AS PARQUET", c1), "lex.explain_comment_analyze.copy.chunk", true, Pre::WarmAll, true),
        c("EXPLAIN -- c\nANALYZE COPY (SELECT 1 AS x) TO 's3://cardinalsin-data/default/evil6.parquet' STORED AS PARQUET", "lex.explain_linecomment_analyze.copy", true, Pre::Cold, true),
        c("explain\tanalyze copy (select 1 as x) to 's3://cardinalsin-data/default/evil7.parquet' stored as parquet", "lex.lowercase_tab.copy", true, Pre::Cold, true),
        c("/* EXPLAIN */ COPY (SELECT 1 AS x) TO 's3://cardinalsin-data/default/evil8.parquet' STORED AS PARQUET", "lex.leading_comment.copy", true, Pre::Cold, true),
        c("EXPLAIN/**/ANALYZE/**/VERBOSE INSERT INTO m0 VALUES (2)", "lex.explain_analyze_verbose.insert", true, Pre::Cold, true),
        c("EXPLAIN VERBOSE COPY (SELECT 1 AS x) TO 's3://cardinalsin-data/default/evil9.parquet' STORED AS PARQUET", "lex.explain_verbose.copy", false, Pre::Cold, true),
        c("SET datafusion.catalog.default_schema = 'scratch'", "set.default_schema", true, Pre::WarmAll, true),
        c("set /* c */ datafusion.catalog.default_schema = 'scratch';", "lex.set.default_schema", true, Pre::Cold, true),
        c("-- lead\nDROP TABLE metrics;", "lex.leading_linecomment.drop", true, Pre::Cold, true),
        c("SELECT * FROM metrics WHERE host IN (SELECT host FROM metrics)", "readonly.subquery", false, Pre::Cold, true),
    ]
}

// --------------------------------------------------------------------- main ----
pub fn main(args: Args) {
    if std::env::var("SQLGATE_LOUD").is_err() {
        csv_common::quiet_panics();
    }
    let rt = tokio::runtime::Builder::new_current_thread().enable_all().build().unwrap();
    let mut model = Model::spawn(&args.model);
    let mut report = Report::new("C11");

    if let Some(path) = &args.replay {
        let txt = std::fs::read_to_string(path).expect("replay file");
        let v: Value = serde_json::from_str(&txt).expect("replay json");
        let v = if v.get("sql").is_some() || v.get("promql").is_some() || v.get("flight_metadata_pattern").is_some() || v.get("inventory").is_some() { v } else { v["case"].clone() };
        if v.get("inventory").is_some() {
            let pbs = inventory_problems();
            println!("entry-point inventory problems: {:#?}", pbs);
            std::process::exit(if pbs.is_empty() { 0 } else { 1 });
        }
        if let Some(pat) = v.get("flight_metadata_pattern").and_then(|p| p.as_str()) {
            let (status, oracle) = rt.block_on(run_meta(pat));
            println!("flight sql metadata handlers: {}\noracle failures: {:?}", status, oracle);
            std::process::exit(if oracle.is_empty() { 0 } else { 1 });
        }
        let mut failed = false;
        if v.get("promql").is_some() {
            let (status, oracle) = rt.block_on(run_prom(v["endpoint"].as_str().unwrap_or("GET /api/v1/query"), v["promql"].as_str().unwrap_or("")));
            println!("prometheus {} status={} oracle failures: {:?}", v["endpoint"], status, oracle);
            std::process::exit(if oracle.is_empty() { 0 } else { 1 });
        }
        let case = Case::from_json(&v);
        println!("case : {}", case.to_json());
        let raw = rt.block_on(run_raw(&case));
        let mraw = raw.model_line.as_ref().map(|l| model.ask(l)).unwrap_or_else(|| "-".into());
        println!("raw  : impl {} ({}) | model {} [{}]", raw.impl_out, raw.detail, mraw, raw.model_line.clone().unwrap_or_default());
        for (entry, miface) in IFACES {
            if let Some(only) = v.get("entry").and_then(|e| e.as_str()) {
                if only != *entry {
                    continue;
                }
            }
            let g = rt.block_on(run_gate(&case, entry, miface));
            let m = g.model_line.as_ref().map(|l| model.ask(l)).unwrap_or_else(|| "-".into());
            println!("{:45} impl {} ({:?}) | model {} | oracle {:?}", entry, g.impl_out, g.verdict, m, g.oracle);
            if !g.oracle.is_empty() || (g.model_line.is_some() && !model.is_null() && m != g.impl_out) {
                failed = true;
            }
        }
        std::process::exit(if failed { 1 } else { 0 });
    }

    // ---- entry-point inventory: every handler / route / function that takes statement text must be known
    for pb in inventory_problems() {
        report.disagreement(json!({
            "correspondence": "entry points present in the source vs entry points this harness drives",
            "case": {"inventory": pb}, "impl": pb, "model": "every entry point that takes statement text is driven",
            "shrunk": {"inventory": pb}, "oracle_failed": false,
        }));
        report.bump("inventory.unknown_entry_point");
    }

    let n_random = if args.thorough() { 1200 } else { 110 };
    let budget_secs: u64 = args.get("budget").and_then(|b| b.parse().ok()).unwrap_or(if args.thorough() { 2700 } else { 420 });
    let started = std::time::Instant::now();
    // a breaking change makes most cases fail: stop after a handful of distinct problem cases
    const MAX_PROBLEM_CASES: usize = 10;
    const MAX_ESCALATIONS: usize = 4;
    let mut problem_cases = 0usize;
    let mut escalations = 0usize;
    let mut rng = Rng::new(args.seed);
    let mut cases: Vec<(String, Case)> = corpus().into_iter().map(|c| ("corpus".to_string(), c)).collect();
    for i in 0..n_random {
        let mut r = rng.fork();
        cases.push(("random".to_string(), gen_case(&mut r, 100 + i as u64, &mut report)));
    }
    let mut esc_rng = rng.fork();
    let mut truncated = None;

    for (idx, (origin, case)) in cases.iter().enumerate() {
        if problem_cases >= MAX_PROBLEM_CASES {
            truncated = Some(format!("stopped after {} cases: {} cases with disagreements or oracle violations", idx, problem_cases));
            break;
        }
        if started.elapsed().as_secs() > budget_secs {
            truncated = Some(format!("stopped after {} of {} cases: time budget of {} s used up", idx, cases.len(), budget_secs));
            break;
        }
        if idx % 20 == 19 {
            report.write(&args.out); // incremental: an interrupted run still leaves a report
        }
        let mut case_has_problem = false;
        report.bump(&format!("origin.{}", origin));
        report.bump(&format!("pre.{}", case.pre.name()));
        // ---- engine semantics: plain ctx.sql + collect vs the model's `effects`
        let raw = match csv_common::catch(std::panic::AssertUnwindSafe(|| rt.block_on(run_raw(case)))) {
            Ok(r) => r,
            Err(msg) => RawRun { impl_out: format!("PANIC {}", msg), observed: BTreeSet::new(), model_line: None, detail: msg },
        };
        report.impl_runs += 1;
        let nontrivial = raw.model_line.is_some();
        let key = format!("{}|{}", case.pre.name(), case.sql);
        report.case(if nontrivial { Some(&key) } else { None });
        if let Some(line) = &raw.model_line {
            let m = model.ask(line);
            report.sample(json!({"sql": case.sql, "pre": case.pre.name(), "plan": line, "raw_impl": raw.impl_out, "raw_model": m}));
            if !model.is_null() {
                let predicted = parse_effects(&m);
                let ok = match &predicted {
                    Some(p) => {
                        if case.exact {
                            *p == raw.observed
                        } else {
                            raw.observed.is_subset(p)
                        }
                    }
                    None => false,
                };
                if !ok {
                    case_has_problem = true;
                    report.disagreement(json!({
                        "correspondence": "effects of a statement under plain ctx.sql+collect: DataFusion (observed) vs Model/SqlGate.v effects",
                        "case": case.to_json(), "impl": raw.impl_out, "model": m, "plan": line, "detail": raw.detail,
                        "shrunk": case.to_json(), "oracle_failed": false,
                    }));
                }
                if !raw.observed.is_empty() {
                    for c in &raw.observed {
                        report.bump(&format!("raw_effect.{}", c));
                    }
                } else {
                    report.bump("raw_effect.none");
                }
            }
        } else {
            report.bump("plan.unplannable_or_multi");
        }
        // ---- the gate: every interface
        for (entry, miface) in IFACES {
            let g = match csv_common::catch(std::panic::AssertUnwindSafe(|| rt.block_on(run_gate(case, entry, miface)))) {
                Ok(g) => g,
                Err(msg) => GateRun { diff: String::new(), verdict: Verdict::Failed("panic".into()), impl_out: format!("PANIC {}", msg), model_line: None, oracle: vec![] },
            };
            if g.impl_out.starts_with("PANIC") {
                report.bump("gate.panic");
                if report.notes.len() < 20 {
                    report.notes.push(format!("{} panicked on {:?}: {}", entry, case.sql, g.impl_out.chars().take(300).collect::<String>()));
                }
                continue;
            }
            report.impl_runs += 1;
            report.bump(&format!("iface.{}", entry));
            match &g.verdict {
                Verdict::Served => report.bump("gate.served"),
                Verdict::Refused(_) => report.bump("gate.refused"),
                Verdict::Failed(_) => report.bump("gate.failed_on_its_own"),
            }
            let case_json = json!({"sql": case.sql, "kind": case.kind, "must_reject": case.must_reject, "pre": case.pre.name(), "exact": case.exact, "entry": entry});
            let mut disagrees = false;
            let mut let_through = false;
            if let Some(line) = &g.model_line {
                let (differs, m) = model.differs(line, &g.impl_out);
                if differs {
                    disagrees = true;
                    let_through = g.impl_out.starts_with("accepted=1") && m.starts_with("accepted=0");
                    report.disagreement(json!({
                        "correspondence": format!("{} vs Model/SqlGate.v submit {}", entry, miface),
                        "case": case_json, "impl": g.impl_out, "model": m, "plan": line,
                        // the oracle's verdict on this very statement
                        "oracle": g.oracle, "state_change_observed": g.diff, "verdict": format!("{:?}", g.verdict),
                        "shrunk": case_json, "oracle_failed": !g.oracle.is_empty(),
                    }));
                }
            } else if g.verdict == Verdict::Served || !g.impl_out.ends_with("effects=") {
                // no plan exists for the text (parse / planning error): it cannot be served
                disagrees = true;
                let_through = g.verdict == Verdict::Served;
                report.disagreement(json!({
                    "correspondence": format!("{}: text without a plan must be rejected without effect", entry),
                    "case": case_json, "impl": g.impl_out, "model": "accepted=0 effects=",
                    "oracle": g.oracle, "state_change_observed": g.diff, "verdict": format!("{:?}", g.verdict),
                    "shrunk": case_json, "oracle_failed": !g.oracle.is_empty(),
                }));
            }
            for o in &g.oracle {
                report.oracle_violation("", o, case_json.clone());
            }
            if disagrees || !g.oracle.is_empty() {
                case_has_problem = true;
            }
            // the tie broke without a visible effect: look for a statement of the same shape that writes
            if disagrees && let_through && g.oracle.is_empty() && escalations < MAX_ESCALATIONS {
                escalations += 1;
                report.bump("escalation.searches");
                if let Some((c2, oracle)) = escalate(&rt, case, entry, miface, &mut esc_rng, 60) {
                    report.bump("escalation.found_failing_input");
                    for o in &oracle {
                        report.oracle_violation("", o, json!({"sql": c2.sql, "kind": c2.kind, "must_reject": c2.must_reject, "pre": c2.pre.name(), "exact": c2.exact, "entry": entry, "found_from": case.sql}));
                    }
                }
            }
        }
        if case_has_problem {
            problem_cases += 1;
        }
    }

    // ---- Prometheus routes: hostile selector text, oracle only
    let n_prom = if args.thorough() { 300 } else { 48 };
    for i in 0..n_prom {
        if problem_cases >= MAX_PROBLEM_CASES || started.elapsed().as_secs() > budget_secs {
            break;
        }
        let mut r = rng.fork();
        let text = hostile_promql(&mut r);
        let ep = PROM_ENDPOINTS[i % PROM_ENDPOINTS.len()];
        let (status, oracle) = match csv_common::catch(std::panic::AssertUnwindSafe(|| rt.block_on(run_prom(ep, &text)))) {
            Ok(x) => x,
            Err(msg) => (format!("panic:{}", msg.chars().take(40).collect::<String>()), vec![]),
        };
        report.impl_runs += 1;
        report.case(Some(&format!("prom|{}|{}", ep, text)));
        report.bump(&format!("prometheus.{}.{}", ep, status));
        for o in &oracle {
            report.oracle_violation("", o, json!({"promql": text, "endpoint": ep}));
        }
        if !oracle.is_empty() {
            problem_cases += 1;
        }
    }

    // ---- Flight SQL handlers without statement text (metadata, actions, unsupported commands)
    let n_meta = if args.thorough() { 40 } else { 6 };
    for i in 0..n_meta {
        if problem_cases >= MAX_PROBLEM_CASES || started.elapsed().as_secs() > budget_secs {
            break;
        }
        let mut r = rng.fork();
        let pattern = if i == 0 { "%".to_string() } else { hostile_promql(&mut r) };
        let (status, oracle) = match csv_common::catch(std::panic::AssertUnwindSafe(|| rt.block_on(run_meta(&pattern)))) {
            Ok(x) => x,
            Err(msg) => (format!("panic:{}", msg.chars().take(60).collect::<String>()), vec![]),
        };
        report.impl_runs += 1;
        report.case(Some(&format!("meta|{}", pattern)));
        report.bump("flight_metadata.runs");
        if i == 0 {
            report.notes.push(format!("flight sql metadata/action handlers (pattern %): {}", status));
        }
        for o in &oracle {
            report.oracle_violation("", o, json!({"flight_metadata_pattern": pattern}));
        }
        if !oracle.is_empty() {
            problem_cases += 1;
        }
    }

    if let Some(t) = truncated {
        report.notes.push(t);
    }
    report.notes.push(format!("model calls: {}", model.calls));
    report.notes.push("driven: QueryNode::query (plain / adaptive-index), QueryNode::query_stream, FlightSqlQueryService {do_get, get_flight_info, create_prepared_statement}, QueryEngine::execute_stream; the HTTP router of build_http_router on a loopback port (POST and GET /api/v1/sql, the websocket route /api/v1/stream, all Prometheus routes); the Flight SQL gRPC service of run_query_grpc_server on a loopback port through FlightSqlServiceClient (execute, execute_update, prepare+execute, prepare+execute_update, prepare+bind+execute, get_schema, poll_flight_info, statements inside a transaction, and every metadata / action / unsupported-command handler); the entry-point inventory is compared with the source on every run".into());
    report.write(&args.out);
}
