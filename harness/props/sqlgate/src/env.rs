//! Shared test environment: an in-memory object store holding parquet chunks
//! registered in an object-store catalog, and real query nodes over it.
use arrow_array::{Float64Array, Int64Array, RecordBatch, StringArray, UInt64Array};
use arrow_schema::{DataType, Field, Schema};
use cardinalsin::ingester::ChunkMetadata;
use cardinalsin::metadata::{MetadataClient, ObjectStoreMetadataClient, ObjectStoreMetadataConfig};
use cardinalsin::query::{QueryConfig, QueryNode};
use cardinalsin::StorageConfig;
use futures::TryStreamExt;
use object_store::memory::InMemory;
use object_store::path::Path;
use object_store::{GetOptions, GetResult, ListResult, MultipartUpload, ObjectMeta, ObjectStore, PutMultipartOpts, PutOptions, PutPayload, PutResult};
use std::collections::HashSet;
use std::sync::Mutex;
use std::sync::Arc;

pub const BUCKET: &str = "cardinalsin-data";
pub const CATALOG_PATH: &str = "metadata/catalog.json";

/// A chunk file: `rows` rows spread over [min_ts, max_ts]; every row carries the
/// chunk id in `value_i64`, so a result shows which chunks contributed to it.
/// Only columns of the default metrics schema are used (a node that has not
/// bound any chunk yet plans against that schema).
#[derive(Clone, Debug)]
pub struct ChunkSpec {
    pub id: u32,
    pub min_ts: i64,
    pub max_ts: i64,
    pub rows: usize,
    /// extra label column (changes the table schema when present)
    pub extra_label: bool,
}

pub fn chunk_path(id: u32) -> String {
    format!("default/data/year=2024/month=01/day=01/hour=00/chunk_{}.parquet", id)
}

pub fn chunk_id_of_path(p: &str) -> Option<u32> {
    let f = p.rsplit('/').next()?;
    f.strip_prefix("chunk_")?.strip_suffix(".parquet")?.parse().ok()
}

fn chunk_batch(spec: &ChunkSpec) -> RecordBatch {
    let n = spec.rows.max(1);
    let mut ts = Vec::with_capacity(n);
    for i in 0..n {
        let t = if n == 1 { spec.min_ts } else { spec.min_ts + ((spec.max_ts - spec.min_ts) as i128 * i as i128 / (n as i128 - 1)) as i64 };
        ts.push(t);
    }
    let names: Vec<String> = (0..n).map(|i| if i % 2 == 0 { "cpu".to_string() } else { "mem".to_string() }).collect();
    let hosts: Vec<String> = (0..n).map(|i| format!("h{}", i % 3)).collect();
    let vals: Vec<f64> = (0..n).map(|i| (spec.id as f64) * 1000.0 + i as f64).collect();
    let ids: Vec<i64> = (0..n).map(|_| spec.id as i64).collect();
    let mut fields = vec![
        // integer nanoseconds, as in the repository's own end-to-end tests (integer time literals compare with it)
        Field::new("timestamp", DataType::Int64, false),
        Field::new("metric_name", DataType::Utf8, false),
        Field::new("value_f64", DataType::Float64, true),
        Field::new("value_i64", DataType::Int64, true),
        Field::new("value_u64", DataType::UInt64, true),
        Field::new("host", DataType::Utf8, true),
    ];
    let mut cols: Vec<Arc<dyn arrow_array::Array>> = vec![
        Arc::new(Int64Array::from(ts)),
        Arc::new(StringArray::from(names)),
        Arc::new(Float64Array::from(vals)),
        // value_i64 carries the chunk id, so a result shows which chunks contributed to it
        Arc::new(Int64Array::from(ids)),
        Arc::new(UInt64Array::from(vec![None::<u64>; n])),
        Arc::new(StringArray::from(hosts)),
    ];
    if spec.extra_label {
        fields.push(Field::new("zone", DataType::Utf8, true));
        cols.push(Arc::new(StringArray::from((0..n).map(|i| format!("z{}", i % 2)).collect::<Vec<_>>())));
    }
    RecordBatch::try_new(Arc::new(Schema::new(fields)), cols).unwrap()
}

pub fn parquet_bytes(batch: &RecordBatch) -> Vec<u8> {
    let mut buf = Vec::new();
    {
        let mut w = parquet::arrow::ArrowWriter::try_new(&mut buf, batch.schema(), None).unwrap();
        w.write(batch).unwrap();
        w.close().unwrap();
    }
    buf
}

pub struct World {
    pub store: Arc<InMemory>,
    /// what the nodes read through: transparent unless read faults are configured
    pub flaky: Arc<FlakyStore>,
    pub metadata: Arc<dyn MetadataClient>,
    pub storage: StorageConfig,
    pub chunks: Vec<ChunkSpec>,
}

pub fn meta_config() -> ObjectStoreMetadataConfig {
    ObjectStoreMetadataConfig {
        bucket: BUCKET.into(),
        metadata_prefix: "metadata/".into(),
        enable_cache: true,
        allow_unsafe_overwrite: false,
    }
}

impl World {
    pub async fn build(chunks: &[ChunkSpec]) -> World {
        let store = Arc::new(InMemory::new());
        let dynstore: Arc<dyn ObjectStore> = store.clone();
        let metadata: Arc<dyn MetadataClient> = Arc::new(ObjectStoreMetadataClient::new(dynstore.clone(), meta_config()));
        for c in chunks {
            let bytes = parquet_bytes(&chunk_batch(c));
            let size = bytes.len() as u64;
            let p = chunk_path(c.id);
            store.put(&Path::from(p.as_str()), PutPayload::from(bytes)).await.unwrap();
            let m = ChunkMetadata { path: p.clone(), min_timestamp: c.min_ts, max_timestamp: c.max_ts, row_count: c.rows.max(1) as u64, size_bytes: size };
            metadata.register_chunk(&p, &m).await.unwrap();
        }
        let flaky = Arc::new(FlakyStore { inner: store.clone(), failing: Mutex::new(HashSet::new()), injected: Mutex::new(0) });
        World { store, flaky, metadata, storage: StorageConfig::default(), chunks: chunks.to_vec() }
    }

    pub fn dynstore(&self) -> Arc<dyn ObjectStore> {
        self.flaky.clone()
    }

    pub async fn node(&self) -> QueryNode {
        QueryNode::new(QueryConfig::default(), self.dynstore(), self.metadata.clone(), self.storage.clone()).await.unwrap()
    }

    /// full listing: (path, size, e_tag), sorted by path
    pub async fn listing(&self) -> Vec<(String, u64, String)> {
        let mut v: Vec<(String, u64, String)> = self
            .store
            .list(None)
            .try_collect::<Vec<_>>()
            .await
            .unwrap()
            .into_iter()
            .map(|m| (m.location.to_string(), m.size as u64, m.e_tag.unwrap_or_default()))
            .collect();
        v.sort();
        v
    }
}

tokio::task_local! {
    /// id of the query the current task runs (set by the C10 driver)
    pub static CURRENT_Q: usize;
}

/// Object store wrapper with read faults scoped to one query: reads (GET, ranged GET, HEAD) of a
/// configured path fail when they are issued from the task of the configured query.
pub struct FlakyStore {
    pub inner: Arc<InMemory>,
    pub failing: Mutex<HashSet<(usize, String)>>,
    pub injected: Mutex<u64>,
}

impl FlakyStore {
    pub fn fail_reads(&self, query: usize, path: &str) {
        self.failing.lock().unwrap().insert((query, path.to_string()));
    }
    pub fn injected(&self) -> u64 {
        *self.injected.lock().unwrap()
    }
}

impl std::fmt::Debug for FlakyStore {
    fn fmt(&self, f: &mut std::fmt::Formatter<'_>) -> std::fmt::Result {
        write!(f, "FlakyStore")
    }
}
impl std::fmt::Display for FlakyStore {
    fn fmt(&self, f: &mut std::fmt::Formatter<'_>) -> std::fmt::Result {
        write!(f, "FlakyStore")
    }
}

#[async_trait::async_trait]
impl ObjectStore for FlakyStore {
    async fn put_opts(&self, location: &Path, payload: PutPayload, opts: PutOptions) -> object_store::Result<PutResult> {
        self.inner.put_opts(location, payload, opts).await
    }
    async fn put_multipart_opts(&self, location: &Path, opts: PutMultipartOpts) -> object_store::Result<Box<dyn MultipartUpload>> {
        self.inner.put_multipart_opts(location, opts).await
    }
    async fn get_opts(&self, location: &Path, options: GetOptions) -> object_store::Result<GetResult> {
        if let Ok(q) = CURRENT_Q.try_with(|q| *q) {
            if self.failing.lock().unwrap().contains(&(q, location.to_string())) {
                *self.injected.lock().unwrap() += 1;
                return Err(object_store::Error::Generic { store: "FlakyStore", source: format!("injected read error on {}", location).into() });
            }
        }
        self.inner.get_opts(location, options).await
    }
    async fn delete(&self, location: &Path) -> object_store::Result<()> {
        self.inner.delete(location).await
    }
    fn list(&self, prefix: Option<&Path>) -> futures::stream::BoxStream<'_, object_store::Result<ObjectMeta>> {
        self.inner.list(prefix)
    }
    async fn list_with_delimiter(&self, prefix: Option<&Path>) -> object_store::Result<ListResult> {
        self.inner.list_with_delimiter(prefix).await
    }
    async fn copy(&self, from: &Path, to: &Path) -> object_store::Result<()> {
        self.inner.copy(from, to).await
    }
    async fn copy_if_not_exists(&self, from: &Path, to: &Path) -> object_store::Result<()> {
        self.inner.copy_if_not_exists(from, to).await
    }
}
