//! Shared test environment: an in-memory object store holding parquet chunks
//! registered in an object-store catalog, and real query nodes over it.
use arrow_array::{Float64Array, Int64Array, RecordBatch, StringArray, UInt64Array};
use arrow_schema::{DataType, Field, Schema};
use cardinalsin::ingester::ChunkMetadata;
use cardinalsin::metadata::{MetadataClient, ObjectStoreMetadataClient, ObjectStoreMetadataConfig};
use cardinalsin::query::{QueryConfig, QueryNode};
use cardinalsin::StorageConfig;
use futures::TryStreamExt;
use object_store::memory::InMemory;
use object_store::path::Path;
use object_store::{ObjectStore, PutPayload};
use std::sync::Arc;

pub const BUCKET: &str = "cardinalsin-data";
pub const CATALOG_PATH: &str = "metadata/catalog.json";

/// A chunk file: `rows` rows spread over [min_ts, max_ts]; every row carries the
/// chunk id in `value_i64`, so a result shows which chunks contributed to it.
/// Only columns of the default metrics schema are used (a node that has not
/// bound any chunk yet plans against that schema).
#[derive(Clone, Debug)]
pub struct ChunkSpec {
    pub id: u32,
    pub min_ts: i64,
    pub max_ts: i64,
    pub rows: usize,
    /// extra label column (changes the table schema when present)
    pub extra_label: bool,
}

pub fn chunk_path(id: u32) -> String {
    format!("default/data/year=2024/month=01/day=01/hour=00/chunk_{}.parquet", id)
}

pub fn chunk_id_of_path(p: &str) -> Option<u32> {
    let f = p.rsplit('/').next()?;
    f.strip_prefix("chunk_")?.strip_suffix(".parquet")?.parse().ok()
}

fn chunk_batch(spec: &ChunkSpec) -> RecordBatch {
    let n = spec.rows.max(1);
    let mut ts = Vec::with_capacity(n);
    for i in 0..n {
        let t = if n == 1 { spec.min_ts } else { spec.min_ts + ((spec.max_ts - spec.min_ts) as i128 * i as i128 / (n as i128 - 1)) as i64 };
        ts.push(t);
    }
    let names: Vec<String> = (0..n).map(|i| if i % 2 == 0 { "cpu".to_string() } else { "mem".to_string() }).collect();
    let hosts: Vec<String> = (0..n).map(|i| format!("h{}", i % 3)).collect();
    let vals: Vec<f64> = (0..n).map(|i| (spec.id as f64) * 1000.0 + i as f64).collect();
    let ids: Vec<i64> = (0..n).map(|_| spec.id as i64).collect();
    let mut fields = vec![
        // integer nanoseconds, as in the repository's own end-to-end tests (integer time literals compare with it)
        Field::new("timestamp", DataType::Int64, false),
        Field::new("metric_name", DataType::Utf8, false),
        Field::new("value_f64", DataType::Float64, true),
        Field::new("value_i64", DataType::Int64, true),
        Field::new("value_u64", DataType::UInt64, true),
        Field::new("host", DataType::Utf8, true),
    ];
    let mut cols: Vec<Arc<dyn arrow_array::Array>> = vec![
        Arc::new(Int64Array::from(ts)),
        Arc::new(StringArray::from(names)),
        Arc::new(Float64Array::from(vals)),
        // value_i64 carries the chunk id, so a result shows which chunks contributed to it
        Arc::new(Int64Array::from(ids)),
        Arc::new(UInt64Array::from(vec![None::<u64>; n])),
        Arc::new(StringArray::from(hosts)),
    ];
    if spec.extra_label {
        fields.push(Field::new("zone", DataType::Utf8, true));
        cols.push(Arc::new(StringArray::from((0..n).map(|i| format!("z{}", i % 2)).collect::<Vec<_>>())));
    }
    RecordBatch::try_new(Arc::new(Schema::new(fields)), cols).unwrap()
}

pub fn parquet_bytes(batch: &RecordBatch) -> Vec<u8> {
    let mut buf = Vec::new();
    {
        let mut w = parquet::arrow::ArrowWriter::try_new(&mut buf, batch.schema(), None).unwrap();
        w.write(batch).unwrap();
        w.close().unwrap();
    }
    buf
}

pub struct World {
    pub store: Arc<InMemory>,
    pub metadata: Arc<dyn MetadataClient>,
    pub storage: StorageConfig,
    pub chunks: Vec<ChunkSpec>,
}

pub fn meta_config() -> ObjectStoreMetadataConfig {
    ObjectStoreMetadataConfig {
        bucket: BUCKET.into(),
        metadata_prefix: "metadata/".into(),
        enable_cache: true,
        allow_unsafe_overwrite: false,
    }
}

impl World {
    pub async fn build(chunks: &[ChunkSpec]) -> World {
        let store = Arc::new(InMemory::new());
        let dynstore: Arc<dyn ObjectStore> = store.clone();
        let metadata: Arc<dyn MetadataClient> = Arc::new(ObjectStoreMetadataClient::new(dynstore.clone(), meta_config()));
        for c in chunks {
            let bytes = parquet_bytes(&chunk_batch(c));
            let size = bytes.len() as u64;
            let p = chunk_path(c.id);
            store.put(&Path::from(p.as_str()), PutPayload::from(bytes)).await.unwrap();
            let m = ChunkMetadata { path: p.clone(), min_timestamp: c.min_ts, max_timestamp: c.max_ts, row_count: c.rows.max(1) as u64, size_bytes: size };
            metadata.register_chunk(&p, &m).await.unwrap();
        }
        World { store, metadata, storage: StorageConfig::default(), chunks: chunks.to_vec() }
    }

    pub fn dynstore(&self) -> Arc<dyn ObjectStore> {
        self.store.clone()
    }

    pub async fn node(&self) -> QueryNode {
        QueryNode::new(QueryConfig::default(), self.dynstore(), self.metadata.clone(), self.storage.clone()).await.unwrap()
    }

    /// full listing: (path, size, e_tag), sorted by path
    pub async fn listing(&self) -> Vec<(String, u64, String)> {
        let mut v: Vec<(String, u64, String)> = self
            .store
            .list(None)
            .try_collect::<Vec<_>>()
            .await
            .unwrap()
            .into_iter()
            .map(|m| (m.location.to_string(), m.size as u64, m.e_tag.unwrap_or_default()))
            .collect();
        v.sort();
        v
    }
}
