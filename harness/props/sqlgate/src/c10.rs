//! C10 — concurrent queries do not affect each other's results.
//!
//! A real QueryNode runs on a current-thread runtime with paused time.  Every
//! query is a task; the verif_hooks pause point "query.after_register" (between
//! table registration and statement planning in QueryEngine::with_metrics_table)
//! is the one place where the harness holds a query.  A schedule is a sequence
//! of commands `S<i>` (start query i: it runs until it reaches the pause point
//! or has to wait for the registration lock) and `R<i>` (resume a paused query:
//! it runs to completion; queries waiting for the lock move on in arrival
//! order).  All interleavings of the commands of 2 (thorough: 3) queries with
//! different selected chunk sets are realised.
//!
//! Oracle: each query's result under the schedule = its result when run alone
//! on a fresh node over the same data.  Correspondence: the chunks that
//! contributed rows to each result = the model's `visible` set for the same
//! command sequence (Model/QueryBind.v, protocol of the current code).
use crate::env::*;
use cardinalsin::query::QueryNode;
use csv_common::{Args, Model, Report, Rng};
use serde_json::{json, Value};
use std::collections::{BTreeMap, VecDeque};
use std::sync::Arc;
use tokio::sync::{mpsc, oneshot};

const GATE: &str = "query.after_register";

#[derive(Clone, Debug, PartialEq)]
enum Kind {
    /// QueryNode::query
    Plain,
    /// QueryNode::query_for_tenant with another tenant id
    Tenant,
    /// QueryNode::query_stream: the historical phase of a streaming subscription
    Stream,
}

impl Kind {
    fn name(&self) -> &'static str {
        match self {
            Kind::Plain => "query",
            Kind::Tenant => "tenant",
            Kind::Stream => "stream",
        }
    }
    fn parse(s: &str) -> Kind {
        match s {
            "tenant" => Kind::Tenant,
            "stream" => Kind::Stream,
            _ => Kind::Plain,
        }
    }
}

/// What happens to a query besides being scheduled.
#[derive(Clone, Debug, PartialEq)]
enum Fate {
    Normal,
    /// reads of this chunk file issued by the query's own task fail (this hits the schema
    /// inference of its table registration)
    ReadFault(u32),
    /// the query's future is dropped by a `C<i>` command instead of being resumed
    Cancel,
}

#[derive(Clone, Debug)]
struct Q {
    fate: Fate,
    kind: Kind,
    lo: i64,
    hi: i64,
    /// extra predicate text appended to the WHERE clause ("" = none)
    pred: String,
}

impl Q {
    fn sql(&self) -> String {
        format!(
            "SELECT value_i64 AS chunk, count(*) AS n FROM metrics WHERE timestamp >= {} AND timestamp <= {}{} GROUP BY value_i64 ORDER BY value_i64",
            self.lo, self.hi, self.pred
        )
    }
}

#[derive(Clone, Debug)]
struct Dataset {
    chunks: Vec<ChunkSpec>,
    queries: Vec<Q>,
    /// the node has an adaptive-index controller (queries go through collect_with_indexes)
    indexed: bool,
}

impl Dataset {
    /// chunk ids a query's window selects: chunks whose [min,max] meets [lo,hi]
    fn selected(&self, q: &Q) -> Vec<u32> {
        let mut v: Vec<u32> = self.chunks.iter().filter(|c| c.min_ts <= q.hi && c.max_ts >= q.lo).map(|c| c.id).collect();
        v.sort();
        v
    }
    fn sets_text(&self) -> String {
        self.queries
            .iter()
            .enumerate()
            .map(|(i, q)| format!("{}:{}", i + 1, self.selected(q).iter().map(|c| c.to_string()).collect::<Vec<_>>().join(",")))
            .collect::<Vec<_>>()
            .join(";")
    }
    fn faults_text(&self) -> String {
        let f: Vec<String> = self.queries.iter().enumerate().filter(|(_, q)| matches!(q.fate, Fate::ReadFault(_))).map(|(i, _)| (i + 1).to_string()).collect();
        if f.is_empty() { "-".to_string() } else { f.join(",") }
    }
    fn to_json(&self) -> Value {
        json!({
            "chunks": self.chunks.iter().map(|c| json!({"id": c.id, "min": c.min_ts, "max": c.max_ts, "rows": c.rows, "extra": c.extra_label})).collect::<Vec<_>>(),
            "queries": self.queries.iter().map(|q| json!({"kind": q.kind.name(), "lo": q.lo, "hi": q.hi, "pred": q.pred,
                "fate": match &q.fate { Fate::Normal => json!("normal"), Fate::Cancel => json!("cancel"), Fate::ReadFault(c) => json!({"read_fault_chunk": c}) }})).collect::<Vec<_>>(),
            "indexed": self.indexed,
        })
    }
    fn from_json(v: &Value) -> Dataset {
        Dataset {
            indexed: v["indexed"].as_bool().unwrap_or(false),
            chunks: v["chunks"]
                .as_array()
                .map(|a| {
                    a.iter()
                        .map(|c| ChunkSpec {
                            id: c["id"].as_u64().unwrap_or(1) as u32,
                            min_ts: c["min"].as_i64().unwrap_or(0),
                            max_ts: c["max"].as_i64().unwrap_or(0),
                            rows: c["rows"].as_u64().unwrap_or(1) as usize,
                            extra_label: c["extra"].as_bool().unwrap_or(false),
                        })
                        .collect()
                })
                .unwrap_or_default(),
            queries: v["queries"]
                .as_array()
                .map(|a| {
                    a.iter()
                        .map(|q| Q {
                            fate: if q["fate"] == "cancel" {
                                Fate::Cancel
                            } else if let Some(c) = q["fate"]["read_fault_chunk"].as_u64() {
                                Fate::ReadFault(c as u32)
                            } else {
                                Fate::Normal
                            },
                            kind: Kind::parse(q["kind"].as_str().unwrap_or("query")),
                            lo: q["lo"].as_i64().unwrap_or(0),
                            hi: q["hi"].as_i64().unwrap_or(0),
                            pred: q["pred"].as_str().unwrap_or("").to_string(),
                        })
                        .collect()
                })
                .unwrap_or_default(),
        }
    }
}

// ---------------------------------------------------------------- running ----
fn canon(batches: &[arrow_array::RecordBatch]) -> String {
    use arrow_array::cast::AsArray;
    use arrow_array::types::Int64Type;
    let mut rows: Vec<(i64, i64)> = Vec::new();
    for b in batches {
        if b.num_columns() < 2 {
            continue;
        }
        let c = b.column(0).as_primitive::<Int64Type>();
        let n = b.column(1).as_primitive::<Int64Type>();
        for r in 0..b.num_rows() {
            rows.push((c.value(r), n.value(r)));
        }
    }
    rows.sort();
    rows.iter().map(|(c, n)| format!("{}:{}", c, n)).collect::<Vec<_>>().join(",")
}

/// the chunk ids that contributed rows, in the model's output syntax
fn visible_of(result: &str) -> String {
    if result.starts_with("ERR") {
        return "ERR".to_string();
    }
    if result.is_empty() {
        return "{}".to_string();
    }
    result.split(',').map(|t| t.split(':').next().unwrap_or("").to_string()).collect::<Vec<_>>().join(",")
}

async fn run_query(node: Arc<QueryNode>, q: Q) -> String {
    let sql = q.sql();
    match q.kind {
        Kind::Plain => match node.query(&sql).await {
            Ok(b) => canon(&b),
            Err(e) => format!("ERR {}", e.to_string().lines().next().unwrap_or("")),
        },
        Kind::Tenant => match node.query_for_tenant(&sql, "tenant-b").await {
            Ok(b) => canon(&b),
            Err(e) => format!("ERR {}", e.to_string().lines().next().unwrap_or("")),
        },
        Kind::Stream => match node.query_stream(&sql).await {
            Ok(mut rx) => {
                // the broadcast sender is gone, so the stream ends after the historical phase
                let mut batches = Vec::new();
                let mut err = None;
                while let Some(item) = rx.recv().await {
                    match item {
                        Ok(b) => batches.push(b),
                        Err(e) => err = Some(e.to_string()),
                    }
                }
                match err {
                    Some(e) => format!("ERR {}", e.lines().next().unwrap_or("")),
                    None => canon(&batches),
                }
            }
            Err(e) => format!("ERR {}", e.to_string().lines().next().unwrap_or("")),
        },
    }
}

/// A node that has already served one query over all chunks, so `metrics` is bound to the
/// data's own schema when a schedule (or a solo run) starts.  (On a node that never bound
/// anything the placeholder table has the default schema, whose timestamp column is a
/// Timestamp; these data sets use integer nanoseconds like the repository's end-to-end
/// tests, and a query selecting no chunk would then fail with a type error before any
/// other query has run -- a difference that has nothing to do with concurrency.)
async fn make_node(world: &World, indexed: bool) -> Arc<QueryNode> {
    let mut node = world.node().await;
    if indexed {
        use cardinalsin::adaptive_index::{AdaptiveIndexConfig, AdaptiveIndexController};
        node = node.with_adaptive_indexing(Arc::new(AdaptiveIndexController::new(AdaptiveIndexConfig::default())));
    }
    let (btx, brx) = tokio::sync::broadcast::channel::<arrow_array::RecordBatch>(4);
    node.connect_broadcast(brx);
    drop(btx);
    cardinalsin::verif_hooks::clear_gate(GATE);
    node.query("SELECT count(*) FROM metrics WHERE timestamp >= 0 AND timestamp <= 1000000000").await.expect("warm-up query");
    Arc::new(node)
}

#[derive(Clone, Debug, PartialEq)]
enum Cmd {
    S(usize),
    R(usize),
    /// drop the query's future wherever it is
    C(usize),
}

fn cmds_text(cs: &[Cmd]) -> String {
    cs.iter().map(|c| match c { Cmd::S(i) => format!("S{}", i), Cmd::R(i) => format!("R{}", i), Cmd::C(i) => format!("C{}", i) }).collect::<Vec<_>>().join(",")
}

fn parse_cmds(s: &str) -> Vec<Cmd> {
    s.split(',')
        .filter(|t| t.len() >= 2)
        .map(|t| {
            let i: usize = t[1..].parse().unwrap_or(1);
            if t.starts_with('S') { Cmd::S(i) } else if t.starts_with('C') { Cmd::C(i) } else { Cmd::R(i) }
        })
        .collect()
}

enum Ev {
    Arrived(oneshot::Sender<()>),
    Done(usize, String),
    Quiet,
}

struct Outcome {
    /// number of read errors the flaky store injected
    injected: u64,
    /// per query (1-based ids): result text, or "-" when it did not complete
    results: Vec<String>,
    /// what the driver saw, for the replay output
    trace: Vec<String>,
    consistent: bool,
}

/// Runs the command sequence on a fresh node over a fresh world.
async fn run_schedule(ds: &Dataset, cmds: &[Cmd]) -> Outcome {
    let world = World::build(&ds.chunks).await;
    let node = make_node(&world, ds.indexed).await;
    let mut gate = cardinalsin::verif_hooks::register_gate(GATE);
    let (done_tx, mut done_rx) = mpsc::unbounded_channel::<(usize, String)>();
    let n = ds.queries.len();
    let mut tokens: BTreeMap<usize, oneshot::Sender<()>> = BTreeMap::new();
    let mut waiting: VecDeque<usize> = VecDeque::new();
    let mut results: Vec<Option<String>> = vec![None; n];
    let mut started = vec![false; n];
    let mut cancelled = vec![false; n];
    let mut trace = Vec::new();
    let mut consistent = true;
    let mut handles: BTreeMap<usize, tokio::task::JoinHandle<()>> = BTreeMap::new();
    for (i, q) in ds.queries.iter().enumerate() {
        if let Fate::ReadFault(c) = q.fate {
            world.flaky.fail_reads(i + 1, &chunk_path(c));
        }
    }

    // full command list = the schedule, then a drain that resumes whatever is still paused
    let mut all: Vec<Cmd> = cmds.to_vec();
    for _ in 0..n {
        for i in 1..=n {
            all.push(Cmd::R(i));
        }
    }

    for c in &all {
        match c {
            Cmd::S(i) => {
                if *i == 0 || *i > n || started[*i - 1] {
                    continue;
                }
                started[*i - 1] = true;
                let q = ds.queries[*i - 1].clone();
                let nd = node.clone();
                let tx = done_tx.clone();
                let id = *i;
                handles.insert(id, tokio::spawn(CURRENT_Q.scope(id, async move {
                    let r = run_query(nd, q).await;
                    let _ = tx.send((id, r));
                })));
                waiting.push_back(*i);
                trace.push(format!("S{}", i));
            }
            Cmd::R(i) => {
                match tokens.remove(i) {
                    Some(tok) => {
                        let _ = tok.send(());
                        trace.push(format!("R{}", i));
                    }
                    None => continue, // not at the pause point: the command does nothing
                }
            }
            Cmd::C(i) => {
                if *i == 0 || *i > n || !started[*i - 1] || results[*i - 1].is_some() {
                    continue;
                }
                // drop the future first (so that losing the resume token does not let it run on)
                if let Some(h) = handles.get(i) {
                    h.abort();
                }
                waiting.retain(|j| j != i);
                tokens.remove(i);
                cancelled[*i - 1] = true;
                trace.push(format!("C{}", i));
            }
        }
        // let the runtime run until nothing can move any more
        loop {
            let ev = tokio::select! {
                biased;
                // completions first: a query that fails while binding releases the lock before the next
                // waiter can arrive, so its completion must be seen before that arrival is attributed
                Some((i, r)) = done_rx.recv() => Ev::Done(i, r),
                Some((_, tok)) = gate.recv() => Ev::Arrived(tok),
                _ = tokio::time::sleep(std::time::Duration::from_secs(3600)) => Ev::Quiet,
            };
            match ev {
                Ev::Arrived(tok) => match waiting.pop_front() {
                    // the registration lock is a fair (FIFO) mutex: arrivals come in start order
                    Some(j) => {
                        trace.push(format!("arrived{}", j));
                        tokens.insert(j, tok);
                    }
                    None => {
                        consistent = false;
                        trace.push("arrival-without-waiter".into());
                    }
                },
                Ev::Done(j, r) => {
                    trace.push(format!("done{}", j));
                    if waiting.contains(&j) {
                        // finished without reaching the pause point: only a failed query may do that
                        waiting.retain(|x| *x != j);
                        if !r.starts_with("ERR") {
                            consistent = false;
                        }
                    }
                    if tokens.contains_key(&j) {
                        // a query finished although the driver holds its resume token
                        consistent = false;
                    }
                    results[j - 1] = Some(r);
                }
                Ev::Quiet => break,
            }
        }
    }
    cardinalsin::verif_hooks::clear_gate(GATE);
    for h in handles.values() {
        h.abort();
    }
    let injected = world.flaky.injected();
    Outcome { injected, results: results.into_iter().map(|r| r.unwrap_or_else(|| "-".to_string())).collect(), trace, consistent }
}

/// Each query alone, on its own fresh node over the same data.
async fn run_alone(ds: &Dataset) -> Vec<String> {
    cardinalsin::verif_hooks::clear_gate(GATE);
    let mut out = Vec::new();
    for q in &ds.queries {
        let world = World::build(&ds.chunks).await;
        let node = make_node(&world, ds.indexed).await;
        out.push(run_query(node, q.clone()).await);
    }
    out
}

// ------------------------------------------------------------- generators ----
fn all_interleavings(n: usize) -> Vec<Vec<Cmd>> {
    // all sequences containing S_i and R_i once each with S_i before R_i
    fn rec(n: usize, cur: &mut Vec<Cmd>, s: &mut Vec<bool>, r: &mut Vec<bool>, out: &mut Vec<Vec<Cmd>>) {
        if cur.len() == 2 * n {
            out.push(cur.clone());
            return;
        }
        for i in 0..n {
            if !s[i] {
                s[i] = true;
                cur.push(Cmd::S(i + 1));
                rec(n, cur, s, r, out);
                cur.pop();
                s[i] = false;
            } else if !r[i] {
                r[i] = true;
                cur.push(Cmd::R(i + 1));
                rec(n, cur, s, r, out);
                cur.pop();
                r[i] = false;
            }
        }
    }
    let mut out = Vec::new();
    rec(n, &mut Vec::new(), &mut vec![false; n], &mut vec![false; n], &mut out);
    out
}

/// a cancelled query gets `C<i>` where the plain interleaving has `R<i>`
fn adapt(cmds: &[Cmd], ds: &Dataset) -> Vec<Cmd> {
    cmds.iter()
        .map(|c| match c {
            Cmd::R(i) if ds.queries.get(*i - 1).map(|q| q.fate == Fate::Cancel).unwrap_or(false) => Cmd::C(*i),
            other => other.clone(),
        })
        .collect()
}

fn gen_dataset(rng: &mut Rng, nq: usize, force_retry: bool, report: &mut Report) -> Dataset {
    let nchunks = rng.range_usize(3, 5);
    let schema_mix = rng.chance(1, 5);
    let mut chunks = Vec::new();
    for k in 0..nchunks {
        let base = (k as i64) * 1000;
        chunks.push(ChunkSpec {
            id: (k + 1) as u32,
            min_ts: base,
            max_ts: base + rng.range_i64(100, 900),
            rows: rng.range_usize(2, 6),
            extra_label: schema_mix && k == nchunks - 1,
        });
    }
    if schema_mix {
        report.bump("dataset.schema_differs_between_chunks");
    }
    let indexed = rng.chance(1, 4);
    if indexed {
        report.bump("dataset.indexed_node");
    }
    let ds0 = Dataset { chunks: chunks.clone(), queries: vec![], indexed };
    let mut queries: Vec<Q> = Vec::new();
    let mut tries = 0;
    while queries.len() < nq && tries < 200 {
        tries += 1;
        let a = rng.range_usize(0, nchunks - 1);
        let b = rng.range_usize(a, nchunks - 1);
        let (lo, hi) = match rng.below(10) {
            // a window that selects nothing
            0 => (chunks[nchunks - 1].max_ts + 10, chunks[nchunks - 1].max_ts + 500),
            // end points on row timestamps of the first / last selected chunk
            1 | 2 => (chunks[a].max_ts, chunks[b].max_ts.max(chunks[a].max_ts)),
            3 => (chunks[a].min_ts, chunks[b].min_ts),
            _ => (chunks[a].min_ts, chunks[b].max_ts),
        };
        let kind = match rng.below(6) {
            0 | 1 => Kind::Stream,
            2 => Kind::Tenant,
            _ => Kind::Plain,
        };
        // extra predicates of different shapes that keep every row (each selected chunk must
        // contribute at least one row for its id to show in the result)
        let pred = match rng.below(6) {
            0 => " AND metric_name <> 'zzz'".to_string(),
            1 => " AND host <> 'h9'".to_string(),
            2 => " AND value_f64 >= 0".to_string(),
            _ => String::new(),
        };
        let q = Q { fate: Fate::Normal, kind, lo, hi, pred };
        // the property speaks about queries whose selected chunk sets differ
        let sel = ds0.selected(&q);
        if queries.iter().any(|p| ds0.selected(p) == sel) {
            continue;
        }
        queries.push(q);
    }
    while queries.len() < nq {
        // fall back: single-chunk windows
        let k = queries.len() % nchunks;
        queries.push(Q { fate: Fate::Normal, kind: Kind::Plain, lo: chunks[k].min_ts, hi: chunks[k].min_ts, pred: String::new() });
    }
    // failure histories: one query whose binding fails (read error on one of its own chunk files),
    // optionally followed by a retry of the same query; or one query that is cancelled
    match if force_retry { 0 } else { rng.below(10) } {
        0..=3 => {
            if let Some(k) = (0..queries.len()).find(|k| !ds0.selected(&queries[*k]).is_empty()) {
                let sel = ds0.selected(&queries[k]);
                queries[k].fate = Fate::ReadFault(*rng.pick(&sel));
                report.bump("history.failed_binding");
                if queries.len() >= 3 && (force_retry || rng.chance(2, 3)) {
                    // the retry: same statement, no fault (its chunk set equals the failed query's on purpose)
                    let r = (k + 1) % queries.len();
                    let mut retry = queries[k].clone();
                    retry.fate = Fate::Normal;
                    queries[r] = retry;
                    report.bump("history.retry_of_failed_query");
                }
            }
        }
        4 | 5 => {
            let k = rng.below(queries.len() as u64) as usize;
            queries[k].fate = Fate::Cancel;
            report.bump("history.cancelled_query");
        }
        _ => {}
    }
    for q in &queries {
        report.bump(&format!("query.kind.{}", q.kind.name()));
        if ds0.selected(q).is_empty() {
            report.bump("query.selects_nothing");
        }
    }
    Dataset { chunks, queries, indexed }
}

fn corpus() -> Vec<(Dataset, Vec<Cmd>)> {
    // the witness of C10_refuted_before_fix: A selects {1,2}, B selects {2,3};
    // Reg A . Reg B . Plan A  (S1,S2,R1,R2)
    let chunks = vec![
        ChunkSpec { id: 1, min_ts: 0, max_ts: 100, rows: 4, extra_label: false },
        ChunkSpec { id: 2, min_ts: 1000, max_ts: 1100, rows: 5, extra_label: false },
        ChunkSpec { id: 3, min_ts: 2000, max_ts: 2100, rows: 3, extra_label: false },
    ];
    let a = Q { fate: Fate::Normal, kind: Kind::Plain, lo: 0, hi: 1100, pred: String::new() };
    let b = Q { fate: Fate::Normal, kind: Kind::Plain, lo: 1000, hi: 2100, pred: String::new() };
    let bs = Q { fate: Fate::Normal, kind: Kind::Stream, lo: 1000, hi: 2100, pred: String::new() };
    let none = Q { fate: Fate::Normal, kind: Kind::Plain, lo: 5000, hi: 6000, pred: String::new() };
    let mut mixed = chunks.clone();
    mixed[2].extra_label = true;
    vec![
        (Dataset { chunks: chunks.clone(), queries: vec![a.clone(), b.clone()], indexed: false }, vec![Cmd::S(1), Cmd::S(2), Cmd::R(1), Cmd::R(2)]),
        (Dataset { chunks: chunks.clone(), queries: vec![a.clone(), b.clone()], indexed: true }, vec![Cmd::S(1), Cmd::S(2), Cmd::R(2), Cmd::R(1)]),
        (Dataset { chunks: chunks.clone(), queries: vec![a.clone(), bs.clone()], indexed: false }, vec![Cmd::S(1), Cmd::S(2), Cmd::R(1), Cmd::R(2)]),
        (Dataset { chunks: chunks.clone(), queries: vec![bs.clone(), a.clone()], indexed: false }, vec![Cmd::S(1), Cmd::S(2), Cmd::R(1), Cmd::R(2)]),
        (Dataset { chunks: chunks.clone(), queries: vec![a.clone(), none.clone()], indexed: false }, vec![Cmd::S(1), Cmd::S(2), Cmd::R(1), Cmd::R(2)]),
        (Dataset { chunks: mixed, queries: vec![a.clone(), b.clone()], indexed: false }, vec![Cmd::S(1), Cmd::S(2), Cmd::R(1), Cmd::R(2)]),
        // A binds {1}; B's binding fails (read error on chunk 2 during schema inference); the retry B'
        // must be evaluated against chunk 2, not take an "already registered" shortcut onto A's table
        (
            Dataset {
                chunks: chunks.clone(),
                queries: vec![
                    Q { fate: Fate::Normal, kind: Kind::Plain, lo: 0, hi: 100, pred: String::new() },
                    Q { fate: Fate::ReadFault(2), kind: Kind::Plain, lo: 1000, hi: 1100, pred: String::new() },
                    Q { fate: Fate::Normal, kind: Kind::Plain, lo: 1000, hi: 1100, pred: String::new() },
                ],
                indexed: false,
            },
            vec![Cmd::S(1), Cmd::R(1), Cmd::S(2), Cmd::R(2), Cmd::S(3), Cmd::R(3)],
        ),
        (
            Dataset {
                chunks: chunks.clone(),
                queries: vec![
                    Q { fate: Fate::Normal, kind: Kind::Stream, lo: 0, hi: 100, pred: String::new() },
                    Q { fate: Fate::ReadFault(3), kind: Kind::Plain, lo: 1000, hi: 2100, pred: String::new() },
                    Q { fate: Fate::Normal, kind: Kind::Stream, lo: 1000, hi: 2100, pred: String::new() },
                ],
                indexed: false,
            },
            vec![Cmd::S(1), Cmd::S(2), Cmd::R(1), Cmd::S(3), Cmd::R(2), Cmd::R(3)],
        ),
        // a query dropped at the pause point (it holds the registration lock there), and one dropped
        // while it waits for the lock
        (
            Dataset { chunks: chunks.clone(), queries: vec![Q { fate: Fate::Cancel, ..a.clone() }, b.clone()], indexed: false },
            vec![Cmd::S(1), Cmd::S(2), Cmd::C(1), Cmd::R(2)],
        ),
        (
            Dataset { chunks: chunks.clone(), queries: vec![a.clone(), Q { fate: Fate::Cancel, ..b.clone() }, none.clone()], indexed: false },
            vec![Cmd::S(1), Cmd::S(2), Cmd::S(3), Cmd::C(2), Cmd::R(1), Cmd::R(3)],
        ),
        (Dataset { chunks, queries: vec![a, b, none], indexed: true }, vec![Cmd::S(1), Cmd::S(2), Cmd::S(3), Cmd::R(1), Cmd::R(2), Cmd::R(3)]),
    ]
}

// --------------------------------------------------------------------- main ----
struct CaseOut {
    /// read errors injected / whether the history contains a query with a read fault
    injected: u64,
    expects_fault: bool,
    impl_vis: String,
    model_line: String,
    oracle: Vec<String>,
    results: Vec<String>,
    alone: Vec<String>,
    trace: Vec<String>,
}

fn run_case(ds: &Dataset, cmds: &[Cmd], alone: &[String]) -> CaseOut {
    // a runtime of its own with the clock paused from the start: a sleep then fires exactly when
    // no task can make progress, which is how the driver detects that a query waits for the lock
    let rt = tokio::runtime::Builder::new_current_thread().enable_all().start_paused(true).build().unwrap();
    let out = rt.block_on(run_schedule(ds, cmds));
    let n = ds.queries.len();
    let mut full = cmds.to_vec();
    for _ in 0..n {
        for i in 1..=n {
            full.push(Cmd::R(i));
        }
    }
    let fated = |i: usize| ds.queries[i].fate != Fate::Normal;
    let impl_vis = out
        .results
        .iter()
        .enumerate()
        .map(|(i, r)| format!("q{}={}", i + 1, if fated(i) { "!".to_string() } else if r == "-" { "-".to_string() } else { visible_of(r) }))
        .collect::<Vec<_>>()
        .join(";");
    let mut oracle = Vec::new();
    for i in 0..n {
        let q = &ds.queries[i];
        let must_equal = match q.fate {
            Fate::Normal => true,
            // a query with an injected read error may fail; if it succeeds its answer must be right
            Fate::ReadFault(_) => out.results[i] != "-" && !out.results[i].starts_with("ERR"),
            Fate::Cancel => false,
        };
        if must_equal && out.results[i] != alone[i] {
            oracle.push(format!(
                "query {} ({} window [{},{}]{}, selected chunks {:?}) answered [{}] under history {} but [{}] when run alone on a fresh node",
                i + 1, q.kind.name(), q.lo, q.hi, q.pred, ds.selected(q), out.results[i], cmds_text(cmds), alone[i]
            ));
        }
    }
    let expects_fault = ds.queries.iter().enumerate().any(|(i, q)| matches!(q.fate, Fate::ReadFault(_)) && cmds.contains(&Cmd::S(i + 1)));
    if !out.consistent {
        oracle.push(format!("driver lost track of the schedule {} (trace {:?})", cmds_text(cmds), out.trace));
    }
    CaseOut {
        injected: out.injected,
        expects_fault,
        impl_vis,
        model_line: format!(
            "fixed {} {} {} cmds {}",
            ds.chunks.iter().map(|c| c.id.to_string()).collect::<Vec<_>>().join(","),
            ds.faults_text(),
            ds.sets_text(),
            cmds_text(&full)
        ),
        oracle,
        results: out.results,
        alone: alone.to_vec(),
        trace: out.trace,
    }
}

pub fn main(args: Args) {
    if std::env::var("SQLGATE_LOUD").is_err() {
        csv_common::quiet_panics();
    }
    let rt = tokio::runtime::Builder::new_current_thread().enable_all().build().unwrap();
    let mut model = Model::spawn(&args.model);
    let mut report = Report::new("C10");

    if let Some(path) = &args.replay {
        let txt = std::fs::read_to_string(path).expect("replay file");
        let v: Value = serde_json::from_str(&txt).expect("replay json");
        let v = if v.get("dataset").is_some() { v } else { v["case"].clone() };
        let ds = Dataset::from_json(&v["dataset"]);
        let cmds = parse_cmds(v["cmds"].as_str().unwrap_or(""));
        let alone = rt.block_on(run_alone(&ds));
        let c = run_case(&ds, &cmds, &alone);
        let m = model.ask(&c.model_line);
        println!("dataset : {}", ds.to_json());
        println!("sets    : {}", ds.sets_text());
        println!("schedule: {}  (driver trace {:?})", cmds_text(&cmds), c.trace);
        println!("results : {:?}", c.results);
        println!("alone   : {:?}", c.alone);
        println!("impl    : {}", c.impl_vis);
        println!("model   : {}   [{}]", m, c.model_line);
        println!("oracle failures: {:?}", c.oracle);
        std::process::exit(if c.oracle.is_empty() && (model.is_null() || m == c.impl_vis) { 0 } else { 1 });
    }

    let mut rng = Rng::new(args.seed);
    let mut cases: Vec<(String, Dataset, Vec<Cmd>)> = corpus().into_iter().map(|(d, c)| ("corpus".to_string(), d, c)).collect();
    let (n2, n3, sample3) = if args.thorough() { (30, 12, usize::MAX) } else { (8, 3, usize::MAX) };
    let inter2 = all_interleavings(2);
    let inter3 = all_interleavings(3);
    for _ in 0..n2 {
        let mut r = rng.fork();
        let ds = gen_dataset(&mut r, 2, false, &mut report);
        for s in &inter2 {
            cases.push(("two_queries".into(), ds.clone(), adapt(s, &ds)));
        }
    }
    for k in 0..n3 {
        let mut r = rng.fork();
        // every run has at least one failed-binding-then-retry history over all 90 interleavings
        let ds = gen_dataset(&mut r, 3, k == 0, &mut report);
        if sample3 == usize::MAX {
            for s in &inter3 {
                cases.push(("three_queries".into(), ds.clone(), adapt(s, &ds)));
            }
        } else {
            for _ in 0..sample3 {
                cases.push(("three_queries".into(), ds.clone(), adapt(r.pick(&inter3[..]).as_slice(), &ds)));
            }
        }
    }
    report.exhaustive = false;

    let mut alone_cache: Vec<(String, Vec<String>)> = Vec::new();
    let mut problem_cases = 0usize;
    let started_at = std::time::Instant::now();
    let budget_secs: u64 = args.get("budget").and_then(|b| b.parse().ok()).unwrap_or(if args.thorough() { 2400 } else { 400 });
    for (idx, (origin, ds, cmds)) in cases.iter().enumerate() {
        if problem_cases >= 10 {
            report.notes.push(format!("stopped after {} of {} cases: {} cases with disagreements or oracle violations", idx, cases.len(), problem_cases));
            break;
        }
        if started_at.elapsed().as_secs() > budget_secs {
            report.notes.push(format!("stopped after {} of {} cases: time budget of {} s used up", idx, cases.len(), budget_secs));
            break;
        }
        if idx % 50 == 49 {
            report.write(&args.out);
        }
        let key = ds.to_json().to_string();
        let alone = match alone_cache.iter().find(|(k, _)| *k == key) {
            Some((_, a)) => a.clone(),
            None => {
                let a = rt.block_on(run_alone(ds));
                alone_cache.push((key.clone(), a.clone()));
                a
            }
        };
        report.bump(&format!("origin.{}", origin));
        report.bump(&format!("queries.{}", ds.queries.len()));
        // non-trivial: two queries are in flight at the same time at some point of the schedule
        let mut open = 0usize;
        let mut overlap = false;
        for c in cmds {
            match c {
                Cmd::S(_) => {
                    open += 1;
                    if open >= 2 {
                        overlap = true;
                    }
                }
                Cmd::R(_) | Cmd::C(_) => open = open.saturating_sub(1),
            }
        }
        let ckey = format!("{}|{}", key, cmds_text(cmds));
        report.case(if overlap { Some(&ckey) } else { None });
        if overlap {
            report.bump("schedule.overlapping");
        } else {
            report.bump("schedule.serial");
        }
        let c = match csv_common::catch(std::panic::AssertUnwindSafe(|| run_case(ds, cmds, &alone))) {
            Ok(c) => c,
            Err(msg) => {
                report.oracle_violation("", &format!("panic while running schedule {}: {}", cmds_text(cmds), msg), json!({"dataset": ds.to_json(), "cmds": cmds_text(cmds)}));
                continue;
            }
        };
        report.impl_runs += 1;
        if c.expects_fault {
            report.bump(if c.injected > 0 { "fault.read_error_injected" } else { "fault.configured_but_not_reached" });
        }
        if cmds.iter().any(|x| matches!(x, Cmd::C(_))) {
            report.bump("history.with_cancel");
        }
        let (differs, m) = model.differs(&c.model_line, &c.impl_vis);
        if differs || !c.oracle.is_empty() {
            problem_cases += 1;
        }
        report.sample(json!({"sets": ds.sets_text(), "schedule": cmds_text(cmds), "impl": c.impl_vis, "model": m, "results": c.results}));
        if differs {
            report.disagreement(json!({
                "correspondence": "chunks contributing to each query's result under the schedule: QueryNode vs Model/QueryBind.v (proto_fixed)",
                "case": {"dataset": ds.to_json(), "cmds": cmds_text(cmds)},
                "impl": c.impl_vis, "model": m, "model_line": c.model_line, "trace": c.trace,
                "shrunk": {"dataset": ds.to_json(), "cmds": cmds_text(cmds)},
                "oracle_failed": !c.oracle.is_empty(),
            }));
        }
        for o in &c.oracle {
            report.oracle_violation("", o, json!({"dataset": ds.to_json(), "cmds": cmds_text(cmds)}));
        }
    }
    report.notes.push(format!("model calls: {}", model.calls));
    report.notes.push("schedules are realised through the pause point only (one hold point per query, on a current-thread runtime); true multi-thread scheduling below that granularity is covered by the model's step-level theorem, not by the harness".into());
    report.write(&args.out);
}
