//! csv-sqlgate — correspondence + oracle for C11 (the query interfaces cannot
//! modify stored data) and C10 (concurrent queries do not affect each other's
//! results).  `--prop C11|C10` selects the property (default C11).
mod c10;
mod c11;
mod env;
mod wire;

fn main() {
    let args = csv_common::Args::parse();
    match args.get("prop").unwrap_or("C11") {
        "C11" => c11::main(args),
        "C10" => c10::main(args),
        other => {
            eprintln!("unknown property {}", other);
            std::process::exit(2);
        }
    }
}
