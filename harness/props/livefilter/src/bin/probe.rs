use arrow_array::*;
use arrow_schema::*;
use datafusion::prelude::*;
use datafusion::datasource::MemTable;
use std::sync::Arc;
use cardinalsin::query::QueryFilter;

fn main() {
    let rt = tokio::runtime::Builder::new_current_thread().enable_all().build().unwrap();
    let schema = Arc::new(Schema::new(vec![
        Field::new("id", DataType::Int64, false),
        Field::new("timestamp", DataType::Timestamp(TimeUnit::Nanosecond, None), true),
        Field::new("metric_name", DataType::Utf8, true),
        Field::new("value_f64", DataType::Float64, true),
        Field::new("value_i64", DataType::Int64, true),
    ]));
    let f = vec![Some(1.0), Some(2.0), Some(3.0), Some(-0.0), Some(0.0), Some(f64::NAN), Some(f64::INFINITY), None, Some(0.1+0.2), Some(-1.5)];
    let n = f.len();
    let batch = RecordBatch::try_new(schema.clone(), vec![
        Arc::new(Int64Array::from((0..n as i64).collect::<Vec<_>>())),
        Arc::new(TimestampNanosecondArray::from((0..n as i64).map(|i| if i==2 {None} else {Some(i*10)}).collect::<Vec<_>>())),
        Arc::new(StringArray::from(vec![Some("cpu"), Some("mem"), None, Some("5"), Some("cpu"), Some("Cpu"), Some("disk"), Some("cpu"), Some("mem"), Some("10")])),
        Arc::new(Float64Array::from(f)),
        Arc::new(Int64Array::from(vec![Some(1), Some(2), Some(3), Some(0), None, Some(-1), Some(i64::MAX), Some(i64::MIN), Some(5), Some(10)])),
    ]).unwrap();
    let wheres = std::env::args().skip(1).collect::<Vec<_>>();
    for w in wheres {
        let ctx = SessionContext::new();
        ctx.register_table("t", Arc::new(MemTable::try_new(schema.clone(), vec![vec![batch.clone()]]).unwrap())).unwrap();
        let sql = format!("SELECT id FROM t WHERE {}", w);
        let r = rt.block_on(async { match ctx.sql(&sql).await { Ok(df) => df.collect().await, Err(e) => Err(e) } });
        let df_ids = match r {
            Ok(bs) => { let mut v = vec![]; for b in bs { let a = b.column(0).as_any().downcast_ref::<Int64Array>().unwrap(); for i in 0..a.len() { v.push(a.value(i)); } } v.sort(); format!("{:?}", v) }
            Err(e) => format!("ERR {}", e.to_string().chars().take(150).collect::<String>()),
        };
        let qf = QueryFilter::from_sql(&format!("SELECT * FROM t WHERE {}", w));
        let out = qf.apply(&batch, i64::MIN).unwrap();
        let ids = match out { None => vec![], Some(b) => { let a = b.column(0).as_any().downcast_ref::<Int64Array>().unwrap(); (0..a.len()).map(|i| a.value(i)).collect() } };
        println!("{}\n   DF  : {}\n   live: {:?}\n   preds: {:?}", w, df_ids, ids, qf.predicates);
    }
}
