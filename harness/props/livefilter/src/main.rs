//! csv-livefilter — correspondence + oracle for C18 (live-tail delivery matches
//! the subscription's filter).
//!
//! Leg A (live filter): generated WHERE clauses x generated batches.  The real
//! `QueryFilter::from_sql` / `QueryFilter::apply` run on the SQL text and the
//! Arrow batch; the extracted Coq model (modelrun-livefilter) runs on the same
//! clause (as an AST) and batch; predicate structure and delivered rows are
//! compared.  Independently DataFusion evaluates
//! `SELECT * FROM t WHERE <timestamp >= merge> AND (<where>)` on the same batch
//! (the oracle: the engine's own reading of the clause), compared with what the
//! live filter delivered and with the Coq specification `spec_apply`.
//!
//! Leg B (topic subscriptions): generated topic-filter expressions and
//! send/receive interleavings through the real `TopicBroadcastChannel` /
//! `FilteredReceiver` (and the legacy `BroadcastChannel`) with a subscriber that
//! keeps up, against the model and against a direct reading of the filter.
//!
//! Leg C (end to end): `QueryNode::query_stream_filtered` over a topic
//! subscription of a real channel; the live tail must equal the per-batch
//! expectation (engine oracle) in flush order.
use arrow_array::{
    Array, ArrayRef, Float64Array, Int64Array, RecordBatch, StringArray, TimestampNanosecondArray,
    UInt64Array,
};
use arrow_schema::{DataType, Field, Schema, TimeUnit};
use cardinalsin::ingester::{
    BatchMetadata, BroadcastChannel, TopicBatch, TopicBroadcastChannel, TopicFilter,
};
use cardinalsin::metadata::predicates::{ColumnPredicate, PredicateValue};
use cardinalsin::query::QueryFilter;
use csv_common::{catch, Args, Model, Report, Rng};
use datafusion::datasource::MemTable;
use datafusion::prelude::{SessionConfig, SessionContext};
use futures::FutureExt;
use serde_json::{json, Value};
use std::panic::AssertUnwindSafe;
use std::sync::Arc;

// ------------------------------------------------------------------ AST ----
#[derive(Clone, Debug, PartialEq)]
enum Ex {
    /// identifier as written; `qual` renders `t.<name>` (CompoundIdentifier)
    Ident { name: String, qual: bool },
    /// digits only
    Int(String),
    /// text with a fraction or an exponent
    Dec(String),
    Str(String),
    Bool(bool),
    Null,
    Neg(Box<Ex>),
    /// op in eq ne lt le gt ge and or oth (oth renders `+`)
    Bin(&'static str, Box<Ex>, Box<Ex>),
    Nested(Box<Ex>),
    /// raw SQL of a form the live filter does not read (always rendered in parentheses by the generator)
    Other(String),
}

fn hex(s: &str) -> String {
    let mut o = String::from("x");
    for b in s.as_bytes() {
        o.push_str(&format!("{:02x}", b));
    }
    o
}

fn sql_op(op: &str) -> &'static str {
    match op {
        "eq" => "=",
        "ne" => "<>",
        "lt" => "<",
        "le" => "<=",
        "gt" => ">",
        "ge" => ">=",
        "and" => "AND",
        "or" => "OR",
        _ => "+",
    }
}

impl Ex {
    fn sql(&self) -> String {
        match self {
            Ex::Ident { name, qual } => {
                if *qual {
                    format!("t.{}", name)
                } else {
                    name.clone()
                }
            }
            Ex::Int(d) | Ex::Dec(d) => d.clone(),
            Ex::Str(s) => format!("'{}'", s.replace('\'', "''")),
            Ex::Bool(b) => (if *b { "TRUE" } else { "FALSE" }).to_string(),
            Ex::Null => "NULL".to_string(),
            Ex::Neg(e) => format!("-{}", e.sql()),
            Ex::Bin(op, l, r) => format!("{} {} {}", l.sql(), sql_op(op), r.sql()),
            Ex::Nested(e) => format!("({})", e.sql()),
            Ex::Other(raw) => raw.clone(),
        }
    }
    /// prefix-notation token list for the model runner
    fn tokens(&self, out: &mut Vec<String>) {
        match self {
            Ex::Ident { name, .. } => {
                out.push("I".into());
                out.push(hex(name));
            }
            Ex::Int(d) => {
                out.push("N".into());
                out.push(d.trim_start_matches('0').to_string());
                if out.last().unwrap().is_empty() {
                    *out.last_mut().unwrap() = "0".into();
                }
            }
            Ex::Dec(d) => {
                out.push("D".into());
                out.push(d.parse::<f64>().unwrap().to_bits().to_string());
            }
            Ex::Str(s) => {
                out.push("S".into());
                out.push(hex(s));
            }
            Ex::Bool(b) => out.push((if *b { "T" } else { "F" }).into()),
            Ex::Null => out.push("U".into()),
            Ex::Neg(e) => {
                out.push("M".into());
                e.tokens(out);
            }
            Ex::Bin(op, l, r) => {
                out.push("B".into());
                out.push(op.to_string());
                l.tokens(out);
                r.tokens(out);
            }
            Ex::Nested(e) => {
                out.push("P".into());
                e.tokens(out);
            }
            Ex::Other(_) => out.push("O".into()),
        }
    }
    fn to_json(&self) -> Value {
        match self {
            Ex::Ident { name, qual } => json!({"id": name, "q": qual}),
            Ex::Int(d) => json!({"int": d}),
            Ex::Dec(d) => json!({"dec": d}),
            Ex::Str(s) => json!({"str": s}),
            Ex::Bool(b) => json!({"bool": b}),
            Ex::Null => json!("null"),
            Ex::Neg(e) => json!({"neg": e.to_json()}),
            Ex::Bin(op, l, r) => json!({"op": op, "l": l.to_json(), "r": r.to_json()}),
            Ex::Nested(e) => json!({"par": e.to_json()}),
            Ex::Other(r) => json!({"other": r}),
        }
    }
    fn from_json(v: &Value) -> Ex {
        if v == "null" {
            return Ex::Null;
        }
        if let Some(n) = v.get("id") {
            return Ex::Ident { name: n.as_str().unwrap().into(), qual: v["q"].as_bool().unwrap_or(false) };
        }
        if let Some(d) = v.get("int") {
            return Ex::Int(d.as_str().unwrap().into());
        }
        if let Some(d) = v.get("dec") {
            return Ex::Dec(d.as_str().unwrap().into());
        }
        if let Some(d) = v.get("str") {
            return Ex::Str(d.as_str().unwrap().into());
        }
        if let Some(d) = v.get("bool") {
            return Ex::Bool(d.as_bool().unwrap());
        }
        if let Some(d) = v.get("neg") {
            return Ex::Neg(Box::new(Ex::from_json(d)));
        }
        if let Some(d) = v.get("par") {
            return Ex::Nested(Box::new(Ex::from_json(d)));
        }
        if let Some(d) = v.get("other") {
            return Ex::Other(d.as_str().unwrap().into());
        }
        let op = match v["op"].as_str().unwrap() {
            "eq" => "eq",
            "ne" => "ne",
            "lt" => "lt",
            "le" => "le",
            "gt" => "gt",
            "ge" => "ge",
            "and" => "and",
            "or" => "or",
            _ => "oth",
        };
        Ex::Bin(op, Box::new(Ex::from_json(&v["l"])), Box::new(Ex::from_json(&v["r"])))
    }
}

fn is_cmp(op: &str) -> bool {
    matches!(op, "eq" | "ne" | "lt" | "le" | "gt" | "ge")
}

/// literal kinds of the property's fragment: string, number within i64, decimal, optionally negated
#[derive(Clone, Copy, PartialEq, Debug)]
enum LitKind {
    Str,
    Int,
    Float,
}
fn lit_kind(e: &Ex) -> Option<LitKind> {
    match e {
        Ex::Str(_) => Some(LitKind::Str),
        Ex::Int(d) => d.parse::<i64>().ok().map(|_| LitKind::Int),
        Ex::Dec(_) => Some(LitKind::Float),
        Ex::Neg(inner) => match inner.as_ref() {
            Ex::Int(d) => format!("-{}", d).parse::<i64>().ok().map(|_| LitKind::Int),
            Ex::Dec(_) => Some(LitKind::Float),
            _ => None,
        },
        _ => None,
    }
}

/// kind of the SQL value a literal denotes, whatever its magnitude (Model: lit_value)
fn lit_value_kind(e: &Ex) -> Option<LitKind> {
    match e {
        Ex::Str(_) => Some(LitKind::Str),
        Ex::Int(_) => Some(LitKind::Int),
        Ex::Dec(_) => Some(LitKind::Float),
        Ex::Neg(inner) => match inner.as_ref() {
            Ex::Int(_) => Some(LitKind::Int),
            Ex::Dec(_) => Some(LitKind::Float),
            _ => None,
        },
        _ => None,
    }
}

/// Rust replica of Model/LiveFilter.v `supported` (cross-checked against the model's flag)
fn supported(e: &Ex) -> bool {
    match e {
        Ex::Bin("and", l, r) | Ex::Bin("or", l, r) => supported(l) && supported(r),
        Ex::Bin(op, l, r) if is_cmp(op) => match (l.as_ref(), r.as_ref()) {
            (Ex::Ident { .. }, lit) => lit_kind(lit).is_some(),
            (lit, Ex::Ident { .. }) => lit_kind(lit).is_some(),
            _ => false,
        },
        Ex::Nested(i) => supported(i),
        _ => false,
    }
}

fn leaves<'a>(e: &'a Ex, out: &mut Vec<(String, &'a Ex)>) {
    match e {
        Ex::Bin("and", l, r) | Ex::Bin("or", l, r) => {
            leaves(l, out);
            leaves(r, out);
        }
        Ex::Nested(i) => leaves(i, out),
        Ex::Bin(_, l, r) => match (l.as_ref(), r.as_ref()) {
            (Ex::Ident { name, .. }, lit) => out.push((name.to_ascii_lowercase(), lit)),
            (lit, Ex::Ident { name, .. }) => out.push((name.to_ascii_lowercase(), lit)),
            _ => {}
        },
        _ => {}
    }
}

// --------------------------------------------------------------- batches ----
#[derive(Clone, Debug, PartialEq)]
enum Col {
    I(Vec<Option<i64>>),
    F(Vec<Option<u64>>),
    S(Vec<Option<String>>),
    T(Vec<Option<i64>>),
    /// UInt64: a physical type the live filter compares nothing with (model: COther)
    U(Vec<Option<u64>>),
}
#[derive(Clone, Debug, PartialEq)]
struct Batch {
    rows: usize,
    cols: Vec<(String, Col)>,
}

impl Batch {
    fn to_arrow(&self) -> RecordBatch {
        let mut fields = Vec::new();
        let mut arrays: Vec<ArrayRef> = Vec::new();
        for (name, c) in &self.cols {
            match c {
                Col::I(v) => {
                    fields.push(Field::new(name, DataType::Int64, true));
                    arrays.push(Arc::new(Int64Array::from(v.clone())));
                }
                Col::F(v) => {
                    fields.push(Field::new(name, DataType::Float64, true));
                    arrays.push(Arc::new(Float64Array::from(
                        v.iter().map(|x| x.map(f64::from_bits)).collect::<Vec<_>>(),
                    )));
                }
                Col::S(v) => {
                    fields.push(Field::new(name, DataType::Utf8, true));
                    arrays.push(Arc::new(StringArray::from(v.clone())));
                }
                Col::T(v) => {
                    fields.push(Field::new(name, DataType::Timestamp(TimeUnit::Nanosecond, None), true));
                    arrays.push(Arc::new(TimestampNanosecondArray::from(v.clone())));
                }
                Col::U(v) => {
                    fields.push(Field::new(name, DataType::UInt64, true));
                    arrays.push(Arc::new(UInt64Array::from(v.clone())));
                }
            }
        }
        RecordBatch::try_new(Arc::new(Schema::new(fields)), arrays).expect("batch")
    }
    fn line(&self) -> String {
        let mut parts = vec![self.rows.to_string()];
        for (name, c) in &self.cols {
            let (ty, vals): (&str, Vec<String>) = match c {
                Col::I(v) => ("i", v.iter().map(|x| x.map(|y| y.to_string()).unwrap_or("_".into())).collect()),
                Col::F(v) => ("f", v.iter().map(|x| x.map(|y| y.to_string()).unwrap_or("_".into())).collect()),
                Col::T(v) => ("t", v.iter().map(|x| x.map(|y| y.to_string()).unwrap_or("_".into())).collect()),
                Col::U(v) => ("o", v.iter().map(|x| x.map(|y| y.to_string()).unwrap_or("_".into())).collect()),
                Col::S(v) => ("s", v.iter().map(|x| x.as_ref().map(|y| hex(y)).unwrap_or("_".into())).collect()),
            };
            parts.push(format!("{} {} {}", hex(name), ty, vals.join(" ")));
        }
        parts.join("|")
    }
    fn to_json(&self) -> Value {
        json!({"rows": self.rows, "cols": self.cols.iter().map(|(n, c)| match c {
            Col::I(v) => json!({"name": n, "type": "i", "v": v}),
            Col::F(v) => json!({"name": n, "type": "f", "v": v.iter().map(|x| x.map(|y| y.to_string())).collect::<Vec<_>>()}),
            Col::T(v) => json!({"name": n, "type": "t", "v": v}),
            Col::U(v) => json!({"name": n, "type": "o", "v": v.iter().map(|x| x.map(|y| y.to_string())).collect::<Vec<_>>()}),
            Col::S(v) => json!({"name": n, "type": "s", "v": v}),
        }).collect::<Vec<_>>()})
    }
    fn from_json(v: &Value) -> Batch {
        let cols = v["cols"]
            .as_array()
            .unwrap()
            .iter()
            .map(|c| {
                let n = c["name"].as_str().unwrap().to_string();
                let vals = c["v"].as_array().unwrap();
                let col = match c["type"].as_str().unwrap() {
                    "i" => Col::I(vals.iter().map(|x| x.as_i64()).collect()),
                    "t" => Col::T(vals.iter().map(|x| x.as_i64()).collect()),
                    "f" => Col::F(vals.iter().map(|x| x.as_str().map(|s| s.parse().unwrap())).collect()),
                    "o" => Col::U(vals.iter().map(|x| x.as_str().map(|s| s.parse().unwrap())).collect()),
                    _ => Col::S(vals.iter().map(|x| x.as_str().map(|s| s.to_string())).collect()),
                };
                (n, col)
            })
            .collect();
        Batch { rows: v["rows"].as_u64().unwrap() as usize, cols }
    }
    fn col(&self, name: &str) -> Option<&Col> {
        self.cols.iter().find(|(n, _)| n == name).map(|(_, c)| c)
    }
    fn ts_ok(&self) -> bool {
        match self.col("timestamp") {
            Some(Col::T(v)) | Some(Col::I(v)) => v.iter().all(|x| x.is_some()),
            _ => false,
        }
    }
}

/// canonical text of an Arrow batch (same format as the model runner's)
fn canon_arrow(b: &RecordBatch) -> String {
    let mut parts = vec![b.num_rows().to_string()];
    for (i, f) in b.schema().fields().iter().enumerate() {
        let a = b.column(i);
        let (ty, vals): (&str, Vec<String>) = match a.data_type() {
            DataType::Int64 => {
                let x = a.as_any().downcast_ref::<Int64Array>().unwrap();
                ("i", (0..x.len()).map(|k| if x.is_null(k) { "_".into() } else { x.value(k).to_string() }).collect())
            }
            DataType::Float64 => {
                let x = a.as_any().downcast_ref::<Float64Array>().unwrap();
                ("f", (0..x.len()).map(|k| if x.is_null(k) { "_".into() } else { x.value(k).to_bits().to_string() }).collect())
            }
            DataType::Timestamp(TimeUnit::Nanosecond, _) => {
                let x = a.as_any().downcast_ref::<TimestampNanosecondArray>().unwrap();
                ("t", (0..x.len()).map(|k| if x.is_null(k) { "_".into() } else { x.value(k).to_string() }).collect())
            }
            DataType::UInt64 => {
                let x = a.as_any().downcast_ref::<UInt64Array>().unwrap();
                ("o", (0..x.len()).map(|k| if x.is_null(k) { "_".into() } else { x.value(k).to_string() }).collect())
            }
            DataType::Utf8 => {
                let x = a.as_any().downcast_ref::<StringArray>().unwrap();
                ("s", (0..x.len()).map(|k| if x.is_null(k) { "_".into() } else { hex(x.value(k)) }).collect())
            }
            other => ("?", vec![format!("{:?}", other)]),
        };
        parts.push(format!("{}:{}:{}", hex(f.name()), ty, vals.join(",")));
    }
    parts.join("/")
}

fn canon_pred(p: &ColumnPredicate) -> String {
    let v = |x: &PredicateValue| match x {
        PredicateValue::String(s) => format!("s{}", hex(s)),
        PredicateValue::Int64(i) => format!("i{}", i),
        PredicateValue::Float64(f) => format!("f{}", f.to_bits()),
        PredicateValue::Boolean(b) => format!("b{}", *b as u8),
        PredicateValue::Null => "n".to_string(),
    };
    match p {
        ColumnPredicate::Eq(c, x) => format!("c(eq,{},{})", hex(c), v(x)),
        ColumnPredicate::NotEq(c, x) => format!("c(ne,{},{})", hex(c), v(x)),
        ColumnPredicate::Lt(c, x) => format!("c(lt,{},{})", hex(c), v(x)),
        ColumnPredicate::LtEq(c, x) => format!("c(le,{},{})", hex(c), v(x)),
        ColumnPredicate::Gt(c, x) => format!("c(gt,{},{})", hex(c), v(x)),
        ColumnPredicate::GtEq(c, x) => format!("c(ge,{},{})", hex(c), v(x)),
        ColumnPredicate::And(a, b) => format!("a({},{})", canon_pred(a), canon_pred(b)),
        ColumnPredicate::Or(a, b) => format!("o({},{})", canon_pred(a), canon_pred(b)),
        other => format!("unexpected({:?})", other),
    }
}

// ----------------------------------------------------------- one F case ----
#[derive(Clone, Debug)]
struct FCase {
    merge: i64,
    wh: Option<Ex>,
    batch: Batch,
}

impl FCase {
    fn sql(&self) -> String {
        match &self.wh {
            Some(w) => format!("SELECT * FROM t WHERE {}", w.sql()),
            None => "SELECT * FROM t".to_string(),
        }
    }
    fn line(&self) -> String {
        let w = match &self.wh {
            Some(w) => {
                let mut t = Vec::new();
                w.tokens(&mut t);
                t.join(" ")
            }
            None => "-".to_string(),
        };
        format!("F|{}|{}|{}", self.merge, w, self.batch.line())
    }
    fn to_json(&self) -> Value {
        json!({"kind": "filter", "merge": self.merge, "sql": self.sql(),
               "where": self.wh.as_ref().map(|w| w.to_json()), "batch": self.batch.to_json()})
    }
    fn from_json(v: &Value) -> FCase {
        FCase {
            merge: v["merge"].as_i64().unwrap(),
            wh: if v["where"].is_null() { None } else { Some(Ex::from_json(&v["where"])) },
            batch: Batch::from_json(&v["batch"]),
        }
    }
    /// replica of Model `known_class` (type_mismatch): a comparison pairs a literal with a
    /// present column of a physical type the live filter does not compare it with
    fn type_mismatch(&self) -> bool {
        let Some(w) = &self.wh else { return false };
        let mut ls = Vec::new();
        leaves(w, &mut ls);
        ls.iter().any(|(name, lit)| match self.batch.col(name) {
            None => false,
            Some(c) => !matches!(
                (lit_value_kind(lit), c),
                (Some(LitKind::Str), Col::S(_))
                    | (Some(LitKind::Int), Col::I(_))
                    | (Some(LitKind::Int), Col::F(_))
                    | (Some(LitKind::Float), Col::I(_))
                    | (Some(LitKind::Float), Col::F(_))
            ),
        })
    }
    fn cols_present(&self) -> bool {
        let Some(w) = &self.wh else { return true };
        let mut ls = Vec::new();
        leaves(w, &mut ls);
        ls.iter().all(|(name, _)| self.batch.col(name).is_some())
    }
    /// inside the statement of the property (before looking at types)
    fn in_fragment(&self) -> bool {
        self.batch.ts_ok() && self.wh.as_ref().map(supported).unwrap_or(true) && self.cols_present()
    }
}

struct FOut {
    /// preds=..|out=..  (the part compared with the model)
    impl_line: String,
    out: String,
    /// engine's answer: Ok(canonical batch or NONE) / Err(message)
    engine: Result<String, String>,
}

fn run_filter_impl(rt: &tokio::runtime::Runtime, case: &FCase) -> FOut {
    let arrow = case.batch.to_arrow();
    let sql = case.sql();
    let r = catch(AssertUnwindSafe(|| {
        let f = QueryFilter::from_sql(&sql);
        let preds = f.predicates.iter().map(canon_pred).collect::<Vec<_>>().join(";");
        let out = match f.apply(&arrow, case.merge) {
            Ok(Some(b)) => canon_arrow(&b),
            Ok(None) => "NONE".to_string(),
            Err(e) => format!("ERR({})", e),
        };
        (preds, out)
    }));
    let (preds, out) = match r {
        Ok(x) => x,
        Err(_) => ("PANIC".into(), "PANIC".into()),
    };
    // the engine's own evaluation of the same clause on the same batch
    let engine = rt.block_on(async {
        let ctx = SessionContext::new_with_config(SessionConfig::new().with_target_partitions(1));
        let table = MemTable::try_new(arrow.schema(), vec![vec![arrow.clone()]]).map_err(|e| e.to_string())?;
        ctx.register_table("t", Arc::new(table)).map_err(|e| e.to_string())?;
        let ts = match case.batch.col("timestamp") {
            Some(Col::T(_)) => format!("\"timestamp\" >= arrow_cast({}, 'Timestamp(Nanosecond, None)')", case.merge),
            Some(Col::I(_)) => format!("\"timestamp\" >= {}", case.merge),
            _ => return Err("no usable timestamp column".to_string()),
        };
        let q = match &case.wh {
            Some(w) => format!("SELECT * FROM t WHERE {} AND ({})", ts, w.sql()),
            None => format!("SELECT * FROM t WHERE {}", ts),
        };
        let df = ctx.sql(&q).await.map_err(|e| e.to_string())?;
        let bs = df.collect().await.map_err(|e| e.to_string())?;
        let bs: Vec<RecordBatch> = bs.into_iter().filter(|b| b.num_rows() > 0).collect();
        if bs.is_empty() {
            return Ok("NONE".to_string());
        }
        let all = arrow::compute::concat_batches(&bs[0].schema(), bs.iter()).map_err(|e| e.to_string())?;
        Ok(canon_arrow(&all))
    });
    FOut { impl_line: format!("preds={}|out={}", preds, out), out, engine }
}

fn field<'a>(line: &'a str, key: &str) -> &'a str {
    line.split('|').find_map(|f| f.strip_prefix(key)).unwrap_or("")
}

// ------------------------------------------------------------ generators ----
const METRICS: [&str; 5] = ["cpu", "mem", "disk", "net.rx", "cpu.user"];
const HOSTS: [&str; 8] = ["a", "A", "", "ab", "b", "host-1", "é", "it's"];

fn special_floats() -> Vec<f64> {
    vec![
        0.0, -0.0, 1.0, -1.0, 2.0, 3.0, 0.5, 1.5, -1.5, 0.1, 0.3, 0.1 + 0.2, 1.0 + f64::EPSILON, 1.0 - f64::EPSILON / 2.0,
        f64::NAN, -f64::NAN, f64::INFINITY, f64::NEG_INFINITY, f64::MIN_POSITIVE, 5e-324, 1e300, -1e300, 100.0,
        9007199254740992.0, 9007199254740994.0, 9223372036854775807.0, -9223372036854775808.0, 1e16, 2.5,
    ]
}
fn special_ints() -> Vec<i64> {
    vec![0, 1, -1, 2, 3, 5, 10, 100, -100, i64::MAX, i64::MIN, i64::MAX - 1, 9007199254740992, 9007199254740993, -9007199254740993, 200, 404, 500]
}

fn gen_batch(rng: &mut Rng, merge: i64, report: &mut Report) -> Batch {
    let rows = match rng.below(10) {
        0 => 0,
        1 => 1,
        _ => rng.range_usize(2, 9),
    };
    let mut cols = Vec::new();
    // timestamp: Timestamp(ns) or Int64, values around the merge point
    let null_ts = rng.chance(1, 12);
    let ts: Vec<Option<i64>> = (0..rows)
        .map(|_| {
            if null_ts && rng.chance(1, 3) {
                None
            } else {
                Some(match rng.below(6) {
                    0 => merge,
                    1 => merge.saturating_sub(1),
                    2 => merge.saturating_add(1),
                    3 => merge.saturating_add(rng.range_i64(-1000, 1000)),
                    4 => rng.range_i64(-5, 5),
                    _ => merge.saturating_add(rng.range_i64(0, 1_000_000_000)),
                })
            }
        })
        .collect();
    if null_ts {
        report.bump("batch.null_timestamp");
    }
    let ts_is_int = rng.chance(1, 2);
    report.bump(if ts_is_int { "batch.ts_int64" } else { "batch.ts_timestamp_ns" });
    let ts_col = if ts_is_int { Col::I(ts) } else { Col::T(ts) };
    let nmetrics = rng.range_usize(1, 3);
    let metrics: Vec<&str> = (0..nmetrics).map(|_| *rng.pick(&METRICS)).collect();
    if nmetrics > 1 {
        report.bump("batch.several_metrics");
    }
    let nullp = |rng: &mut Rng| rng.chance(1, 6);
    let sf = special_floats();
    let si = special_ints();
    let mut all = vec![
        ("timestamp".to_string(), ts_col),
        (
            "metric_name".to_string(),
            Col::S((0..rows).map(|_| if rng.chance(1, 15) { None } else { Some(rng.pick(&metrics).to_string()) }).collect()),
        ),
        (
            "value_f64".to_string(),
            Col::F((0..rows).map(|_| if nullp(rng) { None } else { Some(if rng.chance(3, 4) { *rng.pick(&sf) } else { rng.range_i64(-20, 20) as f64 / 4.0 }.to_bits()) }).collect()),
        ),
        (
            "value_i64".to_string(),
            Col::I((0..rows).map(|_| if nullp(rng) { None } else { Some(if rng.chance(2, 3) { *rng.pick(&si) } else { rng.range_i64(-6, 6) }) }).collect()),
        ),
        (
            "host".to_string(),
            Col::S((0..rows).map(|_| if nullp(rng) { None } else { Some(rng.pick(&HOSTS).to_string()) }).collect()),
        ),
    ];
    if rng.chance(1, 4) {
        report.bump("batch.with_uint64_column");
        all.push((
            "value_u64".to_string(),
            Col::U((0..rows).map(|_| if nullp(rng) { None } else { Some(*rng.pick(&[0u64, 1, 2, 5, 100, u64::MAX, 1 << 63])) }).collect()),
        ));
    }
    // column order varies; sometimes a label column is absent or named with capitals
    if rng.chance(1, 10) {
        all.retain(|(n, _)| n != "host");
        report.bump("batch.host_absent");
    }
    if rng.chance(1, 25) {
        for (n, _) in all.iter_mut() {
            if n == "host" {
                *n = "Host".to_string();
            }
        }
        report.bump("batch.capitalised_column");
    }
    let keep_first = all.remove(0);
    let mut rest = all;
    for i in (1..rest.len()).rev() {
        let j = rng.below(i as u64 + 1) as usize;
        rest.swap(i, j);
    }
    if rng.chance(1, 2) {
        cols.push(keep_first);
        cols.extend(rest);
    } else {
        cols.extend(rest);
        let pos = rng.below(cols.len() as u64 + 1) as usize;
        cols.insert(pos, keep_first);
    }
    Batch { rows, cols }
}

fn vary_case(rng: &mut Rng, name: &str) -> String {
    match rng.below(6) {
        0 => name.to_ascii_uppercase(),
        1 => {
            let mut s = name.to_string();
            if let Some(c) = s.get_mut(0..1) {
                c.make_ascii_uppercase();
            }
            s
        }
        _ => name.to_string(),
    }
}

fn float_text(rng: &mut Rng, f: f64) -> Ex {
    // f is finite; sign handled by Neg
    let mag = f.abs();
    let mut t = format!("{:?}", mag);
    if !t.contains('.') && !t.contains('e') && !t.contains('E') {
        t.push_str(".0");
    }
    if rng.chance(1, 10) && t.ends_with(".0") {
        t.truncate(t.len() - 1); // "2."
    } else if rng.chance(1, 10) && t.contains('.') && !t.contains('e') {
        t.push('0'); // trailing zero
    } else if rng.chance(1, 10) {
        t = t.replace('e', "E");
    }
    let lit = Ex::Dec(t);
    if f.is_sign_negative() {
        Ex::Neg(Box::new(lit))
    } else {
        lit
    }
}
fn int_lit(i: i64) -> Ex {
    if i < 0 {
        Ex::Neg(Box::new(Ex::Int(i.unsigned_abs().to_string())))
    } else {
        Ex::Int(i.to_string())
    }
}

/// a literal aimed at the values of the column (equal, just above, just below), of a kind chosen by `kind`
fn gen_literal(rng: &mut Rng, batch: &Batch, col: &str, report: &mut Report) -> Ex {
    let c = batch.col(col);
    let kind = rng.below(100);
    // which literal kind: mostly the column's own kind, often the other numeric kind, sometimes a mismatch
    let (want_int, want_float, want_str) = match c {
        Some(Col::I(_)) => (kind < 55, (55..90).contains(&kind), kind >= 90 && kind < 96),
        Some(Col::F(_)) => (kind < 35, (35..90).contains(&kind), kind >= 90 && kind < 96),
        Some(Col::S(_)) => (kind >= 90 && kind < 95, kind >= 95 && kind < 97, kind < 90),
        Some(Col::T(_)) => (kind < 60, kind >= 60 && kind < 70, kind >= 70 && kind < 90),
        Some(Col::U(_)) => (kind < 70, kind >= 70 && kind < 90, kind >= 90 && kind < 95),
        None => (kind < 40, kind >= 40 && kind < 60, kind >= 60 && kind < 95),
    };
    if want_int {
        report.bump("literal.int");
        let mut pool: Vec<i64> = special_ints();
        match c {
            Some(Col::I(v)) | Some(Col::T(v)) => pool.extend(v.iter().flatten().flat_map(|x| [*x, x.saturating_add(1), x.saturating_sub(1)])),
            Some(Col::U(v)) => pool.extend(v.iter().flatten().filter(|x| **x < 1 << 62).flat_map(|x| [*x as i64, *x as i64 + 1])),
            Some(Col::F(v)) => pool.extend(v.iter().flatten().filter_map(|b| {
                let f = f64::from_bits(*b);
                if f.is_finite() && f.abs() < 9e18 { Some(f as i64) } else { None }
            })),
            _ => {}
        }
        if rng.chance(1, 40) {
            report.bump("literal.int_beyond_i64");
            return Ex::Int(rng.pick(&["9223372036854775808", "18446744073709551615", "9223372036854775809"]).to_string());
        }
        if rng.chance(1, 40) {
            return Ex::Neg(Box::new(Ex::Int("9223372036854775808".into()))); // i64::MIN
        }
        if rng.chance(1, 30) {
            return Ex::Neg(Box::new(Ex::Int("0".into())));
        }
        let i = *rng.pick(&pool);
        if rng.chance(1, 25) && i >= 0 {
            return Ex::Int(format!("00{}", i)); // leading zeros
        }
        return int_lit(i);
    }
    if want_float {
        report.bump("literal.float");
        let mut pool: Vec<f64> = special_floats().into_iter().filter(|f| f.is_finite()).collect();
        match c {
            Some(Col::F(v)) => pool.extend(v.iter().flatten().flat_map(|b| {
                let f = f64::from_bits(*b);
                if f.is_finite() {
                    vec![f, f64::from_bits(b.wrapping_add(1)), f64::from_bits(b.wrapping_sub(1))].into_iter().filter(|x| x.is_finite()).collect::<Vec<_>>()
                } else {
                    vec![]
                }
            })),
            Some(Col::I(v)) => pool.extend(v.iter().flatten().flat_map(|x| [*x as f64, *x as f64 + 0.5, *x as f64 - 0.5])),
            _ => {}
        }
        let f = *rng.pick(&pool);
        return float_text(rng, f);
    }
    if want_str {
        report.bump("literal.string");
        let mut pool: Vec<String> = HOSTS.iter().chain(METRICS.iter()).map(|s| s.to_string()).collect();
        pool.extend(["5", "abc", "1.5", "2024-01-01T00:00:00", "CPU", "b ", "aa"].iter().map(|s| s.to_string()));
        if let Some(Col::S(v)) = c {
            pool.extend(v.iter().flatten().cloned());
        }
        return Ex::Str(rng.pick(&pool).clone());
    }
    report.bump("literal.bool_or_null");
    if rng.chance(1, 2) {
        Ex::Null
    } else {
        Ex::Bool(rng.chance(1, 2))
    }
}

fn gen_leaf(rng: &mut Rng, batch: &Batch, report: &mut Report) -> Ex {
    let r = rng.below(100);
    if r < 6 {
        // forms the live filter does not read
        report.bump("leaf.unsupported_form");
        let raw = *rng.pick(&[
            "(NOT value_i64 = 1)", "(value_i64 IS NULL)", "(value_i64 BETWEEN 0 AND 3)", "(value_i64 IN (1, 2))",
            "(host LIKE 'a%')", "(abs(value_f64) > 1.0)", "(value_f64 IS NOT NULL)", "(value_i64 = value_f64)",
        ]);
        return Ex::Other(raw.to_string());
    }
    let names = ["value_f64", "value_i64", "metric_name", "host", "timestamp", "region", "value_u64"];
    let weights = [30u64, 28, 14, 14, 6, 3, if batch.col("value_u64").is_some() { 8 } else { 0 }];
    let mut pickw = rng.below(weights.iter().sum());
    let mut col = names[0];
    for (n, w) in names.iter().zip(weights.iter()) {
        if pickw < *w {
            col = n;
            break;
        }
        pickw -= w;
    }
    if col == "region" {
        report.bump("leaf.column_not_in_batch");
    }
    let op = *rng.pick(&["eq", "ne", "lt", "le", "gt", "ge"]);
    let ident = Ex::Ident { name: vary_case(rng, col), qual: rng.chance(1, 12) };
    let lit = gen_literal(rng, batch, col, report);
    if r < 9 {
        report.bump("leaf.column_vs_column");
        return Ex::Bin(op, Box::new(ident), Box::new(Ex::Ident { name: "value_i64".into(), qual: false }));
    }
    if r < 12 {
        report.bump("leaf.arithmetic_operand");
        return Ex::Bin(op, Box::new(Ex::Bin("oth", Box::new(ident), Box::new(Ex::Int("1".into())))), Box::new(lit));
    }
    if r < 14 {
        report.bump("leaf.literal_vs_literal");
        return Ex::Bin(op, Box::new(Ex::Int("1".into())), Box::new(lit));
    }
    if rng.chance(1, 3) {
        report.bump("leaf.reversed_operands");
        Ex::Bin(op, Box::new(lit), Box::new(ident))
    } else {
        report.bump("leaf.column_op_literal");
        Ex::Bin(op, Box::new(ident), Box::new(lit))
    }
}

/// Boolean structure; parentheses are explicit `Nested` nodes placed wherever the
/// SQL precedence / left associativity would otherwise change the tree.
fn gen_bool(rng: &mut Rng, depth: u32, batch: &Batch, report: &mut Report) -> Ex {
    if depth == 0 || rng.chance(2, 5) {
        let l = gen_leaf(rng, batch, report);
        return if rng.chance(1, 10) { Ex::Nested(Box::new(l)) } else { l };
    }
    let is_and = rng.chance(1, 2);
    let l = gen_bool(rng, depth - 1, batch, report);
    let r = gen_bool(rng, depth - 1, batch, report);
    let wrap = |e: Ex| Ex::Nested(Box::new(e));
    let (l, r) = if is_and {
        report.bump("clause.and");
        let l = match &l {
            Ex::Bin("or", ..) => wrap(l),
            _ => if rng.chance(1, 8) { wrap(l) } else { l },
        };
        let r = match &r {
            Ex::Bin("or", ..) | Ex::Bin("and", ..) => wrap(r),
            _ => if rng.chance(1, 8) { wrap(r) } else { r },
        };
        (l, r)
    } else {
        report.bump("clause.or");
        let l = if rng.chance(1, 8) { wrap(l) } else { l };
        let r = match &r {
            Ex::Bin("or", ..) => wrap(r),
            _ => if rng.chance(1, 8) { wrap(r) } else { r },
        };
        (l, r)
    };
    Ex::Bin(if is_and { "and" } else { "or" }, Box::new(l), Box::new(r))
}

fn gen_fcase(rng: &mut Rng, report: &mut Report) -> FCase {
    let merge = match rng.below(5) {
        0 => 0,
        1 => rng.range_i64(-10, 10),
        2 => 1_700_000_000_000_000_000,
        3 => i64::MIN,
        _ => rng.range_i64(1, 4_000_000_000_000_000_000),
    };
    let batch = gen_batch(rng, merge, report);
    let wh = if rng.chance(1, 30) {
        report.bump("clause.none");
        None
    } else {
        let d = rng.range_usize(0, 3) as u32;
        Some(gen_bool(rng, d, &batch, report))
    };
    FCase { merge, wh, batch }
}

fn id(n: &str) -> Box<Ex> {
    Box::new(Ex::Ident { name: n.into(), qual: false })
}
fn corpus_f() -> Vec<FCase> {
    let f = |x: f64| Some(x.to_bits());
    let base = |ts: Col| Batch {
        rows: 3,
        cols: vec![
            ("timestamp".into(), ts),
            ("metric_name".into(), Col::S(vec![Some("cpu".into()), Some("cpu".into()), Some("mem".into())])),
            ("value_f64".into(), Col::F(vec![f(1.0), f(2.0), f(3.0)])),
            ("value_i64".into(), Col::I(vec![Some(1), Some(2), Some(3)])),
        ],
    };
    let b = base(Col::T(vec![Some(10), Some(20), Some(30)]));
    let eq = |c: &str, l: Ex| Ex::Bin("eq", id(c), Box::new(l));
    let specials = Batch {
        rows: 8,
        cols: vec![
            ("timestamp".into(), Col::I((0..8).map(|i| Some(i)).collect())),
            ("value_f64".into(), Col::F(vec![f(0.0), f(-0.0), f(f64::NAN), f(f64::INFINITY), f(0.1 + 0.2), None, f(-1.5), f(f64::NEG_INFINITY)])),
            ("value_i64".into(), Col::I(vec![Some(0), Some(-1), Some(i64::MAX), Some(i64::MIN), None, Some(5), Some(9007199254740993), Some(2)])),
        ],
    };
    vec![
        // the OR witness of DESIGN §6 (flattened into AND before the fix: 0 rows)
        FCase { merge: 0, wh: Some(Ex::Bin("or", Box::new(eq("value_f64", Ex::Dec("1.0".into()))), Box::new(eq("value_f64", Ex::Dec("2.0".into()))))), batch: b.clone() },
        // integer literal against a float column (was: no filtering)
        FCase { merge: 0, wh: Some(Ex::Bin("gt", id("value_f64"), Box::new(Ex::Int("1".into())))), batch: b.clone() },
        // float literal against an integer column
        FCase { merge: 0, wh: Some(Ex::Bin("gt", id("value_i64"), Box::new(Ex::Dec("1.5".into())))), batch: b.clone() },
        // negative literals (were: no predicate at all)
        FCase { merge: 0, wh: Some(Ex::Bin("gt", id("value_f64"), Box::new(Ex::Neg(Box::new(Ex::Dec("1.0".into())))))), batch: specials.clone() },
        FCase { merge: 0, wh: Some(Ex::Bin("lt", Box::new(Ex::Neg(Box::new(Ex::Int("1".into())))), id("VALUE_I64"))), batch: specials.clone() },
        // float equality is exact (0.1+0.2 is not 0.3), -0.0 is not 0.0, NaN sorts above
        FCase { merge: 0, wh: Some(eq("value_f64", Ex::Dec("0.3".into()))), batch: specials.clone() },
        FCase { merge: 0, wh: Some(eq("value_f64", Ex::Dec("0.0".into()))), batch: specials.clone() },
        FCase { merge: 0, wh: Some(Ex::Bin("ge", id("value_f64"), Box::new(Ex::Dec("0.0".into())))), batch: specials.clone() },
        FCase { merge: 0, wh: Some(Ex::Bin("ne", id("value_f64"), Box::new(Ex::Dec("1.0".into())))), batch: specials.clone() },
        // big integers through the float coercion
        FCase { merge: 0, wh: Some(Ex::Bin("ge", id("value_i64"), Box::new(Ex::Dec("9223372036854775807.0".into())))), batch: specials.clone() },
        FCase { merge: 0, wh: Some(eq("value_i64", Ex::Dec("9007199254740992.0".into()))), batch: specials.clone() },
        // nested AND / OR with parentheses and the merge point in the middle
        FCase { merge: 20, wh: Some(Ex::Bin("or", Box::new(Ex::Nested(Box::new(Ex::Bin("and", Box::new(Ex::Bin("le", Box::new(Ex::Int("2".into())), id("value_i64"))), Box::new(Ex::Bin("ne", id("value_i64"), Box::new(Ex::Int("3".into())))))))), Box::new(eq("metric_name", Ex::Str("mem".into()))))), batch: b.clone() },
        // open known class: string literal against an integer column, number against a string column
        FCase { merge: 0, wh: Some(eq("value_i64", Ex::Str("x".into()))), batch: b.clone() },
        FCase { merge: 0, wh: Some(eq("metric_name", Ex::Int("5".into()))), batch: b.clone() },
        // Int64 timestamp column, merge at a row
        FCase { merge: 20, wh: None, batch: base(Col::I(vec![Some(10), Some(20), Some(30)])) },
    ]
}

fn check_fcase(rt: &tokio::runtime::Runtime, model: &mut Model, case: &FCase, report: &mut Report, origin: &str) {
    let line = case.line();
    let o = run_filter_impl(rt, case);
    report.impl_runs += 1;
    let m = model.ask(&line);
    let frag = case.in_fragment();
    let mism = case.type_mismatch();
    let key = format!("{}|{}", case.sql(), line);
    report.case(if frag && case.batch.rows > 0 && case.wh.is_some() { Some(&key) } else { None });
    report.bump(&format!("origin.{}", origin));
    if frag {
        report.bump("fragment.inside");
    }
    if mism {
        report.bump("class.type_mismatch");
    }
    report.sample(json!({"sql": case.sql(), "merge": case.merge, "batch": case.batch.line(), "impl": o.impl_line, "model": m,
                         "engine": o.engine.clone().unwrap_or_else(|e| format!("engine error: {}", e.chars().take(80).collect::<String>()))}));
    if !model.is_null() {
        let model_cmp = format!("preds={}|out={}", field(&m, "preds="), field(&m, "out="));
        if model_cmp != o.impl_line {
            report.disagreement(json!({
                "correspondence": "Model/LiveFilter.v from_sql/apply vs QueryFilter::from_sql/apply",
                "case": case.to_json(), "impl": o.impl_line, "model": m,
                "shrunk": Value::Null,
                "oracle_failed": o.engine.as_ref().map(|e| frag && !mism && *e != o.out).unwrap_or(false),
            }));
        }
        // the harness's replicas of `supported`/`known_class` must agree with the model's
        let mflag_class = field(&m, "class=") == "1";
        let mflag_ok = field(&m, "ok=") == "1";
        let wf_ok = frag; // generated batches are well formed
        if mflag_class != mism || mflag_ok != wf_ok {
            report.disagreement(json!({
                "correspondence": "classifier replica (harness) vs Model/LiveFilter.v known_class/supported",
                "case": case.to_json(), "impl": format!("class={} ok={}", mism as u8, wf_ok as u8), "model": m,
                "shrunk": Value::Null, "oracle_failed": false,
            }));
        }
    }
    match &o.engine {
        Err(_) => report.bump("oracle.engine_rejects_clause"),
        Ok(engine_out) => {
            if !frag {
                report.bump("oracle.outside_fragment_not_judged");
            } else {
                report.bump("oracle.judged");
                if *engine_out != o.out && mism && report.histogram.get("oracle.known_class_violation").copied().unwrap_or(0) >= 3 {
                    report.bump("oracle.known_class_violation");
                } else if *engine_out != o.out && !mism && report.histogram.get("oracle.violation_recorded").copied().unwrap_or(0) >= 10 {
                    // a breaking change produces thousands of these: ten shrunk witnesses are enough
                    report.bump("oracle.violation_not_recorded");
                } else if *engine_out != o.out {
                    if !mism {
                        report.bump("oracle.violation_recorded");
                    }
                    let class = if mism { "type-mismatch" } else { "" };
                    if mism {
                        report.bump("oracle.known_class_violation");
                    }
                    report.oracle_violation(
                        class,
                        &format!("live filter delivers {} but the engine's evaluation of the WHERE clause at/after the merge point gives {}", short(&o.out), short(engine_out)),
                        json!({"case": shrink_f(rt, case).to_json()}),
                    );
                }
                // the Coq specification itself against the engine (outside the known class)
                if !model.is_null() && !mism {
                    let spec = field(&m, "spec=");
                    if spec != engine_out {
                        report.disagreement(json!({
                            "correspondence": "Model/LiveFilter.v spec_apply (SQL meaning used by the theorems) vs DataFusion",
                            "case": case.to_json(), "impl": engine_out, "model": m, "shrunk": Value::Null, "oracle_failed": false,
                        }));
                    }
                }
            }
        }
    }
}

fn short(s: &str) -> String {
    if s.len() > 160 {
        format!("{}...", &s[..160])
    } else {
        s.to_string()
    }
}

/// shrink a failing oracle case: fewer rows, then a single leaf of the clause
fn shrink_f(rt: &tokio::runtime::Runtime, case: &FCase) -> FCase {
    let budget = std::cell::Cell::new(80u32); // cap on re-executions per shrink
    let fails = |c: &FCase| {
        if budget.get() == 0 {
            return false;
        }
        budget.set(budget.get() - 1);
        let o = run_filter_impl(rt, c);
        c.in_fragment() && matches!(&o.engine, Ok(e) if *e != o.out)
    };
    let mut cur = case.clone();
    // rows
    let mut i = 0;
    while i < cur.batch.rows && cur.batch.rows > 1 {
        let mut cand = cur.clone();
        cand.batch.rows -= 1;
        for (_, c) in cand.batch.cols.iter_mut() {
            match c {
                Col::I(v) | Col::T(v) => { v.remove(i); }
                Col::F(v) | Col::U(v) => { v.remove(i); }
                Col::S(v) => { v.remove(i); }
            }
        }
        if fails(&cand) {
            cur = cand;
        } else {
            i += 1;
        }
    }
    // clause: try each sub-expression
    fn subs(e: &Ex, out: &mut Vec<Ex>) {
        match e {
            Ex::Bin("and", l, r) | Ex::Bin("or", l, r) => {
                out.push((**l).clone());
                out.push((**r).clone());
                subs(l, out);
                subs(r, out);
            }
            Ex::Nested(i) => {
                out.push((**i).clone());
                subs(i, out);
            }
            _ => {}
        }
    }
    loop {
        let Some(w) = cur.wh.clone() else { break };
        let mut cands = Vec::new();
        subs(&w, &mut cands);
        let mut progressed = false;
        for c in cands {
            let cand = FCase { wh: Some(c), ..cur.clone() };
            if fails(&cand) {
                cur = cand;
                progressed = true;
                break;
            }
        }
        if !progressed {
            break;
        }
    }
    cur
}

// ---------------------------------------------------------------- topics ----
#[derive(Clone, Debug)]
enum Tf {
    All,
    Shard(String),
    Tenant(u32),
    Metrics(Vec<String>),
    And(Vec<Tf>),
    Or(Vec<Tf>),
    /// built with TopicFilter::and
    Built(Box<Tf>, Box<Tf>),
}
impl Tf {
    fn real(&self) -> TopicFilter {
        match self {
            Tf::All => TopicFilter::All,
            Tf::Shard(s) => TopicFilter::Shard(s.clone()),
            Tf::Tenant(t) => TopicFilter::Tenant(*t),
            Tf::Metrics(m) => TopicFilter::Metrics(m.clone()),
            Tf::And(f) => TopicFilter::And(f.iter().map(|x| x.real()).collect()),
            Tf::Or(f) => TopicFilter::Or(f.iter().map(|x| x.real()).collect()),
            Tf::Built(a, b) => a.real().and(b.real()),
        }
    }
    fn tokens(&self) -> String {
        match self {
            Tf::All => "A".into(),
            Tf::Shard(s) => format!("H {}", hex(s)),
            Tf::Tenant(t) => format!("E {}", t),
            Tf::Metrics(m) => format!("M {} {}", m.len(), m.iter().map(|x| hex(x)).collect::<Vec<_>>().join(" ")).trim_end().to_string(),
            Tf::And(f) => format!("& {} {}", f.len(), f.iter().map(|x| x.tokens()).collect::<Vec<_>>().join(" ")).trim_end().to_string(),
            Tf::Or(f) => format!("+ {} {}", f.len(), f.iter().map(|x| x.tokens()).collect::<Vec<_>>().join(" ")).trim_end().to_string(),
            Tf::Built(a, b) => format!("Z {} {}", a.tokens(), b.tokens()),
        }
    }
    /// the meaning of the filter read directly off its definition (oracle)
    fn sat(&self, shard: &str, tenant: u32, metrics: &[String]) -> bool {
        match self {
            Tf::All => true,
            Tf::Shard(s) => s == shard,
            Tf::Tenant(t) => *t == tenant,
            Tf::Metrics(ms) => metrics.iter().any(|m| ms.iter().any(|x| x == m)),
            Tf::And(f) => f.iter().all(|x| x.sat(shard, tenant, metrics)),
            Tf::Or(f) => f.iter().any(|x| x.sat(shard, tenant, metrics)),
            Tf::Built(a, b) => a.sat(shard, tenant, metrics) && b.sat(shard, tenant, metrics),
        }
    }
    fn to_json(&self) -> Value {
        match self {
            Tf::All => json!("all"),
            Tf::Shard(s) => json!({"shard": s}),
            Tf::Tenant(t) => json!({"tenant": t}),
            Tf::Metrics(m) => json!({"metrics": m}),
            Tf::And(f) => json!({"and": f.iter().map(|x| x.to_json()).collect::<Vec<_>>()}),
            Tf::Or(f) => json!({"or": f.iter().map(|x| x.to_json()).collect::<Vec<_>>()}),
            Tf::Built(a, b) => json!({"built": [a.to_json(), b.to_json()]}),
        }
    }
    fn from_json(v: &Value) -> Tf {
        if v == "all" {
            return Tf::All;
        }
        if let Some(s) = v.get("shard") {
            return Tf::Shard(s.as_str().unwrap().into());
        }
        if let Some(s) = v.get("tenant") {
            return Tf::Tenant(s.as_u64().unwrap() as u32);
        }
        if let Some(s) = v.get("metrics") {
            return Tf::Metrics(s.as_array().unwrap().iter().map(|x| x.as_str().unwrap().to_string()).collect());
        }
        if let Some(s) = v.get("and") {
            return Tf::And(s.as_array().unwrap().iter().map(Tf::from_json).collect());
        }
        if let Some(s) = v.get("or") {
            return Tf::Or(s.as_array().unwrap().iter().map(Tf::from_json).collect());
        }
        let b = v["built"].as_array().unwrap();
        Tf::Built(Box::new(Tf::from_json(&b[0])), Box::new(Tf::from_json(&b[1])))
    }
}

#[derive(Clone, Debug)]
enum Ev {
    Send { shard: String, tenant: u32, id: i64, metrics: Vec<String> },
    Recv,
}
#[derive(Clone, Debug)]
struct TCase {
    filter: Tf,
    evs: Vec<Ev>,
}
impl TCase {
    fn line(&self) -> String {
        let evs: Vec<String> = self
            .evs
            .iter()
            .map(|e| match e {
                Ev::Send { shard, tenant, id, metrics } => {
                    format!("s {} {} {} {}", hex(shard), tenant, id, metrics.iter().map(|m| hex(m)).collect::<Vec<_>>().join(" ")).trim_end().to_string()
                }
                Ev::Recv => "r".to_string(),
            })
            .collect();
        format!("T|{}|{}", self.filter.tokens(), evs.join("|"))
    }
    fn to_json(&self) -> Value {
        json!({"kind": "topic", "filter": self.filter.to_json(), "events": self.evs.iter().map(|e| match e {
            Ev::Send { shard, tenant, id, metrics } => json!({"send": {"shard": shard, "tenant": tenant, "id": id, "metrics": metrics}}),
            Ev::Recv => json!("recv"),
        }).collect::<Vec<_>>()})
    }
    fn from_json(v: &Value) -> TCase {
        TCase {
            filter: Tf::from_json(&v["filter"]),
            evs: v["events"]
                .as_array()
                .unwrap()
                .iter()
                .map(|e| {
                    if e == "recv" {
                        Ev::Recv
                    } else {
                        let s = &e["send"];
                        Ev::Send {
                            shard: s["shard"].as_str().unwrap().into(),
                            tenant: s["tenant"].as_u64().unwrap() as u32,
                            id: s["id"].as_i64().unwrap(),
                            metrics: s["metrics"].as_array().unwrap().iter().map(|x| x.as_str().unwrap().to_string()).collect(),
                        }
                    }
                })
                .collect(),
        }
    }
}

fn id_batch(id: i64) -> RecordBatch {
    RecordBatch::try_new(
        Arc::new(Schema::new(vec![Field::new("id", DataType::Int64, false)])),
        vec![Arc::new(Int64Array::from(vec![id]))],
    )
    .unwrap()
}
fn batch_id(b: &RecordBatch) -> i64 {
    b.column(0).as_any().downcast_ref::<Int64Array>().unwrap().value(0)
}

/// Runs the events through the real channel; returns (canonical line, oracle failures)
fn run_topic_impl(rt: &tokio::runtime::Runtime, case: &TCase) -> (String, Vec<String>) {
    rt.block_on(async {
        let cap = case.evs.len().max(1) + 1;
        let channel = TopicBroadcastChannel::new(cap);
        let legacy = BroadcastChannel::new(cap);
        let real = case.filter.real();
        let mut rx = channel.subscribe(real.clone()).await;
        let mut legacy_rx = legacy.subscribe();
        let mut recvs = Vec::new();
        let mut all: Vec<i64> = Vec::new();
        let mut matched = Vec::new();
        let mut expect: Vec<i64> = Vec::new();
        let mut sent_ids = Vec::new();
        let mut bad = Vec::new();
        for e in &case.evs {
            match e {
                Ev::Send { shard, tenant, id, metrics } => {
                    let md = BatchMetadata { shard_id: shard.clone(), tenant_id: *tenant, metrics: metrics.clone() };
                    let m = real.matches(&md);
                    matched.push(if m { "1" } else { "0" });
                    let want = case.filter.sat(shard, *tenant, metrics);
                    if m != want {
                        bad.push(format!("TopicFilter::matches = {} but the filter's meaning is {} for batch {}", m, want, id));
                    }
                    if want {
                        expect.push(*id);
                    }
                    sent_ids.push(*id);
                    let _ = channel.send(TopicBatch { batch: id_batch(*id), metadata: md });
                    let _ = legacy.send(id_batch(*id));
                }
                Ev::Recv => match rx.recv().now_or_never() {
                    Some(Ok(b)) => {
                        recvs.push(batch_id(&b).to_string());
                        all.push(batch_id(&b));
                    }
                    Some(Err(e)) => recvs.push(format!("ERR({:?})", e)),
                    None => recvs.push("-".to_string()),
                },
            }
        }
        let mut drain = Vec::new();
        loop {
            match rx.recv().now_or_never() {
                Some(Ok(b)) => {
                    drain.push(batch_id(&b));
                    all.push(batch_id(&b));
                }
                Some(Err(e)) => {
                    bad.push(format!("receiver error {:?}", e));
                    break;
                }
                None => break,
            }
        }
        if all != expect {
            bad.push(format!("subscriber received {:?}, batches satisfying the topic filter in send order are {:?}", all, expect));
        }
        // legacy broadcast: everything, in order
        let mut legacy_all = Vec::new();
        while let Ok(b) = legacy_rx.try_recv() {
            legacy_all.push(batch_id(&b));
        }
        if legacy_all != sent_ids {
            bad.push(format!("legacy broadcast subscriber received {:?}, sent {:?}", legacy_all, sent_ids));
        }
        let ids = |v: &Vec<i64>| v.iter().map(|x| x.to_string()).collect::<Vec<_>>().join(",");
        (format!("recv={}|drain={}|all={}|match={}", recvs.join(","), ids(&drain), ids(&all), matched.join(",")), bad)
    })
}

const SHARDS: [&str; 4] = ["shard-1", "shard-2", "", "s"];
fn gen_tf(rng: &mut Rng, depth: u32, report: &mut Report) -> Tf {
    let r = rng.below(if depth == 0 { 5 } else { 9 });
    match r {
        0 => Tf::All,
        1 => Tf::Shard(rng.pick(&SHARDS).to_string()),
        2 => Tf::Tenant(rng.below(3) as u32),
        3 | 4 => {
            let k = rng.range_usize(0, 3);
            Tf::Metrics((0..k).map(|_| rng.pick(&METRICS).to_string()).collect())
        }
        5 | 6 => {
            report.bump("topic.and");
            let k = rng.range_usize(0, 3);
            if k == 0 {
                report.bump("topic.empty_and");
            }
            Tf::And((0..k).map(|_| gen_tf(rng, depth - 1, report)).collect())
        }
        7 => {
            report.bump("topic.or");
            let k = rng.range_usize(0, 3);
            if k == 0 {
                report.bump("topic.empty_or");
            }
            Tf::Or((0..k).map(|_| gen_tf(rng, depth - 1, report)).collect())
        }
        _ => {
            report.bump("topic.builder_and");
            Tf::Built(Box::new(gen_tf(rng, depth - 1, report)), Box::new(gen_tf(rng, depth - 1, report)))
        }
    }
}
fn gen_tcase(rng: &mut Rng, report: &mut Report) -> TCase {
    let filter = gen_tf(rng, 3, report);
    let n = rng.range_usize(1, 14);
    let mut evs = Vec::new();
    let mut next_id = 1;
    for _ in 0..n {
        if rng.chance(3, 5) {
            let k = rng.range_usize(0, 3);
            evs.push(Ev::Send {
                shard: rng.pick(&SHARDS).to_string(),
                tenant: rng.below(3) as u32,
                id: next_id,
                metrics: (0..k).map(|_| rng.pick(&METRICS).to_string()).collect(),
            });
            next_id += 1;
        } else {
            evs.push(Ev::Recv);
        }
    }
    TCase { filter, evs }
}
fn corpus_t() -> Vec<TCase> {
    let s = |shard: &str, tenant: u32, id: i64, ms: &[&str]| Ev::Send { shard: shard.into(), tenant, id, metrics: ms.iter().map(|x| x.to_string()).collect() };
    vec![
        TCase {
            filter: Tf::And(vec![Tf::Tenant(1), Tf::Or(vec![Tf::Shard("a".into()), Tf::Metrics(vec!["m".into()])])]),
            evs: vec![s("a", 1, 1, &[]), Ev::Recv, Ev::Recv, s("b", 1, 2, &["m", "n"]), s("a", 2, 3, &["m"]), s("b", 1, 4, &["n"]), s("a", 1, 5, &["m"]), Ev::Recv],
        },
        TCase { filter: Tf::And(vec![]), evs: vec![s("a", 1, 1, &[]), Ev::Recv] },
        TCase { filter: Tf::Or(vec![]), evs: vec![s("a", 1, 1, &[]), Ev::Recv] },
        TCase { filter: Tf::Metrics(vec!["cpu".into()]), evs: vec![s("a", 1, 1, &["mem", "cpu"]), s("a", 1, 2, &["mem"]), s("a", 1, 3, &[]), Ev::Recv, Ev::Recv] },
        TCase { filter: Tf::Built(Box::new(Tf::Shard("shard-1".into())), Box::new(Tf::And(vec![Tf::Tenant(1), Tf::Metrics(vec!["cpu".into()])]))), evs: vec![s("shard-1", 1, 1, &["cpu"]), s("shard-2", 1, 2, &["cpu"]), s("shard-1", 1, 3, &["mem"]), Ev::Recv] },
    ]
}

fn check_tcase(rt: &tokio::runtime::Runtime, model: &mut Model, case: &TCase, report: &mut Report, origin: &str) {
    let line = case.line();
    let (impl_out, bad) = run_topic_impl(rt, case);
    report.impl_runs += 1;
    let nsend = case.evs.iter().filter(|e| matches!(e, Ev::Send { .. })).count();
    report.case(if nsend > 0 && !matches!(case.filter, Tf::All) { Some(&line) } else { None });
    report.bump(&format!("origin.topic_{}", origin));
    let (differs, m) = model.differs(&line, &impl_out);
    report.sample(json!({"topic_case": line, "impl": impl_out, "model": m}));
    if differs {
        report.disagreement(json!({
            "correspondence": "Model/LiveFilter.v matches/recv/drain vs TopicBroadcastChannel + FilteredReceiver",
            "case": case.to_json(), "impl": impl_out, "model": m, "shrunk": Value::Null, "oracle_failed": !bad.is_empty(),
        }));
    }
    if !bad.is_empty() {
        report.oracle_violation("", &bad.join("; "), json!({"case": case.to_json()}));
    }
}

fn unqualify(e: &Ex) -> Ex {
    match e {
        Ex::Ident { name, .. } => Ex::Ident { name: name.clone(), qual: false },
        Ex::Neg(i) => Ex::Neg(Box::new(unqualify(i))),
        Ex::Nested(i) => Ex::Nested(Box::new(unqualify(i))),
        Ex::Bin(op, l, r) => Ex::Bin(op, Box::new(unqualify(l)), Box::new(unqualify(r))),
        other => other.clone(),
    }
}

// ----------------------------------------------------------- end to end ----
// Leg C.  The subscription point of a streaming query is the return of
// `QueryNode::query_stream(_filtered)` (the receiver is resubscribed inside the call).
// Oracle: every row flushed after the call returned, at or after the merge point and
// satisfying the WHERE clause, arrives exactly once, in flush order — no matter whether
// the spawned forwarding task has already reached its live loop.  Timestamps of live rows
// are generated either around the year 2096 (after the executor's merge point = now) or in
// 1970 (before it); historical rows carry "now minus a few seconds".
const FUTURE: i64 = 4_000_000_000_000_000_000;

/// when the live batches are flushed relative to the forwarding task
#[derive(Clone, Copy, Debug, PartialEq)]
enum Timing {
    /// right after the call returned, before the result stream is polled at all
    /// (current-thread runtime: the spawned task has not run yet)
    Immediately,
    /// after the task had every chance to finish the historical hand-over
    AfterHandover,
    /// half immediately, half after yielding
    Split,
    /// after reading a few historical batches: with more than 100 result batches the
    /// task is blocked on the full result channel in the middle of the hand-over
    MidHandover,
}

fn e2e_batch(rng: &mut Rng, report: &mut Report) -> Batch {
    let mut b = gen_batch(rng, FUTURE + 1000, report);
    // fixed schema across batches, Int64 non-null timestamps
    b.cols.sort_by(|a, c| a.0.cmp(&c.0));
    b.cols.retain(|(n, _)| n != "Host" && n != "host" && n != "value_u64");
    for (n, c) in b.cols.iter_mut() {
        if n == "timestamp" {
            let v: Vec<Option<i64>> = match c {
                Col::I(v) | Col::T(v) => v
                    .iter()
                    .enumerate()
                    .map(|(i, x)| {
                        Some(match x {
                            Some(t) if *t > FUTURE - 1_000_000 => *t,
                            Some(_) => 1_000 + i as i64,
                            None => FUTURE + i as i64,
                        })
                    })
                    .collect(),
                _ => vec![],
            };
            *c = Col::I(v);
        }
    }
    b
}

fn first_ts(b: &RecordBatch) -> Option<i64> {
    let c = b.column_by_name("timestamp")?;
    if let Some(a) = c.as_any().downcast_ref::<Int64Array>() {
        return (a.len() > 0).then(|| a.value(0));
    }
    if let Some(a) = c.as_any().downcast_ref::<TimestampNanosecondArray>() {
        return (a.len() > 0).then(|| a.value(0));
    }
    None
}

struct E2eRun {
    sql: String,
    legacy: bool,
    timing: Timing,
    hist_chunks: usize,
    hist_batches: usize,
    got: Vec<String>,
    expect: Vec<String>,
}

/// one end-to-end stream.  `hist_chunks` = 0: channels driven directly, no stored data;
/// otherwise a real Ingester (one flush per write) stores `hist_chunks` tiny chunks first and
/// performs the live flushes too.
async fn e2e_once(
    wh: &Option<Ex>,
    live: &[Batch],
    legacy: bool,
    timing: Timing,
    hist_chunks: usize,
) -> Result<E2eRun, String> {
    use cardinalsin::ingester::{Ingester, IngesterConfig, WalConfig};
    use cardinalsin::metadata::LocalMetadataClient;
    use cardinalsin::query::{QueryConfig, QueryNode};
    use cardinalsin::schema::MetricSchema;
    use cardinalsin::StorageConfig;
    use object_store::memory::InMemory;

    let sql = match wh {
        Some(w) => format!("SELECT * FROM metrics WHERE {}", w.sql()),
        None => "SELECT * FROM metrics".to_string(),
    };
    let store = Arc::new(InMemory::new());
    let metadata = Arc::new(LocalMetadataClient::new());
    let channel = TopicBroadcastChannel::new(1024);
    let legacy_channel = BroadcastChannel::new(1024);
    let ingester = if hist_chunks > 0 {
        let cfg = IngesterConfig {
            flush_row_count: 1,
            wal: WalConfig { enabled: false, ..WalConfig::default() },
            ..IngesterConfig::default()
        };
        Some(Ingester::new(cfg, store.clone(), metadata.clone(), StorageConfig::default(), MetricSchema::default_metrics()))
    } else {
        None
    };
    if let Some(ing) = &ingester {
        // historical rows: "now minus a few seconds", same schema as the live batches
        let now = std::time::SystemTime::now().duration_since(std::time::UNIX_EPOCH).unwrap().as_nanos() as i64;
        for i in 0..hist_chunks {
            let h = Batch {
                rows: 1,
                cols: vec![
                    ("metric_name".into(), Col::S(vec![Some("cpu".into())])),
                    ("timestamp".into(), Col::I(vec![Some(now - 5_000_000_000 - i as i64)])),
                    ("value_f64".into(), Col::F(vec![Some((i as f64).to_bits())])),
                    ("value_i64".into(), Col::I(vec![Some(i as i64)])),
                ],
            };
            ing.write(h.to_arrow()).await.map_err(|e| format!("historical write: {}", e))?;
        }
    }
    let mut node = QueryNode::new(QueryConfig::default(), store, metadata, StorageConfig::default())
        .await
        .map_err(|e| format!("QueryNode::new: {}", e))?;
    node = match &ingester {
        Some(ing) => {
            node.connect_broadcast(ing.subscribe());
            node.with_topic_filter(ing.subscribe_filtered(TopicFilter::All).await)
        }
        None => {
            node.connect_broadcast(legacy_channel.subscribe());
            node.with_topic_filter(channel.subscribe(TopicFilter::All).await)
        }
    };
    // ---- the subscription point ----
    let mut stream = if legacy {
        node.query_stream(&sql).await.map_err(|e| format!("query_stream: {}", e))?
    } else {
        node.query_stream_filtered(&sql).await.map_err(|e| format!("query_stream_filtered: {}", e))?
    };

    let mut got = Vec::new();
    let mut hist_batches = 0usize;
    let take = |b: Result<RecordBatch, cardinalsin::Error>, got: &mut Vec<String>, hist: &mut usize| match b {
        Ok(b) => {
            if first_ts(&b).map(|t| t > FUTURE / 2).unwrap_or(true) {
                got.push(canon_arrow(&b));
            } else {
                *hist += 1;
            }
        }
        Err(e) => got.push(format!("ERR({})", e)),
    };
    match timing {
        Timing::Immediately | Timing::Split => {}
        Timing::AfterHandover => {
            for _ in 0..50 {
                tokio::task::yield_now().await;
            }
        }
        Timing::MidHandover => {
            for _ in 0..3 {
                match tokio::time::timeout(std::time::Duration::from_millis(200), stream.recv()).await {
                    Ok(Some(b)) => take(b, &mut got, &mut hist_batches),
                    _ => break,
                }
            }
        }
    }
    let mut expect = Vec::new();
    for (k, b) in live.iter().enumerate() {
        if b.rows == 0 {
            continue;
        }
        if timing == Timing::Split && k == live.len() / 2 {
            for _ in 0..50 {
                tokio::task::yield_now().await;
            }
        }
        match &ingester {
            Some(ing) => ing.write(b.to_arrow()).await.map_err(|e| format!("live write: {}", e))?,
            None => {
                if legacy {
                    let _ = legacy_channel.send(b.to_arrow());
                } else {
                    let _ = channel.send(TopicBatch { batch: b.to_arrow(), metadata: BatchMetadata { shard_id: "s".into(), tenant_id: 1, metrics: vec![] } });
                }
            }
        }
        // any instant between the real "now" and FUTURE separates the two groups of rows
        let o = run_filter_impl_engine_only(&FCase { merge: FUTURE - 2_000_000, wh: wh.clone(), batch: b.clone() }).await;
        match o {
            Ok(s) => {
                if s != "NONE" {
                    expect.push(s)
                }
            }
            Err(e) => return Err(format!("engine: {}", e)),
        }
    }
    // drain: historical hand-over first, then the live tail
    loop {
        let wait = if got.len() < expect.len() || hist_batches < hist_chunks.min(1) { 1500 } else { 40 };
        match tokio::time::timeout(std::time::Duration::from_millis(wait), stream.recv()).await {
            Ok(Some(b)) => take(b, &mut got, &mut hist_batches),
            Ok(None) | Err(_) => break,
        }
    }
    Ok(E2eRun { sql, legacy, timing, hist_chunks, hist_batches, got, expect })
}

fn run_e2e(rt: &tokio::runtime::Runtime, rng: &mut Rng, report: &mut Report, n_small: usize, n_large: usize) {
    let mut findings = 0usize;
    // (hist_chunks, legacy, timing, with_where)
    let mut plan: Vec<(usize, bool, Timing, bool)> = Vec::new();
    for round in 0..n_small {
        let timing = match round / 2 % 3 {
            0 => Timing::Immediately,
            1 => Timing::Split,
            _ => Timing::AfterHandover,
        };
        plan.push((if round % 6 == 5 { 3 } else { 0 }, round % 2 == 1, timing, true));
    }
    for round in 0..n_large {
        // > 100 result batches: no WHERE clause (one result batch per chunk file), so that the
        // forwarding task is back-pressured by the result channel while the ingester flushes
        let timing = if round / 2 % 2 == 0 { Timing::MidHandover } else { Timing::Immediately };
        plan.push((130, round % 2 == 1, timing, round >= 2 && round % 4 >= 2));
    }
    for (hist_chunks, legacy, timing, with_where) in plan {
        if findings >= 10 {
            report.bump("e2e.skipped_after_10_findings");
            continue;
        }
        let nb = rng.range_usize(1, 4);
        let mut batches: Vec<Batch> = (0..nb).map(|_| e2e_batch(rng, report)).collect();
        // at least one flushed row after the merge point, so that a lost batch is visible
        for _ in 0..10 {
            if batches.iter().any(|b| b.rows > 0) {
                break;
            }
            batches.push(e2e_batch(rng, report));
        }
        if let Some(b) = batches.iter_mut().find(|b| b.rows > 0) {
            for (n, c) in b.cols.iter_mut() {
                if n == "timestamp" {
                    if let Col::I(v) = c {
                        v[0] = Some(FUTURE + 7);
                    }
                }
            }
        }
        // clause over the fixed schema, inside the fragment and outside the known class
        let mut wh = None;
        if with_where {
            for _ in 0..20 {
                let cand = unqualify(&gen_bool(rng, 2, &batches[0], report));
                let probe = FCase { merge: 0, wh: Some(cand.clone()), batch: batches[0].clone() };
                if probe.in_fragment() && !probe.type_mismatch() && !cand.sql().to_lowercase().contains("timestamp") {
                    wh = Some(cand);
                    break;
                }
            }
            if wh.is_none() {
                continue;
            }
        }
        let res = rt.block_on(e2e_once(&wh, &batches, legacy, timing, hist_chunks));
        report.impl_runs += 1;
        match res {
            Err(e) => {
                report.bump("e2e.setup_failed");
                if report.notes.len() < 5 {
                    report.notes.push(format!("e2e setup: {}", e.chars().take(200).collect::<String>()));
                }
            }
            Ok(run) => {
                report.bump(if run.legacy { "e2e.run_legacy_broadcast" } else { "e2e.run_topic_filtered" });
                report.bump(&format!("e2e.flush_{:?}", run.timing));
                if run.hist_chunks > 0 {
                    report.bump("e2e.with_stored_history_and_real_ingester_flushes");
                }
                if !run.expect.is_empty() {
                    report.bump("e2e.nonempty_expectation");
                }
                if run.hist_batches > 100 && !run.expect.is_empty() {
                    report.bump(if run.legacy { "e2e.backpressured_legacy_nonempty" } else { "e2e.backpressured_filtered_nonempty" });
                }
                if run.hist_batches > 100 {
                    report.bump("e2e.historical_result_over_100_batches");
                }
                report.case(Some(&format!("e2e|{}|{}|{:?}|{}|{:?}", run.sql, run.legacy, run.timing, run.hist_chunks, run.expect)));
                if run.got != run.expect {
                    findings += 1;
                    report.oracle_violation(
                        "",
                        &format!(
                            "end to end ({} receiver, {} stored chunks / {} historical result batches, live batches flushed {:?} after the streaming call returned): stream delivered {:?}, but the rows flushed since the subscription point that lie after the merge point and satisfy the WHERE clause are {:?}",
                            if run.legacy { "legacy broadcast" } else { "topic-filtered" }, run.hist_chunks, run.hist_batches, run.timing,
                            run.got.iter().map(|s| short(s)).collect::<Vec<_>>(), run.expect.iter().map(|s| short(s)).collect::<Vec<_>>()),
                        json!({"case": {"kind": "e2e", "sql": run.sql, "legacy": run.legacy, "timing": format!("{:?}", run.timing), "hist_chunks": run.hist_chunks,
                                        "where": wh.as_ref().map(|w| w.to_json()), "batches": batches.iter().map(|b| b.to_json()).collect::<Vec<_>>()}}),
                    );
                }
            }
        }
    }
}

async fn run_filter_impl_engine_only(case: &FCase) -> Result<String, String> {
    let arrow = case.batch.to_arrow();
    let ctx = SessionContext::new_with_config(SessionConfig::new().with_target_partitions(1));
    let table = MemTable::try_new(arrow.schema(), vec![vec![arrow.clone()]]).map_err(|e| e.to_string())?;
    ctx.register_table("t", Arc::new(table)).map_err(|e| e.to_string())?;
    let q = match &case.wh {
        Some(w) => format!("SELECT * FROM t WHERE \"timestamp\" >= {} AND ({})", case.merge, w.sql()),
        None => format!("SELECT * FROM t WHERE \"timestamp\" >= {}", case.merge),
    };
    let df = ctx.sql(&q).await.map_err(|e| e.to_string())?;
    let bs: Vec<RecordBatch> = df.collect().await.map_err(|e| e.to_string())?.into_iter().filter(|b| b.num_rows() > 0).collect();
    if bs.is_empty() {
        return Ok("NONE".into());
    }
    let all = arrow::compute::concat_batches(&bs[0].schema(), bs.iter()).map_err(|e| e.to_string())?;
    Ok(canon_arrow(&all))
}

// ------------------------------------------------------------------ main ----
fn main() {
    let args = Args::parse();
    csv_common::quiet_panics();
    let rt = tokio::runtime::Builder::new_current_thread().enable_all().build().unwrap();
    let mut model = Model::spawn(&args.model);
    let mut report = Report::new("C18");

    if let Some(path) = &args.replay {
        let txt = std::fs::read_to_string(path).expect("replay file");
        let v: Value = serde_json::from_str(&txt).expect("replay json");
        let c = if v.get("case").map(|c| c.is_object()).unwrap_or(false) && v.get("kind").is_none() { v["case"].clone() } else { v.clone() };
        let kind = c["kind"].as_str().unwrap_or("filter").to_string();
        let mut failed = false;
        match kind.as_str() {
            "topic" => {
                let case = TCase::from_json(&c);
                let (i, bad) = run_topic_impl(&rt, &case);
                let m = model.ask(&case.line());
                println!("case : {}\nimpl : {}\nmodel: {}\noracle failures: {:?}", case.line(), i, m, bad);
                failed = !bad.is_empty() || (!model.is_null() && m != i);
            }
            "e2e" => {
                let wh = if c["where"].is_null() { None } else { Some(Ex::from_json(&c["where"])) };
                let batches: Vec<Batch> = c["batches"].as_array().map(|a| a.iter().map(Batch::from_json).collect()).unwrap_or_default();
                let timing = match c["timing"].as_str().unwrap_or("Immediately") {
                    "AfterHandover" => Timing::AfterHandover,
                    "Split" => Timing::Split,
                    "MidHandover" => Timing::MidHandover,
                    _ => Timing::Immediately,
                };
                let legacy = c["legacy"].as_bool().unwrap_or(false);
                let hist = c["hist_chunks"].as_u64().unwrap_or(0) as usize;
                match rt.block_on(e2e_once(&wh, &batches, legacy, timing, hist)) {
                    Ok(run) => {
                        println!("sql   : {}\nreceiver: {}  flush timing: {:?}  stored chunks: {}  historical result batches: {}\ngot   : {:?}\nexpect: {:?}",
                            run.sql, if run.legacy { "legacy broadcast" } else { "topic-filtered" }, run.timing, run.hist_chunks, run.hist_batches, run.got, run.expect);
                        failed = run.got != run.expect;
                    }
                    Err(e) => {
                        println!("end-to-end setup failed: {}", e);
                        failed = true;
                    }
                }
            }
            _ => {
                let case = FCase::from_json(&c);
                let o = run_filter_impl(&rt, &case);
                let m = model.ask(&case.line());
                println!("sql  : {}\nmerge: {}\nbatch: {}\nimpl : {}\nmodel: {}\nengine: {:?}\nin fragment: {}  known class type-mismatch: {}",
                    case.sql(), case.merge, case.batch.line(), o.impl_line, m, o.engine, case.in_fragment(), case.type_mismatch());
                if let Ok(e) = &o.engine {
                    if case.in_fragment() && *e != o.out {
                        failed = true;
                    }
                }
                if !model.is_null() && format!("preds={}|out={}", field(&m, "preds="), field(&m, "out=")) != o.impl_line {
                    failed = true;
                }
            }
        }
        std::process::exit(if failed { 1 } else { 0 });
    }

    let (n_f, n_t, n_e, n_l) = if args.thorough() { (60_000, 20_000, 150, 12) } else { (3_000, 1_200, 18, 4) };
    let mut rng = Rng::new(args.seed);

    for c in corpus_f() {
        check_fcase(&rt, &mut model, &c, &mut report, "corpus");
    }
    for c in corpus_t() {
        check_tcase(&rt, &mut model, &c, &mut report, "corpus");
    }
    for _ in 0..n_f {
        let mut r = rng.fork();
        let c = gen_fcase(&mut r, &mut report);
        check_fcase(&rt, &mut model, &c, &mut report, "random");
    }
    for _ in 0..n_t {
        let mut r = rng.fork();
        let c = gen_tcase(&mut r, &mut report);
        check_tcase(&rt, &mut model, &c, &mut report, "random");
    }
    let mut r = rng.fork();
    run_e2e(&rt, &mut r, &mut report, n_e, n_l);

    report.notes.push(format!("model calls: {}", model.calls));
    report.write(&args.out);
}
