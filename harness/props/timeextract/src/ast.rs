//! WHERE-clause ASTs shared by the unit level and the end-to-end level:
//! encoding for the Coq model, SQL rendering, DataFusion `Expr` / plan
//! construction, generators biased to the case splits of the proofs, shrinker.
use cardinalsin::metadata::{ColumnPredicate, PredicateValue};
use csv_common::{Report, Rng};
use datafusion::arrow::datatypes::{DataType, Field, Schema, TimeUnit};
use datafusion::logical_expr::logical_plan::builder::table_scan;
use datafusion::logical_expr::{Filter, LogicalPlan, LogicalPlanBuilder};
use datafusion::prelude::*;
use datafusion::scalar::ScalarValue;
use std::sync::Arc;

use crate::H;

#[derive(Clone, Copy, Debug, PartialEq)]
pub enum Op {
    Eq,
    Ne,
    Lt,
    Le,
    Gt,
    Ge,
}
pub const OPS: [Op; 6] = [Op::Eq, Op::Ne, Op::Lt, Op::Le, Op::Gt, Op::Ge];

#[derive(Clone, Copy, Debug, PartialEq)]
pub enum Unit {
    S,
    Ms,
    Us,
    Ns,
}

#[derive(Clone, Debug, PartialEq)]
pub enum Lit {
    /// integer literal: Int64 when it fits, UInt64 above i64::MAX
    Int(i128),
    /// ScalarValue::Timestamp*(v) — only reachable through a plan (SQL text never yields it unanalysed)
    Ts(Unit, i64),
    /// now() + delta seconds
    Now(i64),
    /// any other operand: (kind, value used when it is rendered)
    Other(usize, i64),
}

#[derive(Clone, Debug, PartialEq)]
pub enum P {
    Cmp(Op, Lit),
    CmpR(Op, Lit),
    Between(bool, Lit, Lit),
    Label(usize),
    And(Box<P>, Box<P>),
    Or(Box<P>, Box<P>),
    Not(Box<P>),
}

#[derive(Clone, Copy, Debug, PartialEq)]
pub enum Mode {
    Sql,
    Plan,
}

#[derive(Clone, Debug)]
pub struct UnitCase {
    pub mode: Mode,
    /// Filter predicates of the statement, top-down
    pub filters: Vec<P>,
    /// statement shape (SQL mode) / wrapper bit set (plan mode)
    pub shape: usize,
}

// ------------------------------------------------------------ label atoms --
pub struct Row {
    pub ts: i64,
    pub metric: String,
    pub host: Option<String>,
    pub env: Option<String>,
    pub vf: Option<f64>,
    pub id: i64,
}

pub struct Atom {
    pub sql: &'static str,
    /// what convert_expr_to_predicate must produce (None = not convertible)
    pub cp: fn() -> Option<ColumnPredicate>,
    pub expr: fn() -> Expr,
    /// SQL three-valued truth on a row (None = NULL)
    pub eval: fn(&Row) -> Option<bool>,
    /// usable in a WHERE clause over the metrics table
    #[allow(dead_code)]
    pub in_where: bool,
}

fn s(v: &str) -> PredicateValue {
    PredicateValue::String(v.to_string())
}
fn c(n: &str) -> String {
    n.to_string()
}

pub const HAVING_ATOM: usize = 16;

pub fn atoms() -> &'static [Atom] {
    static ATOMS: std::sync::OnceLock<Vec<Atom>> = std::sync::OnceLock::new();
    ATOMS.get_or_init(build_atoms)
}

fn build_atoms() -> Vec<Atom> {
    vec![
        Atom { sql: "host = 'h1'", cp: || Some(ColumnPredicate::Eq(c("host"), s("h1"))), expr: || col("host").eq(lit("h1")),
               eval: |r| r.host.as_ref().map(|h| h == "h1"), in_where: true },
        Atom { sql: "'h1' = host", cp: || None, expr: || lit("h1").eq(col("host")),
               eval: |r| r.host.as_ref().map(|h| h == "h1"), in_where: true },
        Atom { sql: "host != 'h2'", cp: || Some(ColumnPredicate::NotEq(c("host"), s("h2"))), expr: || col("host").not_eq(lit("h2")),
               eval: |r| r.host.as_ref().map(|h| h != "h2"), in_where: true },
        Atom { sql: "metric_name = 'cpu'", cp: || Some(ColumnPredicate::Eq(c("metric_name"), s("cpu"))), expr: || col("metric_name").eq(lit("cpu")),
               eval: |r| Some(r.metric == "cpu"), in_where: true },
        Atom { sql: "host IN ('h1', 'h2')", cp: || Some(ColumnPredicate::In(c("host"), vec![s("h1"), s("h2")])),
               expr: || col("host").in_list(vec![lit("h1"), lit("h2")], false),
               eval: |r| r.host.as_ref().map(|h| h == "h1" || h == "h2"), in_where: true },
        Atom { sql: "host NOT IN ('h0')", cp: || Some(ColumnPredicate::NotIn(c("host"), vec![s("h0")])),
               expr: || col("host").in_list(vec![lit("h0")], true),
               eval: |r| r.host.as_ref().map(|h| h != "h0"), in_where: true },
        Atom { sql: "value_f64 > 1.5", cp: || Some(ColumnPredicate::Gt(c("value_f64"), PredicateValue::Float64(1.5))), expr: || col("value_f64").gt(lit(1.5f64)),
               eval: |r| r.vf.map(|v| v > 1.5), in_where: true },
        Atom { sql: "value_f64 <= 2.0", cp: || Some(ColumnPredicate::LtEq(c("value_f64"), PredicateValue::Float64(2.0))), expr: || col("value_f64").lt_eq(lit(2.0f64)),
               eval: |r| r.vf.map(|v| v <= 2.0), in_where: true },
        Atom { sql: "host BETWEEN 'h0' AND 'h1'", cp: || Some(ColumnPredicate::Between(c("host"), s("h0"), s("h1"))),
               expr: || col("host").between(lit("h0"), lit("h1")),
               eval: |r| r.host.as_ref().map(|h| h.as_str() >= "h0" && h.as_str() <= "h1"), in_where: true },
        Atom { sql: "host NOT BETWEEN 'h0' AND 'h1'", cp: || None, expr: || col("host").not_between(lit("h0"), lit("h1")),
               eval: |r| r.host.as_ref().map(|h| !(h.as_str() >= "h0" && h.as_str() <= "h1")), in_where: true },
        Atom { sql: "host IS NULL", cp: || None, expr: || col("host").is_null(),
               eval: |r| Some(r.host.is_none()), in_where: true },
        Atom { sql: "env = 'prod'", cp: || Some(ColumnPredicate::Eq(c("env"), s("prod"))), expr: || col("env").eq(lit("prod")),
               eval: |r| r.env.as_ref().map(|h| h == "prod"), in_where: true },
        Atom { sql: "host LIKE 'h1%'", cp: || None, expr: || col("host").like(lit("h1%")),
               eval: |r| r.host.as_ref().map(|h| h.starts_with("h1")), in_where: true },
        Atom { sql: "value_f64 < 2", cp: || Some(ColumnPredicate::Lt(c("value_f64"), PredicateValue::Int64(2))), expr: || col("value_f64").lt(lit(2i64)),
               eval: |r| r.vf.map(|v| v < 2.0), in_where: true },
        Atom { sql: "metric_name >= 'd'", cp: || Some(ColumnPredicate::GtEq(c("metric_name"), s("d"))), expr: || col("metric_name").gt_eq(lit("d")),
               eval: |r| Some(r.metric.as_str() >= "d"), in_where: true },
        Atom { sql: "host = NULL", cp: || Some(ColumnPredicate::Eq(c("host"), PredicateValue::Null)), expr: || col("host").eq(lit(ScalarValue::Null)),
               eval: |_| None, in_where: true },
        // the HAVING filter of statement shape 4: a Filter node above the Aggregate
        Atom { sql: "count(*) > 0", cp: || Some(ColumnPredicate::Gt(c("count(*)"), PredicateValue::Int64(0))), expr: || col("\"count(*)\"").gt(lit(0i64)),
               eval: |_| None, in_where: false },
    ]
}

/// canonical text of an implementation ColumnPredicate: leaves become atom ids
pub fn canon_cp(p: &ColumnPredicate) -> String {
    match p {
        ColumnPredicate::And(a, b) => format!("and({},{})", canon_cp(a), canon_cp(b)),
        ColumnPredicate::Or(a, b) => format!("or({},{})", canon_cp(a), canon_cp(b)),
        ColumnPredicate::Not(a) => format!("not({})", canon_cp(a)),
        leaf => {
            for (k, a) in atoms().iter().enumerate() {
                if (a.cp)().as_ref() == Some(leaf) {
                    return format!("L{}", k);
                }
            }
            format!("?{:?}", leaf)
        }
    }
}

// ---------------------------------------------------- "other" operands -----
#[allow(dead_code)]
pub struct OtherKind {
    pub name: &'static str,
    /// usable against an Int64 timestamp column / a Timestamp(ns) column end to end
    pub ok_int: bool,
    pub ok_ts: bool,
}
pub const OTHERS: [OtherKind; 8] = [
    OtherKind { name: "cast_bigint", ok_int: true, ok_ts: false },
    OtherKind { name: "float", ok_int: true, ok_ts: false },
    OtherKind { name: "arith", ok_int: true, ok_ts: false },
    OtherKind { name: "timestamp_literal", ok_int: false, ok_ts: true },
    OtherKind { name: "string", ok_int: false, ok_ts: true },
    OtherKind { name: "to_timestamp_nanos", ok_int: false, ok_ts: true },
    OtherKind { name: "null", ok_int: true, ok_ts: true },
    OtherKind { name: "column", ok_int: true, ok_ts: false },
];

pub fn rfc3339(nanos: i64) -> String {
    let secs = nanos.div_euclid(1_000_000_000);
    let sub = nanos.rem_euclid(1_000_000_000) as u32;
    match chrono::DateTime::<chrono::Utc>::from_timestamp(secs, sub) {
        Some(d) => d.to_rfc3339_opts(chrono::SecondsFormat::Nanos, true),
        None => "1970-01-01T00:00:00Z".to_string(),
    }
}

fn other_sql(kind: usize, v: i64) -> String {
    match kind {
        0 => format!("CAST({} AS BIGINT)", v),
        1 => format!("{}.5", v),
        2 => format!("({} + 0)", v),
        3 => format!("TIMESTAMP '{}'", rfc3339(v)),
        4 => format!("'{}'", rfc3339(v)),
        5 => format!("to_timestamp_nanos({})", v),
        6 => "NULL".to_string(),
        _ => "value_i64".to_string(),
    }
}

fn other_expr(kind: usize, v: i64) -> Expr {
    match kind {
        0 => cast(lit(v), DataType::Int64),
        1 => lit(v as f64 + 0.5),
        2 => lit(v) + lit(0i64),
        3 => cast(lit(rfc3339(v)), DataType::Timestamp(TimeUnit::Nanosecond, None)),
        4 => lit(rfc3339(v)),
        5 => lit(ScalarValue::Int32(Some((v % 1000) as i32))), // an integer literal that is not Int64
        6 => lit(ScalarValue::TimestampNanosecond(None, None)), // a NULL timestamp literal
        _ => col("value_i64"),
    }
}

// ------------------------------------------------------------- encoders ----
impl Op {
    pub fn tok(self) -> &'static str {
        match self {
            Op::Eq => "eq",
            Op::Ne => "ne",
            Op::Lt => "lt",
            Op::Le => "le",
            Op::Gt => "gt",
            Op::Ge => "ge",
        }
    }
    pub fn sql(self) -> &'static str {
        match self {
            Op::Eq => "=",
            Op::Ne => "!=",
            Op::Lt => "<",
            Op::Le => "<=",
            Op::Gt => ">",
            Op::Ge => ">=",
        }
    }
    fn parse(t: &str) -> Option<Op> {
        OPS.iter().copied().find(|o| o.tok() == t)
    }
    pub fn eval(self, a: i128, b: i128) -> bool {
        match self {
            Op::Eq => a == b,
            Op::Ne => a != b,
            Op::Lt => a < b,
            Op::Le => a <= b,
            Op::Gt => a > b,
            Op::Ge => a >= b,
        }
    }
}
impl Unit {
    fn tok(self) -> &'static str {
        match self {
            Unit::S => "s",
            Unit::Ms => "m",
            Unit::Us => "u",
            Unit::Ns => "n",
        }
    }
    fn parse(t: &str) -> Option<Unit> {
        [Unit::S, Unit::Ms, Unit::Us, Unit::Ns].into_iter().find(|u| u.tok() == t)
    }
}

impl Lit {
    /// `model` = the syntax of modelrun-timeextract; otherwise the richer replay syntax
    fn enc(&self, model: bool) -> String {
        match self {
            Lit::Int(v) => format!("i {}", v),
            Lit::Ts(u, v) => format!("t {} {}", u.tok(), v),
            Lit::Now(d) => {
                if model {
                    format!("n {}", (*d as i128) * 1_000_000_000)
                } else {
                    format!("n {}", d)
                }
            }
            Lit::Other(k, v) => {
                if model {
                    format!("o {}", k)
                } else {
                    format!("o {}:{}", k, v)
                }
            }
        }
    }
    fn sql(&self) -> String {
        match self {
            Lit::Int(v) => v.to_string(),
            Lit::Ts(_, v) => format!("to_timestamp_nanos({})", v), // never used: plan mode only
            Lit::Now(d) => {
                if *d < 0 {
                    format!("now() - interval '{} seconds'", -d)
                } else {
                    format!("now() + interval '{} seconds'", d)
                }
            }
            Lit::Other(k, v) => other_sql(*k, *v),
        }
    }
    fn expr(&self) -> Expr {
        match self {
            Lit::Int(v) => {
                if *v >= i64::MIN as i128 && *v <= i64::MAX as i128 {
                    lit(ScalarValue::Int64(Some(*v as i64)))
                } else {
                    lit(ScalarValue::UInt64(Some(*v as u64)))
                }
            }
            Lit::Ts(u, v) => {
                let tz: Option<Arc<str>> = if v % 2 == 0 { Some("UTC".into()) } else { None };
                lit(match u {
                    Unit::S => ScalarValue::TimestampSecond(Some(*v), tz),
                    Unit::Ms => ScalarValue::TimestampMillisecond(Some(*v), tz),
                    Unit::Us => ScalarValue::TimestampMicrosecond(Some(*v), tz),
                    Unit::Ns => ScalarValue::TimestampNanosecond(Some(*v), tz),
                })
            }
            Lit::Now(d) => now() + lit(ScalarValue::IntervalMonthDayNano(Some(
                datafusion::arrow::datatypes::IntervalMonthDayNano::new(0, 0, d.saturating_mul(1_000_000_000)),
            ))),
            Lit::Other(k, v) => other_expr(*k, *v),
        }
    }
    pub fn as_i64(&self) -> Option<i64> {
        match self {
            Lit::Int(v) if *v >= i64::MIN as i128 && *v <= i64::MAX as i128 => Some(*v as i64),
            _ => None,
        }
    }
}

impl P {
    pub fn enc(&self, model: bool) -> String {
        match self {
            P::Cmp(op, l) => format!("C {} {}", op.tok(), l.enc(model)),
            P::CmpR(op, l) => format!("R {} {}", op.tok(), l.enc(model)),
            P::Between(n, a, b) => format!("B {} {} {}", *n as u8, a.enc(model), b.enc(model)),
            P::Label(k) => format!("L {} {}", k, (atoms()[*k].cp)().is_some() as u8),
            P::And(a, b) => format!("A {} {}", a.enc(model), b.enc(model)),
            P::Or(a, b) => format!("O {} {}", a.enc(model), b.enc(model)),
            P::Not(a) => format!("N {}", a.enc(model)),
        }
    }
    pub fn sql(&self) -> String {
        match self {
            P::Cmp(op, l) => format!("timestamp {} {}", op.sql(), l.sql()),
            P::CmpR(op, l) => format!("{} {} timestamp", l.sql(), op.sql()),
            P::Between(n, a, b) => format!("timestamp {}BETWEEN {} AND {}", if *n { "NOT " } else { "" }, a.sql(), b.sql()),
            P::Label(k) => atoms()[*k].sql.to_string(),
            P::And(a, b) => format!("({} AND {})", a.sql(), b.sql()),
            P::Or(a, b) => format!("({} OR {})", a.sql(), b.sql()),
            P::Not(a) => format!("NOT ({})", a.sql()),
        }
    }
    pub fn expr(&self) -> Expr {
        let ts = || col("timestamp");
        let bin = |l: Expr, op: Op, r: Expr| match op {
            Op::Eq => l.eq(r),
            Op::Ne => l.not_eq(r),
            Op::Lt => l.lt(r),
            Op::Le => l.lt_eq(r),
            Op::Gt => l.gt(r),
            Op::Ge => l.gt_eq(r),
        };
        match self {
            P::Cmp(op, l) => bin(ts(), *op, l.expr()),
            P::CmpR(op, l) => bin(l.expr(), *op, ts()),
            P::Between(n, a, b) => {
                if *n {
                    ts().not_between(a.expr(), b.expr())
                } else {
                    ts().between(a.expr(), b.expr())
                }
            }
            P::Label(k) => (atoms()[*k].expr)(),
            P::And(a, b) => a.expr().and(b.expr()),
            P::Or(a, b) => a.expr().or(b.expr()),
            P::Not(a) => Expr::Not(Box::new(a.expr())),
        }
    }
    pub fn mentions_ts(&self) -> bool {
        match self {
            P::Cmp(..) | P::CmpR(..) | P::Between(..) => true,
            P::Label(_) => false,
            P::And(a, b) | P::Or(a, b) => a.mentions_ts() || b.mentions_ts(),
            P::Not(a) => a.mentions_ts(),
        }
    }
    pub fn has_label(&self) -> bool {
        match self {
            P::Cmp(..) | P::CmpR(..) | P::Between(..) => false,
            P::Label(_) => true,
            P::And(a, b) | P::Or(a, b) => a.has_label() || b.has_label(),
            P::Not(a) => a.has_label(),
        }
    }
    #[allow(dead_code)]
    pub fn depth(&self) -> usize {
        match self {
            P::And(a, b) | P::Or(a, b) => 1 + a.depth().max(b.depth()),
            P::Not(a) => 1 + a.depth(),
            _ => 1,
        }
    }
    pub fn lits(&self, out: &mut Vec<Lit>) {
        match self {
            P::Cmp(_, l) | P::CmpR(_, l) => out.push(l.clone()),
            P::Between(_, a, b) => {
                out.push(a.clone());
                out.push(b.clone());
            }
            P::Label(_) => {}
            P::And(a, b) | P::Or(a, b) => {
                a.lits(out);
                b.lits(out);
            }
            P::Not(a) => a.lits(out),
        }
    }
    #[allow(dead_code)]
    pub fn labels(&self, out: &mut Vec<usize>) {
        match self {
            P::Label(k) => out.push(*k),
            P::And(a, b) | P::Or(a, b) => {
                a.labels(out);
                b.labels(out);
            }
            P::Not(a) => a.labels(out),
            _ => {}
        }
    }
    pub fn histogram(&self, r: &mut Report) {
        match self {
            P::Cmp(op, l) => {
                r.bump(&format!("node.cmp.{}", op.tok()));
                lit_hist(l, r);
            }
            P::CmpR(op, l) => {
                r.bump(&format!("node.cmp_reversed.{}", op.tok()));
                lit_hist(l, r);
            }
            P::Between(n, a, b) => {
                r.bump(if *n { "node.not_between" } else { "node.between" });
                lit_hist(a, r);
                lit_hist(b, r);
            }
            P::Label(_) => r.bump("node.label"),
            P::And(a, b) => {
                r.bump("node.and");
                a.histogram(r);
                b.histogram(r);
            }
            P::Or(a, b) => {
                r.bump("node.or");
                a.histogram(r);
                b.histogram(r);
            }
            P::Not(a) => {
                r.bump("node.not");
                a.histogram(r);
            }
        }
    }
    /// SQL three-valued truth on a row of an Int64-timestamp dataset; Err when
    /// the predicate is outside the evaluable fragment
    pub fn eval(&self, row: &Row) -> Result<Option<bool>, ()> {
        let and3 = |a: Option<bool>, b: Option<bool>| match (a, b) {
            (Some(false), _) | (_, Some(false)) => Some(false),
            (Some(true), Some(true)) => Some(true),
            _ => None,
        };
        Ok(match self {
            P::Cmp(op, l) => Some(op.eval(row.ts as i128, l.as_i64().ok_or(())? as i128)),
            P::CmpR(op, l) => Some(op.eval(l.as_i64().ok_or(())? as i128, row.ts as i128)),
            P::Between(n, a, b) => {
                let v = row.ts >= a.as_i64().ok_or(())? && row.ts <= b.as_i64().ok_or(())?;
                Some(v != *n)
            }
            P::Label(k) => (atoms()[*k].eval)(row),
            P::And(a, b) => and3(a.eval(row)?, b.eval(row)?),
            P::Or(a, b) => and3(a.eval(row)?.map(|x| !x), b.eval(row)?.map(|x| !x)).map(|x| !x),
            P::Not(a) => a.eval(row)?.map(|x| !x),
        })
    }
}

fn lit_hist(l: &Lit, r: &mut Report) {
    match l {
        Lit::Int(v) => {
            if *v > i64::MAX as i128 {
                r.bump("lit.uint64")
            } else if *v == i64::MAX as i128 || *v == i64::MIN as i128 {
                r.bump("lit.int64_extreme")
            } else {
                r.bump("lit.int64")
            }
        }
        Lit::Ts(..) => r.bump("lit.timestamp"),
        Lit::Now(_) => r.bump("lit.now_relative"),
        Lit::Other(k, _) => r.bump(&format!("lit.other.{}", OTHERS[*k].name)),
    }
}

// -------------------------------------------------------------- parser -----
struct Toks<'a> {
    t: Vec<&'a str>,
    i: usize,
}
impl<'a> Toks<'a> {
    fn next(&mut self) -> Option<&'a str> {
        let x = self.t.get(self.i).copied();
        self.i += 1;
        x
    }
}
fn parse_lit(t: &mut Toks) -> Option<Lit> {
    match t.next()? {
        "i" => Some(Lit::Int(t.next()?.parse().ok()?)),
        "t" => {
            let u = Unit::parse(t.next()?)?;
            Some(Lit::Ts(u, t.next()?.parse().ok()?))
        }
        "n" => Some(Lit::Now(t.next()?.parse().ok()?)),
        "o" => {
            let x = t.next()?;
            let mut it = x.split(':');
            let k: usize = it.next()?.parse().ok()?;
            let v: i64 = it.next().unwrap_or("5").parse().ok()?;
            Some(Lit::Other(k % OTHERS.len(), v))
        }
        _ => None,
    }
}
fn parse_p(t: &mut Toks) -> Option<P> {
    match t.next()? {
        "C" => {
            let op = Op::parse(t.next()?)?;
            Some(P::Cmp(op, parse_lit(t)?))
        }
        "R" => {
            let op = Op::parse(t.next()?)?;
            Some(P::CmpR(op, parse_lit(t)?))
        }
        "B" => {
            let n = t.next()? == "1";
            let a = parse_lit(t)?;
            let b = parse_lit(t)?;
            Some(P::Between(n, a, b))
        }
        "L" => {
            let k: usize = t.next()?.parse().ok()?;
            let _ = t.next()?;
            Some(P::Label(k % atoms().len()))
        }
        "A" => {
            let a = parse_p(t)?;
            let b = parse_p(t)?;
            Some(P::And(Box::new(a), Box::new(b)))
        }
        "O" => {
            let a = parse_p(t)?;
            let b = parse_p(t)?;
            Some(P::Or(Box::new(a), Box::new(b)))
        }
        "N" => Some(P::Not(Box::new(parse_p(t)?))),
        _ => None,
    }
}
pub fn parse_pred(s: &str) -> Option<P> {
    let mut t = Toks { t: s.split_whitespace().collect(), i: 0 };
    let p = parse_p(&mut t)?;
    if t.i == t.t.len() {
        Some(p)
    } else {
        None
    }
}

// ------------------------------------------------------- unit-level cases --
pub const N_SQL_SHAPES: usize = 9;

/// the Filter predicates extract_time_bounds / extract_predicates_from_plan
/// reach (they stop at Distinct / SubqueryAlias nodes), top-down
pub fn visible_filters(case: &UnitCase) -> Vec<P> {
    match case.mode {
        Mode::Sql => match case.shape {
            4 => {
                let mut v = vec![P::Label(HAVING_ATOM)];
                v.extend(case.filters.iter().take(1).cloned());
                v
            }
            5 | 6 => case.filters.iter().take(2).cloned().collect(),
            7 => vec![],
            _ => case.filters.iter().take(1).cloned().collect(),
        },
        Mode::Plan => {
            if case.shape & 64 != 0 {
                vec![]
            } else if case.shape & (16 | 32) != 0 && case.filters.len() > 1 {
                case.filters[..1].to_vec()
            } else {
                case.filters.clone()
            }
        }
    }
}

pub fn model_line(case: &UnitCase) -> String {
    let fs = visible_filters(case);
    format!("X {}", fs.iter().map(|f| f.enc(true)).collect::<Vec<_>>().join(" ; "))
}

/// replay syntax: all filters, rich operands
pub fn ast_line(case: &UnitCase) -> String {
    case.filters.iter().map(|f| f.enc(false)).collect::<Vec<_>>().join(" ; ")
}

pub fn parse_ast_line(line: &str, mode: Mode, shape: usize) -> Option<UnitCase> {
    let mut filters = Vec::new();
    for part in line.split(';') {
        if part.trim().is_empty() {
            continue;
        }
        filters.push(parse_pred(part)?);
    }
    if filters.is_empty() {
        return None;
    }
    if mode == Mode::Sql && filters.len() < 2 {
        let f = filters[0].clone();
        filters.push(f);
    }
    Some(UnitCase { mode, filters, shape })
}

pub fn unit_sql(case: &UnitCase) -> String {
    let p0 = case.filters[0].sql();
    match case.shape {
        0 => format!("SELECT * FROM metrics WHERE {}", p0),
        1 => format!("SELECT count(*) AS n, sum(value_f64) AS s FROM metrics WHERE {}", p0),
        2 => format!("SELECT host, count(*) AS n, max(value_f64) AS mx, min(timestamp) AS t0 FROM metrics WHERE {} GROUP BY host", p0),
        3 => format!("SELECT value_i64, host FROM metrics WHERE {} ORDER BY value_i64 LIMIT 7", p0),
        4 => format!("SELECT host, count(*) AS n FROM metrics WHERE {} GROUP BY host HAVING count(*) > 0 ORDER BY host", p0),
        5 => format!("SELECT * FROM (SELECT * FROM metrics WHERE {}) WHERE {}", case.filters[1].sql(), p0),
        6 => format!("SELECT count(*) AS n FROM (SELECT value_i64, timestamp, host, env, metric_name, value_f64 FROM metrics WHERE {}) WHERE {}", case.filters[1].sql(), p0),
        7 => format!("SELECT DISTINCT host FROM metrics WHERE {}", p0),
        _ => format!("SELECT m.value_i64, m.timestamp FROM metrics m WHERE {}", p0),
    }
}

pub fn plan_schema() -> Schema {
    Schema::new(vec![
        Field::new("timestamp", DataType::Int64, false),
        Field::new("metric_name", DataType::Utf8, false),
        Field::new("host", DataType::Utf8, true),
        Field::new("env", DataType::Utf8, true),
        Field::new("value_f64", DataType::Float64, true),
        Field::new("value_i64", DataType::Int64, false),
    ])
}

pub fn build_plan(case: &UnitCase) -> Result<LogicalPlan, String> {
    let e = |x: datafusion::error::DataFusionError| x.to_string();
    let mut plan = table_scan(Some("metrics"), &plan_schema(), None).map_err(e)?.build().map_err(e)?;
    let n = case.filters.len();
    for (i, f) in case.filters.iter().enumerate().rev() {
        plan = LogicalPlan::Filter(Filter::try_new(f.expr(), Arc::new(plan)).map_err(e)?);
        if i > 0 {
            // between this filter and the one above it
            if case.shape & 16 != 0 {
                plan = LogicalPlanBuilder::from(plan).distinct().map_err(e)?.build().map_err(e)?;
            } else if case.shape & 32 != 0 {
                plan = LogicalPlanBuilder::from(plan).alias("m").map_err(e)?.build().map_err(e)?;
            } else if case.shape & 1 != 0 {
                plan = LogicalPlanBuilder::from(plan)
                    .project(vec![col("timestamp"), col("metric_name"), col("host"), col("env"), col("value_f64"), col("value_i64")])
                    .map_err(e)?
                    .build()
                    .map_err(e)?;
            }
        }
    }
    let _ = n;
    if case.shape & 64 != 0 {
        plan = LogicalPlanBuilder::from(plan).distinct().map_err(e)?.build().map_err(e)?;
    }
    let mut sort_col = "timestamp";
    if case.shape & 8 != 0 {
        plan = LogicalPlanBuilder::from(plan)
            .aggregate(vec![col("host")], vec![datafusion::functions_aggregate::expr_fn::count(col("value_i64"))])
            .map_err(e)?
            .build()
            .map_err(e)?;
        sort_col = "host";
    }
    if case.shape & 2 != 0 {
        plan = LogicalPlanBuilder::from(plan).sort(vec![col(sort_col).sort(true, true)]).map_err(e)?.build().map_err(e)?;
    }
    if case.shape & 4 != 0 {
        plan = LogicalPlanBuilder::from(plan).limit(0, Some(10)).map_err(e)?.build().map_err(e)?;
    }
    Ok(plan)
}

// ------------------------------------------------------------ generators ---
pub struct Gen {
    pub int: bool,
    pub uint: bool,
    pub ts_lit: bool,
    pub now: bool,
    pub others: Vec<usize>,
    pub atoms: Vec<usize>,
    /// interesting timestamps (row values, chunk end points)
    pub vals: Vec<i64>,
    pub extremes: bool,
}

pub fn gen_value(rng: &mut Rng, g: &Gen) -> i64 {
    let base = if g.vals.is_empty() { 0 } else { *rng.pick(&g.vals) };
    match rng.below(12) {
        0 | 1 | 2 => base,
        3 => base.saturating_add(1),
        4 => base.saturating_sub(1),
        5 => (base / H) * H,
        6 => ((base / H) * H).saturating_add(H).saturating_sub(1),
        7 => base.saturating_add(rng.range_i64(-50, 50)),
        8 if g.extremes => *rng.pick(&[i64::MIN, i64::MAX, i64::MAX - 1, i64::MIN + 1, 0, -1]),
        _ => {
            let lo = g.vals.iter().copied().min().unwrap_or(0);
            let hi = g.vals.iter().copied().max().unwrap_or(100);
            rng.range_i64(lo.saturating_sub(10), hi.saturating_add(10))
        }
    }
}

pub fn gen_lit(rng: &mut Rng, g: &Gen) -> Lit {
    let mut kinds: Vec<u8> = Vec::new();
    if g.int {
        kinds.extend_from_slice(&[0, 0, 0, 0, 0, 0]);
    }
    if g.uint {
        kinds.push(1);
    }
    if g.ts_lit {
        kinds.extend_from_slice(&[2, 2]);
    }
    if g.now {
        kinds.push(3);
    }
    if !g.others.is_empty() {
        kinds.push(4);
    }
    match *rng.pick(&kinds) {
        0 => Lit::Int(gen_value(rng, g) as i128),
        1 => Lit::Int(i64::MAX as i128 + 1 + rng.below(3) as i128 * (i64::MAX as i128 / 2)),
        2 => {
            let u = *rng.pick(&[Unit::S, Unit::Ms, Unit::Us, Unit::Ns]);
            let scale: i64 = match u {
                Unit::S => 1_000_000_000,
                Unit::Ms => 1_000_000,
                Unit::Us => 1_000,
                Unit::Ns => 1,
            };
            let v = match rng.below(6) {
                // around the overflow boundary of checked_mul
                0 => (i64::MAX / scale).saturating_add(rng.range_i64(-1, 1)),
                1 => (i64::MIN / scale).saturating_add(rng.range_i64(-1, 1)),
                2 => *rng.pick(&[i64::MAX, i64::MIN, 0]),
                _ => gen_value(rng, g) / scale.min(1000),
            };
            Lit::Ts(u, v)
        }
        3 => Lit::Now(*rng.pick(&[-3600, -300, -60, 0, 60, -86400, 3600])),
        _ => Lit::Other(*rng.pick(&g.others), gen_value(rng, g)),
    }
}

fn gen_leaf(rng: &mut Rng, g: &Gen) -> P {
    let r = rng.below(100);
    if r < 30 {
        P::Cmp(*rng.pick(&OPS), gen_lit(rng, g))
    } else if r < 55 {
        P::CmpR(*rng.pick(&OPS), gen_lit(rng, g))
    } else if r < 75 {
        let a = gen_lit(rng, g);
        let b = gen_lit(rng, g);
        P::Between(rng.chance(1, 3), a, b)
    } else if !g.atoms.is_empty() {
        P::Label(*rng.pick(&g.atoms))
    } else {
        P::Cmp(*rng.pick(&OPS), gen_lit(rng, g))
    }
}

pub fn gen_pred(rng: &mut Rng, g: &Gen, depth: usize) -> P {
    if depth <= 1 || rng.chance(1, 4) {
        return gen_leaf(rng, g);
    }
    match rng.below(10) {
        0..=3 => P::And(Box::new(gen_pred(rng, g, depth - 1)), Box::new(gen_pred(rng, g, depth - 1))),
        4..=7 => P::Or(Box::new(gen_pred(rng, g, depth - 1)), Box::new(gen_pred(rng, g, depth - 1))),
        _ => P::Not(Box::new(gen_pred(rng, g, depth - 1))),
    }
}

fn b(p: P) -> Box<P> {
    Box::new(p)
}

/// shapes the soundness proof splits on (and the code before the fix got wrong)
pub fn gen_biased(rng: &mut Rng, g: &Gen) -> P {
    // an integer literal where the context allows one, otherwise any allowed operand
    let i = |rng: &mut Rng| if g.int { Lit::Int(gen_value(rng, g) as i128) } else { gen_lit(rng, g) };
    let any = |rng: &mut Rng| gen_lit(rng, g);
    match rng.below(14) {
        0 => P::Or(b(P::Cmp(Op::Eq, i(rng))), b(P::Cmp(Op::Eq, i(rng)))),
        1 => P::And(b(P::Cmp(Op::Lt, i(rng))), b(P::Or(b(P::Cmp(Op::Gt, i(rng))), b(P::Cmp(Op::Eq, i(rng)))))),
        2 => P::CmpR(Op::Eq, any(rng)),
        3 => P::And(b(P::Cmp(Op::Ge, i(rng))), b(P::Not(b(P::Cmp(Op::Gt, i(rng)))))),
        4 => {
            // empty or inverted BETWEEN
            let x = gen_value(rng, g);
            if g.int {
                P::Between(rng.chance(1, 2), Lit::Int(x as i128), Lit::Int(x.saturating_sub(rng.range_i64(0, 5)) as i128))
            } else {
                P::Between(rng.chance(1, 2), gen_lit(rng, g), gen_lit(rng, g))
            }
        }
        5 => P::And(b(P::Between(false, i(rng), i(rng))), b(P::Between(false, i(rng), i(rng)))),
        6 => P::Or(
            b(P::And(b(P::Cmp(Op::Ge, i(rng))), b(P::Cmp(Op::Le, i(rng))))),
            b(P::And(b(P::CmpR(Op::Le, i(rng))), b(P::CmpR(Op::Ge, i(rng))))),
        ),
        7 => P::And(b(P::Cmp(Op::Gt, any(rng))), b(P::Cmp(Op::Le, i(rng)))),
        8 => P::Not(b(P::Or(b(P::Cmp(Op::Lt, i(rng))), b(P::Cmp(Op::Gt, i(rng)))))),
        9 => P::And(b(P::Cmp(Op::Ne, i(rng))), b(P::Between(false, any(rng), any(rng)))),
        10 if !g.atoms.is_empty() => P::Or(b(P::Label(*rng.pick(&g.atoms))), b(P::Between(false, i(rng), i(rng)))),
        11 if !g.atoms.is_empty() => P::And(b(P::Label(*rng.pick(&g.atoms))), b(P::CmpR(Op::Le, i(rng)))),
        12 => P::And(b(P::Cmp(Op::Eq, i(rng))), b(P::Cmp(Op::Eq, i(rng)))),
        _ => P::Or(b(P::Cmp(Op::Lt, i(rng))), b(P::CmpR(Op::Lt, i(rng)))),
    }
}

fn unit_gen_ctx(rng: &mut Rng, mode: Mode) -> Gen {
    let vals: Vec<i64> = match rng.below(4) {
        0 => vec![0, 5, 10, 100, 150, 200, 1000],
        1 => vec![-H - 1, -1, 0, H - 1, H, H + 1, 3 * H],
        2 => (0..5).map(|k| 1_700_000_000_000_000_000 + k * (H / 2) + rng.range_i64(0, 1000)).collect(),
        _ => vec![i64::MIN, i64::MIN + 1, -5, 5, i64::MAX - 1, i64::MAX],
    };
    Gen {
        int: true,
        uint: true,
        ts_lit: mode == Mode::Plan,
        now: true,
        others: (0..OTHERS.len()).collect(),
        atoms: (0..HAVING_ATOM).collect(),
        vals,
        extremes: true,
    }
}

pub fn gen_unit_case(rng: &mut Rng) -> UnitCase {
    let mode = if rng.chance(2, 5) { Mode::Plan } else { Mode::Sql };
    let g = unit_gen_ctx(rng, mode);
    let nf = match mode {
        Mode::Sql => 2,
        Mode::Plan => rng.range_usize(1, 3),
    };
    let mut filters = Vec::new();
    for _ in 0..nf {
        let r = rng.below(10);
        let p = if r < 4 {
            gen_biased(rng, &g)
        } else if r < 5 {
            // no timestamp at all: the default window
            let ga = Gen { int: false, uint: false, ts_lit: false, now: false, others: vec![], atoms: g.atoms.clone(), vals: vec![], extremes: false };
            gen_labels_only(rng, &ga, 3)
        } else {
            let depth = rng.range_usize(1, 4);
            gen_pred(rng, &g, depth)
        };
        filters.push(p);
    }
    let shape = match mode {
        Mode::Sql => rng.below(N_SQL_SHAPES as u64) as usize,
        Mode::Plan => {
            let mut s = rng.below(16) as usize;
            if rng.chance(1, 8) {
                s |= 16;
            } else if rng.chance(1, 8) {
                s |= 32;
            }
            if rng.chance(1, 12) {
                s |= 64;
            }
            s
        }
    };
    UnitCase { mode, filters, shape }
}

pub fn gen_labels_only(rng: &mut Rng, g: &Gen, depth: usize) -> P {
    if depth <= 1 || rng.chance(1, 3) {
        return P::Label(*rng.pick(&g.atoms));
    }
    match rng.below(5) {
        0 | 1 => P::And(b(gen_labels_only(rng, g, depth - 1)), b(gen_labels_only(rng, g, depth - 1))),
        2 | 3 => P::Or(b(gen_labels_only(rng, g, depth - 1)), b(gen_labels_only(rng, g, depth - 1))),
        _ => P::Not(b(gen_labels_only(rng, g, depth - 1))),
    }
}

/// proof-derived corner cases and the witnesses of the repaired defects; always run first
pub fn unit_corpus() -> Vec<UnitCase> {
    let i = |v: i64| Lit::Int(v as i128);
    let sql = |p: P| UnitCase { mode: Mode::Sql, filters: vec![p.clone(), p], shape: 0 };
    let mut v = vec![
        // witnesses observed on the code before 3f63730: (10,10), (5,5), default, (0,now), default
        sql(P::Or(b(P::Cmp(Op::Eq, i(5))), b(P::Cmp(Op::Eq, i(10))))),
        sql(P::And(b(P::Cmp(Op::Lt, i(200))), b(P::Or(b(P::Cmp(Op::Gt, i(100))), b(P::Cmp(Op::Eq, i(5))))))),
        sql(P::CmpR(Op::Eq, i(5))),
        sql(P::And(b(P::Cmp(Op::Ge, i(0))), b(P::Not(b(P::Cmp(Op::Gt, i(1000))))))),
        sql(P::And(b(P::Cmp(Op::Ge, Lit::Other(0, 0))), b(P::Cmp(Op::Le, Lit::Other(0, 150))))),
        sql(P::And(b(P::Cmp(Op::Gt, Lit::Now(-300))), b(P::Cmp(Op::Le, Lit::Now(0))))),
        sql(P::And(b(P::Cmp(Op::Ge, Lit::Other(3, 0))), b(P::Cmp(Op::Le, Lit::Other(4, 1_000_000_000))))),
        // sound before and after
        sql(P::Or(b(P::And(b(P::Cmp(Op::Ge, i(0))), b(P::Cmp(Op::Le, i(10))))), b(P::And(b(P::Cmp(Op::Ge, i(100))), b(P::Cmp(Op::Le, i(200))))))),
        sql(P::And(b(P::Between(true, i(10), i(20))), b(P::And(b(P::Cmp(Op::Ge, i(0))), b(P::Cmp(Op::Le, i(1000))))))),
        // i64 extremes, UInt64 literal, empty intersection
        sql(P::Between(false, i(i64::MIN), i(i64::MAX))),
        sql(P::And(b(P::Cmp(Op::Ge, i(0))), b(P::Cmp(Op::Le, Lit::Int(i64::MAX as i128 + 1))))),
        sql(P::And(b(P::Cmp(Op::Gt, i(10))), b(P::Cmp(Op::Lt, i(5))))),
        // label atoms: convertible, reversed, NOT BETWEEN (pushed down as BETWEEN before the fix)
        sql(P::And(b(P::Label(0)), b(P::Or(b(P::Label(4)), b(P::Not(b(P::Label(2)))))))),
        sql(P::Label(9)),
        sql(P::And(b(P::Label(0)), b(P::Label(1)))),
        sql(P::And(b(P::Label(0)), b(P::Cmp(Op::Ge, i(0))))),
    ];
    // two Filter nodes, HAVING, DISTINCT, alias
    v.push(UnitCase { mode: Mode::Sql, filters: vec![P::Cmp(Op::Le, i(150)), P::Cmp(Op::Ge, i(5))], shape: 5 });
    v.push(UnitCase { mode: Mode::Sql, filters: vec![P::Label(0), P::Between(false, i(0), i(1000))], shape: 5 });
    v.push(UnitCase { mode: Mode::Sql, filters: vec![P::Between(false, i(0), i(1000)), P::Label(3)], shape: 6 });
    v.push(UnitCase { mode: Mode::Sql, filters: vec![P::Between(false, i(0), i(1000)), P::Label(3)], shape: 4 });
    v.push(UnitCase { mode: Mode::Sql, filters: vec![P::Between(false, i(0), i(1000)), P::Label(3)], shape: 7 });
    v.push(UnitCase { mode: Mode::Sql, filters: vec![P::Between(false, i(0), i(1000)), P::Label(3)], shape: 8 });
    // plan level: timestamp literals of every unit, overflow of the scaling, stoppers
    for (u, x) in [(Unit::S, 2i64), (Unit::Ms, 3000), (Unit::Us, -7), (Unit::Ns, 5), (Unit::S, 9_223_372_037), (Unit::Ms, i64::MAX), (Unit::Us, i64::MIN)] {
        v.push(UnitCase { mode: Mode::Plan, filters: vec![P::Between(false, Lit::Ts(u, x), Lit::Ts(u, x.saturating_add(1)))], shape: 0 });
        v.push(UnitCase { mode: Mode::Plan, filters: vec![P::CmpR(Op::Lt, Lit::Ts(u, x))], shape: 3 });
    }
    v.push(UnitCase { mode: Mode::Plan, filters: vec![P::Cmp(Op::Le, i(150)), P::Label(0), P::Cmp(Op::Ge, i(5))], shape: 1 });
    v.push(UnitCase { mode: Mode::Plan, filters: vec![P::Cmp(Op::Le, i(150)), P::Cmp(Op::Ge, i(5))], shape: 16 });
    v.push(UnitCase { mode: Mode::Plan, filters: vec![P::Cmp(Op::Le, i(150)), P::Cmp(Op::Ge, i(5))], shape: 32 });
    v.push(UnitCase { mode: Mode::Plan, filters: vec![P::Cmp(Op::Le, i(150))], shape: 64 });
    v.push(UnitCase { mode: Mode::Plan, filters: vec![P::Cmp(Op::Le, i(150))], shape: 8 | 2 | 4 });
    v
}


// ------------------------------------------- finite-window recogniser ------
/// Conservative recogniser of "the predicate confines the timestamp to a finite
/// window": (lower bounded, upper bounded) of the set of timestamps on which
/// `p` is TRUE (`neg` = on which it is FALSE).  Operands with a definite finite
/// value (integer / timestamp literals, now()-relative, casts, calls) bound a
/// side; a NULL operand makes the comparison never TRUE nor FALSE (empty set);
/// a column operand and label atoms bound nothing.
fn fin(p: &P, neg: bool) -> (bool, bool) {
    let lit_kind = |l: &Lit| match l {
        Lit::Other(6, _) => 2, // NULL
        Lit::Other(7, _) => 0, // another column
        _ => 1,
    };
    let cmp = |op: Op, l: &Lit, rev: bool| -> (bool, bool) {
        match lit_kind(l) {
            2 => (true, true),
            0 => (false, false),
            _ => {
                let op = if rev {
                    match op {
                        Op::Lt => Op::Gt,
                        Op::Le => Op::Ge,
                        Op::Gt => Op::Lt,
                        Op::Ge => Op::Le,
                        o => o,
                    }
                } else {
                    op
                };
                let op = if neg {
                    match op {
                        Op::Lt => Op::Ge,
                        Op::Le => Op::Gt,
                        Op::Gt => Op::Le,
                        Op::Ge => Op::Lt,
                        Op::Eq => Op::Ne,
                        Op::Ne => Op::Eq,
                    }
                } else {
                    op
                };
                match op {
                    Op::Gt | Op::Ge => (true, false),
                    Op::Lt | Op::Le => (false, true),
                    Op::Eq => (true, true),
                    Op::Ne => (false, false),
                }
            }
        }
    };
    match p {
        P::Cmp(op, l) => cmp(*op, l, false),
        P::CmpR(op, l) => cmp(*op, l, true),
        P::Between(n, a, b) => {
            if lit_kind(a) == 2 || lit_kind(b) == 2 {
                // a NULL end point: TRUE/FALSE only through the other comparison; stay conservative
                (false, false)
            } else if lit_kind(a) == 0 || lit_kind(b) == 0 {
                (false, false)
            } else if *n == neg {
                (true, true)
            } else {
                (false, false)
            }
        }
        P::Label(_) => (false, false),
        P::And(a, b) | P::Or(a, b) => {
            let (la, ha) = fin(a, neg);
            let (lb, hb) = fin(b, neg);
            let conj = matches!(p, P::And(..)) != neg;
            if conj {
                (la || lb, ha || hb)
            } else {
                (la && lb, ha && hb)
            }
        }
        P::Not(a) => fin(a, !neg),
    }
}

/// all filters together (rows pass every one of them) confine the timestamp
pub fn finite_window(filters: &[P]) -> bool {
    let mut lo = false;
    let mut hi = false;
    for f in filters {
        let (l, h) = fin(f, false);
        lo |= l;
        hi |= h;
    }
    lo && hi
}

// ------------------------------------------------------------- shrinker ----
pub fn shrink_pred(p: &P) -> Vec<P> {
    let mut out = Vec::new();
    match p {
        P::And(a, c) | P::Or(a, c) => {
            out.push((**a).clone());
            out.push((**c).clone());
            let mk = |x: P, y: P| if matches!(p, P::And(..)) { P::And(b(x), b(y)) } else { P::Or(b(x), b(y)) };
            for x in shrink_pred(a) {
                out.push(mk(x, (**c).clone()));
            }
            for y in shrink_pred(c) {
                out.push(mk((**a).clone(), y));
            }
        }
        P::Not(a) => {
            out.push((**a).clone());
            for x in shrink_pred(a) {
                out.push(P::Not(b(x)));
            }
        }
        _ => {}
    }
    out
}

pub fn shrink_unit(c: &UnitCase) -> Vec<UnitCase> {
    let mut out = Vec::new();
    let min_filters = if c.mode == Mode::Sql { 2 } else { 1 };
    if c.filters.len() > min_filters {
        for i in 0..c.filters.len() {
            let mut f = c.filters.clone();
            f.remove(i);
            out.push(UnitCase { mode: c.mode, filters: f, shape: c.shape });
        }
    }
    for (i, f) in c.filters.iter().enumerate() {
        for s in shrink_pred(f) {
            let mut fs = c.filters.clone();
            fs[i] = s;
            out.push(UnitCase { mode: c.mode, filters: fs, shape: c.shape });
        }
    }
    if c.mode == Mode::Sql && c.shape != 0 && c.shape != 5 {
        out.push(UnitCase { mode: c.mode, filters: c.filters.clone(), shape: 0 });
    }
    if c.mode == Mode::Plan && c.shape != 0 {
        out.push(UnitCase { mode: c.mode, filters: c.filters.clone(), shape: 0 });
    }
    out
}
