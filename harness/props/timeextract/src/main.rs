//! csv-timeextract — correspondence + oracle for C04 (query answers equal a
//! full scan of everything ingested).
//!
//! Unit level: WHERE-clause ASTs (depth <= 4, both operand orders, BETWEEN /
//! NOT BETWEEN, nested AND/OR/NOT, Int64 / UInt64 / timestamp-literal /
//! now()-relative / other operands, label atoms) are rendered to SQL and run
//! through `QueryEngine::extract_time_range` / `extract_column_predicates`, or
//! built as logical plans and run through the verif hooks; the canonical result
//! ("range=D|lo,hi preds=...") is compared with the extracted Coq model
//! (modelrun-timeextract, line kind X).
//!
//! End to end (the oracle): a real `Ingester` writes a generated dataset in a
//! random chunking / flush order (optionally compacted) into an in-memory
//! object store with either metadata backend; `QueryNode::query(sql)` (cold and
//! warm, with and without adaptive indexing) is compared with the same SQL on
//! a DataFusion `MemTable` holding all ingested rows (rows sorted, floats by
//! bits).  The row semantics of Model/Pred.v are compared with DataFusion's
//! three-valued evaluation of the same predicate (model line kind S).
mod ast;
mod e2e;

use ast::*;
use cardinalsin::query::{CacheConfig, QueryEngine, TieredCache};
use cardinalsin::StorageConfig;
use csv_common::{Args, Model, Report, Rng};
use object_store::memory::InMemory;
use serde_json::json;
use std::sync::Arc;

pub const H: i64 = 3_600_000_000_000;

async fn fresh_engine() -> QueryEngine {
    let store = Arc::new(InMemory::new());
    let cache = Arc::new(
        TieredCache::new(CacheConfig { l1_size: 16 * 1024 * 1024, l2_size: 16 * 1024 * 1024, l2_dir: None })
            .await
            .expect("cache"),
    );
    QueryEngine::new(store, cache, &StorageConfig::default()).await.expect("engine")
}

/// canonical "range=.. preds=.." of what the implementation extracts from SQL
async fn impl_sql(engine: &QueryEngine, sql: &str) -> String {
    let before = chrono::Utc::now().timestamp_nanos_opt().unwrap_or(0);
    let tr = engine.extract_time_range(sql).await;
    let after = chrono::Utc::now().timestamp_nanos_opt().unwrap_or(0);
    let pr = engine.extract_column_predicates(sql).await;
    let range = match tr {
        Ok(r) => {
            // the "last hour" default is compared as a symbol
            if r.end >= before && r.end <= after && r.end.checked_sub(r.start) == Some(H) {
                "D".to_string()
            } else {
                format!("{},{}", r.start, r.end)
            }
        }
        Err(e) => format!("ERR({})", first_line(&e.to_string())),
    };
    let preds = match pr {
        Ok(ps) => ps.iter().map(canon_cp).collect::<Vec<_>>().join(";"),
        Err(e) => format!("ERR({})", first_line(&e.to_string())),
    };
    format!("range={} preds={}", range, preds)
}

fn impl_plan(case: &UnitCase) -> String {
    let plan = match build_plan(case) {
        Ok(p) => p,
        Err(e) => return format!("PLAN-ERR({})", first_line(&e)),
    };
    let range = match QueryEngine::verif_time_bounds_of_plan(&plan) {
        None => "D".to_string(),
        Some((lo, hi)) => format!("{},{}", lo, hi),
    };
    let preds = QueryEngine::verif_predicates_of_plan(&plan).iter().map(canon_cp).collect::<Vec<_>>().join(";");
    format!("range={} preds={}", range, preds)
}

pub fn first_line(s: &str) -> String {
    s.lines().next().unwrap_or("").chars().take(160).collect()
}

async fn run_unit(engine: &QueryEngine, case: &UnitCase) -> String {
    match case.mode {
        Mode::Sql => {
            use futures::FutureExt;
            let sql = unit_sql(case);
            match std::panic::AssertUnwindSafe(impl_sql(engine, &sql)).catch_unwind().await {
                Ok(s) => s,
                Err(_) => "PANIC".to_string(),
            }
        }
        Mode::Plan => {
            let c = case.clone();
            match csv_common::catch(std::panic::AssertUnwindSafe(move || impl_plan(&c))) {
                Ok(s) => s,
                Err(m) => format!("PANIC({})", first_line(&m)),
            }
        }
    }
}

/// the ColumnPredicates the implementation extracts for the case
async fn impl_preds(engine: &QueryEngine, case: &UnitCase) -> Option<Vec<cardinalsin::metadata::ColumnPredicate>> {
    match case.mode {
        Mode::Sql => engine.extract_column_predicates(&unit_sql(case)).await.ok(),
        Mode::Plan => build_plan(case).ok().map(|p| QueryEngine::verif_predicates_of_plan(&p)),
    }
}

/// Independent unit-level oracles for one case: (a) the extracted time range,
/// through a real QueryNode over one-row chunks; (b) the pushed-down predicates,
/// through the statistics gate on truthful one-row chunk statistics.
async fn unit_oracles(engine: &QueryEngine, case: &UnitCase, thorough_probe: bool) -> Vec<(String, serde_json::Value)> {
    let mut out = Vec::new();
    if let Some(preds) = impl_preds(engine, case).await {
        if let Some(w) = e2e::gate_oracle(case, &preds, thorough_probe).await {
            out.push(("a pushed-down column predicate prunes a chunk that holds a row matching the WHERE clause".to_string(), w));
        }
    }
    if thorough_probe {
        if let Some(sql) = e2e::oracle_for_unit(case).await {
            out.push((format!("QueryNode::query answer differs from the full scan: {}", sql), json!({"failing_sql": sql})));
        }
    }
    out
}

fn unit_json(case: &UnitCase) -> serde_json::Value {
    json!({
        "level": "unit",
        "mode": match case.mode { Mode::Sql => "sql", Mode::Plan => "plan" },
        "model_line": model_line(case),
        "ast": ast_line(case),
        "sql": if case.mode == Mode::Sql { unit_sql(case) } else { String::new() },
        "shape": case.shape,
    })
}

fn main() {
    let args = Args::parse();
    if std::env::var("VERIF_SHOW_PANICS").is_err() {
        csv_common::quiet_panics();
    }
    let rt = tokio::runtime::Builder::new_current_thread().enable_all().build().unwrap();
    let mut model = Model::spawn(&args.model);
    let mut report = Report::new("C04");
    let thorough = args.thorough();

    if let Some(path) = &args.replay {
        let txt = std::fs::read_to_string(path).expect("replay file");
        let v: serde_json::Value = serde_json::from_str(&txt).expect("replay json");
        let case = if v.get("case").map(|c| c.is_object()).unwrap_or(false) { v["case"].clone() } else { v.clone() };
        let code = rt.block_on(replay(&case, &mut model));
        std::process::exit(code);
    }

    // ------------------------------------------------------------ unit level
    let engine = rt.block_on(fresh_engine());
    let n_unit = if thorough { 60_000 } else { 8_000 };
    let mut rng = Rng::new(args.seed);
    let mut cases: Vec<(String, UnitCase)> = unit_corpus().into_iter().map(|c| ("corpus".to_string(), c)).collect();
    for _ in 0..n_unit {
        let mut r = rng.fork();
        cases.push(("random".to_string(), gen_unit_case(&mut r)));
    }
    let mut n_done = 0usize;
    for (origin, case) in cases {
        let line = model_line(&case);
        let nontrivial = case.filters.iter().any(|f| f.mentions_ts() || f.has_label());
        let key = format!("{:?}|{}", case.mode, line);
        report.case(if nontrivial { Some(&key) } else { None });
        report.bump(&format!("unit.origin.{}", origin));
        report.bump(&format!("unit.mode.{:?}", case.mode));
        for f in &case.filters {
            f.histogram(&mut report);
        }
        let impl_out = rt.block_on(run_unit(&engine, &case));
        report.impl_runs += 1;
        let (differs, model_out) = model.differs(&line, &impl_out);
        if impl_out.contains("range=D") {
            report.bump("unit.range.default");
        } else if impl_out.contains("-9223372036854775808,9223372036854775807") {
            report.bump("unit.range.unbounded");
        } else {
            report.bump("unit.range.bounded");
        }
        if !impl_out.ends_with("preds=") {
            report.bump("unit.preds.nonempty");
        }
        report.sample(json!({"case": unit_json(&case), "impl": impl_out, "model": model_out}));
        // cheap independent oracle on every case that pushes predicates down (also when model and code agree)
        if !impl_out.ends_with("preds=") && !impl_out.contains("preds=ERR") {
            for (what, w) in rt.block_on(unit_oracles(&engine, &case, false)) {
                report.bump("unit.gate_oracle.failed");
                let already = report.oracle_violations.iter().filter(|v| v["what"].as_str() == Some(what.as_str())).count();
                if already < 5 {
                    let mut cj = unit_json(&case);
                    cj["witness"] = w;
                    report.oracle_violation("", &what, cj);
                    report.write(&args.out);
                }
            }
            report.bump("unit.gate_oracle.evaluated");
        }
        if differs {
            report.bump("unit.disagreements_total");
        }
        if differs && report.disagreements.len() < 20 {
            // shrink the predicate trees, keeping the disagreement (bounded; the first six only)
            let mut cur = case.clone();
            let mut progress = true;
            let mut budget = if report.disagreements.len() < 6 { 120 } else { 0 };
            while progress && budget > 0 {
                progress = false;
                for cand in shrink_unit(&cur) {
                    budget -= 1;
                    let i = rt.block_on(run_unit(&engine, &cand));
                    if model.differs(&model_line(&cand), &i).0 {
                        cur = cand;
                        progress = true;
                        break;
                    }
                    if budget == 0 {
                        break;
                    }
                }
            }
            let si = rt.block_on(run_unit(&engine, &cur));
            let sm = model.ask(&model_line(&cur));
            // does the disagreement make the implementation wrong on concrete rows?
            let deep = report.disagreements.len() < 6;
            let mut verdicts = rt.block_on(unit_oracles(&engine, &cur, deep));
            if verdicts.is_empty() && model_line(&cur) != line {
                verdicts = rt.block_on(unit_oracles(&engine, &case, deep));
            }
            for (what, w) in &verdicts {
                let mut cj = unit_json(&cur);
                cj["witness"] = w.clone();
                report.oracle_violation("", what, cj);
            }
            report.disagreement(json!({
                "correspondence": "Model/TimeExtract.v (extract / plan_preds) vs QueryEngine::extract_time_range / extract_column_predicates",
                "case": unit_json(&case), "impl": impl_out, "model": model_out,
                "shrunk": unit_json(&cur), "shrunk_impl": si, "shrunk_model": sm,
                "oracle_failed": !verdicts.is_empty(),
                "oracle_verdicts": verdicts.iter().map(|(w, _)| w.clone()).collect::<Vec<_>>(),
            }));
            report.write(&args.out);
        }
        n_done += 1;
        if n_done % 2000 == 0 {
            report.write(&args.out);
        }
        if e2e::unclassified(&report) >= e2e::MAX_UNCLASSIFIED {
            report.notes.push(format!("unit level stopped after {} cases: {} concrete failing inputs", n_done, e2e::unclassified(&report)));
            break;
        }
    }

    // ---------------------------------------------------------- end to end
    rt.block_on(e2e::run_all(&args, &mut model, &mut report));

    report.notes.push(format!("model calls: {}", model.calls));
    report.write(&args.out);
}

async fn replay(case: &serde_json::Value, model: &mut Model) -> i32 {
    match case["level"].as_str().unwrap_or("") {
        "unit" => {
            let ast = case["ast"].as_str().unwrap_or("").to_string();
            let mode = if case["mode"].as_str() == Some("plan") { Mode::Plan } else { Mode::Sql };
            let shape = case["shape"].as_u64().unwrap_or(0) as usize;
            let Some(uc) = parse_ast_line(&ast, mode, shape) else {
                println!("cannot parse case {}", ast);
                return 1;
            };
            let line = model_line(&uc);
            let engine = fresh_engine().await;
            let i = run_unit(&engine, &uc).await;
            let m = model.ask(&line);
            println!("case : {}\nsql  : {}\nimpl : {}\nmodel: {}", line, if mode == Mode::Sql { unit_sql(&uc) } else { "(plan)".into() }, i, m);
            let verdicts = unit_oracles(&engine, &uc, true).await;
            for (what, w) in &verdicts {
                println!("oracle: {}\n{}", what, serde_json::to_string_pretty(w).unwrap_or_default());
            }
            if (!model.is_null() && i != m) || !verdicts.is_empty() { 1 } else { 0 }
        }
        "e2e" | "e2e-corpus" => e2e::replay(case, model).await,
        other => {
            println!("unknown replay level {:?}", other);
            1
        }
    }
}
