use arrow_array::{Float64Array, Int64Array, RecordBatch, StringArray, TimestampNanosecondArray};
use arrow_schema::{DataType, Field, Schema, TimeUnit};
use cardinalsin::ingester::{Ingester, IngesterConfig};
use cardinalsin::metadata::{LocalMetadataClient, MetadataClient};
use cardinalsin::query::{QueryConfig, QueryNode};
use cardinalsin::schema::MetricSchema;
use cardinalsin::StorageConfig;
use object_store::memory::InMemory;
use std::sync::Arc;

fn batch_ts(ts: Vec<i64>, tsty: bool) -> RecordBatch {
    let n = ts.len();
    let names: Vec<String> = (0..n).map(|i| if i % 2 == 0 { "cpu".into() } else { "mem".into() }).collect();
    let hosts: Vec<String> = (0..n).map(|i| format!("h{}", i % 3)).collect();
    let vals: Vec<f64> = (0..n).map(|i| i as f64).collect();
    if tsty {
        let schema = Arc::new(Schema::new(vec![
            Field::new("timestamp", DataType::Timestamp(TimeUnit::Nanosecond, Some("UTC".into())), false),
            Field::new("metric_name", DataType::Utf8, false),
            Field::new("value_f64", DataType::Float64, true),
            Field::new("host", DataType::Utf8, true),
        ]));
        RecordBatch::try_new(schema, vec![
            Arc::new(TimestampNanosecondArray::from(ts).with_timezone("UTC")),
            Arc::new(StringArray::from(names)), Arc::new(Float64Array::from(vals)), Arc::new(StringArray::from(hosts))]).unwrap()
    } else {
        let schema = Arc::new(Schema::new(vec![
            Field::new("timestamp", DataType::Int64, false),
            Field::new("metric_name", DataType::Utf8, false),
            Field::new("value_f64", DataType::Float64, true),
            Field::new("host", DataType::Utf8, true),
        ]));
        RecordBatch::try_new(schema, vec![
            Arc::new(Int64Array::from(ts)),
            Arc::new(StringArray::from(names)), Arc::new(Float64Array::from(vals)), Arc::new(StringArray::from(hosts))]).unwrap()
    }
}

fn main() {
    let rt = tokio::runtime::Builder::new_current_thread().enable_all().build().unwrap();
    let tsty = std::env::args().nth(1).map(|s| s == "ts").unwrap_or(false);
    rt.block_on(async {
        let object_store = Arc::new(InMemory::new());
        let metadata: Arc<dyn MetadataClient> = Arc::new(LocalMetadataClient::new());
        let storage_config = StorageConfig::default();
        let cfg = IngesterConfig { flush_row_count: 1, ..Default::default() };
        let ing = Ingester::new(cfg, object_store.clone(), metadata.clone(), storage_config.clone(), MetricSchema::default_metrics());
        ing.write(batch_ts(vec![1, 5, 10], tsty)).await.unwrap();
        ing.write(batch_ts(vec![100, 150, 200], tsty)).await.unwrap();
        ing.write(batch_ts(vec![1000, 5000], tsty)).await.unwrap();
        println!("chunks: {:?}", metadata.list_chunks().await.unwrap().len());
        let qn = QueryNode::new(QueryConfig::default(), object_store.clone(), metadata.clone(), storage_config.clone()).await.unwrap();
        let sqls = [
            "SELECT * FROM metrics WHERE host NOT BETWEEN 'h0' AND 'h1'",
            "SELECT * FROM metrics WHERE host BETWEEN 'h0' AND 'h1'",
            "SELECT * FROM metrics WHERE host = 'h1' OR NOT (metric_name != 'cpu')",
            "SELECT * FROM metrics WHERE host IN ('h1','h2') AND value_f64 > 1.5",
            "SELECT * FROM (SELECT * FROM metrics WHERE timestamp >= 0 AND timestamp <= 1000) WHERE host = 'h1'",
            "SELECT * FROM (SELECT * FROM metrics WHERE host = 'h1') WHERE timestamp >= 0 AND timestamp <= 1000",
            "SELECT * FROM (SELECT * FROM metrics WHERE timestamp >= 5) WHERE timestamp <= 150",
            "SELECT * FROM metrics WHERE timestamp >= -9223372036854775808 AND timestamp <= 10",
            "SELECT * FROM metrics WHERE timestamp >= - 5 AND timestamp <= +10",
            "SELECT DISTINCT host FROM metrics WHERE timestamp >= 0 AND timestamp <= 1000",
            "SELECT host, count(*) AS c FROM metrics WHERE timestamp >= 0 AND timestamp <= 1000 GROUP BY host HAVING count(*) > 0 ORDER BY host LIMIT 5",
            "SELECT * FROM metrics WHERE timestamp >= 0 AND timestamp <= 1000 AND host IS NULL",
            "SELECT * FROM metrics WHERE (timestamp >= 0 AND timestamp <= 1000) AND true",
            "SELECT * FROM metrics WHERE timestamp >= 5 + 5 AND timestamp <= 1000",
            "SELECT * FROM metrics WHERE timestamp >= 5.0 AND timestamp <= 1000",
            "SELECT * FROM metrics WHERE \"time\" >= 5",
            "SELECT * FROM metrics WHERE host = 'h1'",
        ];
        for sql in sqls {
            let tr = qn.engine.extract_time_range(sql).await;
            let pr = qn.engine.extract_column_predicates(sql).await;
            let plan = qn.engine.analyze(sql).await;
            println!("SQL: {}", sql);
            match plan { Ok(p) => println!("  plan: {}", p.display_indent().to_string().replace('\n', " | ")), Err(e) => println!("  plan err {}", e) }
            println!("  range: {:?}", tr.map(|r| (r.start, r.end)));
            println!("  preds: {:?}", pr);
            let res = qn.query(sql).await;
            match res {
                Ok(b) => println!("  rows: {}", b.iter().map(|x| x.num_rows()).sum::<usize>()),
                Err(e) => println!("  query err: {}", e),
            }
        }
    });
}
