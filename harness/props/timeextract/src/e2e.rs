//! End-to-end level of the C04 check: real Ingester -> chunk files + catalog ->
//! QueryNode::query(sql) versus the same SQL on a MemTable of all ingested rows.
use crate::ast::*;
use crate::{first_line, H};
use arrow_array::{Array, Float64Array, Int64Array, RecordBatch, StringArray, TimestampNanosecondArray};
use arrow_schema::{DataType, Field, Schema, SchemaRef, TimeUnit};
use cardinalsin::adaptive_index::{AdaptiveIndexConfig, AdaptiveIndexController, IndexType};
use cardinalsin::compactor::{Compactor, CompactorConfig};
use cardinalsin::ingester::{Ingester, IngesterConfig};
use cardinalsin::metadata::{ColumnPredicate, ColumnStats, LocalMetadataClient, MetadataClient, ObjectStoreMetadataClient, ObjectStoreMetadataConfig};
use cardinalsin::query::{QueryConfig, QueryNode};
use cardinalsin::schema::MetricSchema;
use cardinalsin::StorageConfig;
use csv_common::{Args, Model, Report, Rng};
use datafusion::datasource::MemTable;
use datafusion::prelude::SessionContext;
use object_store::memory::InMemory;
use object_store::ObjectStore;
use serde_json::json;
use std::sync::Arc;

#[derive(Clone, Copy, Debug, PartialEq)]
pub enum TsKind {
    Int,
    Nano,
}

#[derive(Clone, Debug)]
pub struct DsCfg {
    pub kind: TsKind,
    pub class: u64,
    pub object_store_backend: bool,
    pub compaction: bool,
    pub adaptive: bool,
    pub flush_rows: usize,
    pub n_rows: usize,
    /// truthful column statistics planted into the catalog (object-store backend only)
    pub stats: bool,
    /// rows written in ascending timestamp order in batches of 1-2: chunks lie inside one clock hour
    pub narrow: bool,
}

pub struct Env {
    pub cfg: DsCfg,
    pub rows: Vec<Row>,
    pub vals: Vec<i64>,
    pub store: Arc<InMemory>,
    pub metadata: Arc<dyn MetadataClient>,
    pub storage: StorageConfig,
    pub reference: SessionContext,
    pub chunks: usize,
    pub compaction_result: String,
    /// number of catalog entries that received planted statistics
    pub stats_planted: usize,
}

fn schema_for(kind: TsKind) -> SchemaRef {
    let ts = match kind {
        TsKind::Int => DataType::Int64,
        TsKind::Nano => DataType::Timestamp(TimeUnit::Nanosecond, Some("UTC".into())),
    };
    Arc::new(Schema::new(vec![
        Field::new("timestamp", ts, false),
        Field::new("metric_name", DataType::Utf8, false),
        Field::new("host", DataType::Utf8, true),
        Field::new("env", DataType::Utf8, true),
        Field::new("value_f64", DataType::Float64, true),
        Field::new("value_i64", DataType::Int64, false),
    ]))
}

fn batch_of(kind: TsKind, rows: &[&Row]) -> RecordBatch {
    let ts: Vec<i64> = rows.iter().map(|r| r.ts).collect();
    let ts_arr: Arc<dyn Array> = match kind {
        TsKind::Int => Arc::new(Int64Array::from(ts)),
        TsKind::Nano => Arc::new(TimestampNanosecondArray::from(ts).with_timezone("UTC")),
    };
    RecordBatch::try_new(
        schema_for(kind),
        vec![
            ts_arr,
            Arc::new(StringArray::from(rows.iter().map(|r| r.metric.clone()).collect::<Vec<_>>())),
            Arc::new(StringArray::from(rows.iter().map(|r| r.host.clone()).collect::<Vec<Option<String>>>())),
            Arc::new(StringArray::from(rows.iter().map(|r| r.env.clone()).collect::<Vec<Option<String>>>())),
            Arc::new(Float64Array::from(rows.iter().map(|r| r.vf).collect::<Vec<Option<f64>>>())),
            Arc::new(Int64Array::from(rows.iter().map(|r| r.id).collect::<Vec<i64>>())),
        ],
    )
    .expect("batch")
}

fn gen_rows(rng: &mut Rng, cfg: &DsCfg) -> Vec<Row> {
    let now0 = chrono::Utc::now().timestamp_nanos_opt().unwrap_or(0);
    let mut rows = Vec::new();
    for id in 0..cfg.n_rows {
        let ts = match cfg.kind {
            TsKind::Int => match cfg.class {
                0 => match rng.below(4) {
                    0 => *rng.pick(&[0i64, 5, 10, 100, 150, 200, 1000]),
                    1 => rng.range_i64(-20, 1200),
                    2 => *rng.pick(&[4i64, 6, 9, 11, 99, 101, 199, 201, 999, 1001]),
                    _ => rng.range_i64(0, 220),
                },
                1 => {
                    let k = rng.range_i64(-2, 5);
                    k * H + match rng.below(6) {
                        0 => 0,
                        1 => -1,
                        2 => 1,
                        3 => H - 1,
                        4 => H / 2,
                        _ => rng.range_i64(0, H - 1),
                    }
                }
                2 => 1_700_000_000_000_000_000 + rng.range_i64(0, 12) * (H / 4) + rng.range_i64(0, 3) * 1000,
                // pre-epoch: around -1 h, -1 ns, 0, hour boundaries +-1, clusters inside one negative clock hour
                _ => match rng.below(8) {
                    0 => -H + *rng.pick(&[-1i64, 0, 1]),
                    1 => *rng.pick(&[-1i64, 0, 1]),
                    2 => rng.range_i64(-3, 2) * H + *rng.pick(&[-1i64, 0, 1]),
                    // -90 min .. -70 min: inside the clock hour [-2 h, -1 h)
                    3 | 4 => -5_400_000_000_000 + rng.range_i64(0, 20) * 60_000_000_000,
                    // -40 min .. -10 min: inside [-1 h, 0)
                    5 => -2_400_000_000_000 + rng.range_i64(0, 30) * 60_000_000_000,
                    // -170 min .. -130 min: inside [-3 h, -2 h)
                    6 => -10_200_000_000_000 + rng.range_i64(0, 40) * 60_000_000_000,
                    _ => rng.range_i64(-3 * H, 2 * H),
                },
            },
            TsKind::Nano => {
                if rng.chance(1, 6) {
                    // old data: a month back
                    now0 - 30 * 24 * H + rng.range_i64(0, 5) * H + 1_234_567
                } else {
                    // the last three hours and the next one, half a minute off every minute mark
                    now0 + rng.range_i64(-180, 60) * 60_000_000_000 + 30_000_000_000
                }
            }
        };
        rows.push(Row {
            ts,
            metric: rng.pick(&["cpu", "mem", "disk"]).to_string(),
            host: rng.pick(&[None, Some("h0"), Some("h1"), Some("h1"), Some("h2"), Some("h10")]).map(|s| s.to_string()),
            env: rng.pick(&[None, Some("prod"), Some("dev")]).map(|s| s.to_string()),
            vf: if rng.chance(1, 6) { None } else { Some(rng.range_i64(-4, 8) as f64 * 0.5) },
            id: id as i64,
        });
    }
    rows
}

pub async fn build_env(rng: &mut Rng, cfg: &DsCfg, rows: Vec<Row>, groups: Option<Vec<Vec<usize>>>) -> Result<Env, String> {
    let store = Arc::new(InMemory::new());
    let storage = StorageConfig::default();
    let os_client: Option<Arc<ObjectStoreMetadataClient>> = if cfg.object_store_backend {
        Some(Arc::new(ObjectStoreMetadataClient::new(store.clone() as Arc<dyn ObjectStore>, ObjectStoreMetadataConfig::default())))
    } else {
        None
    };
    let metadata: Arc<dyn MetadataClient> = match &os_client {
        Some(c) => c.clone(),
        None => Arc::new(LocalMetadataClient::new()),
    };
    let mut icfg = IngesterConfig { flush_row_count: cfg.flush_rows, ..Default::default() };
    icfg.wal.enabled = false;
    let ingester = Ingester::new(icfg, store.clone(), metadata.clone(), storage.clone(), MetricSchema::default_metrics());

    // write order: shuffled, ascending or descending timestamps
    let mut order: Vec<usize> = (0..rows.len()).collect();
    match if cfg.narrow { 1 } else { rng.below(3) } {
        0 => {
            for i in (1..order.len()).rev() {
                let j = rng.below(i as u64 + 1) as usize;
                order.swap(i, j);
            }
        }
        1 => order.sort_by_key(|&i| rows[i].ts),
        _ => order.sort_by_key(|&i| std::cmp::Reverse(rows[i].ts)),
    }
    let mut batches = Vec::new();
    let groups: Vec<Vec<usize>> = match groups {
        Some(g) => g,
        None => {
            let mut g = Vec::new();
            let mut i = 0;
            while i < order.len() {
                let max_batch = if cfg.narrow || cfg.stats { 2 } else { 4 };
                let n = rng.range_usize(1, max_batch).min(order.len() - i);
                g.push(order[i..i + n].to_vec());
                i += n;
            }
            g
        }
    };
    for grp in &groups {
        let part: Vec<&Row> = grp.iter().map(|&k| &rows[k]).collect();
        let b = batch_of(cfg.kind, &part);
        ingester.write(b.clone()).await.map_err(|e| format!("ingest: {}", e))?;
        batches.push(b);
    }
    // flush what is still buffered (shutdown path of the flush timer)
    ingester.shutdown_token().cancel();
    ingester.run_flush_timer().await;

    let mut compaction_result = String::from("none");
    if cfg.compaction {
        let ccfg = CompactorConfig { l0_merge_threshold: 2, retention_days: u32::MAX, sharding_enabled: false, ..Default::default() };
        let compactor = Compactor::new(ccfg, store.clone(), metadata.clone(), storage.clone(), ingester.shard_monitor().clone());
        compaction_result = match compactor.run_compaction_cycle().await {
            Ok(()) => "ok".to_string(),
            Err(e) => format!("err({})", first_line(&e.to_string())),
        };
    }
    let chunks = metadata.list_chunks().await.map_err(|e| e.to_string())?.len();
    let mut stats_planted = 0;
    if cfg.stats {
        if let Some(c) = &os_client {
            stats_planted = plant_stats(&store, c, &rows).await?;
        }
    }

    let reference = SessionContext::new();
    let table = MemTable::try_new(schema_for(cfg.kind), vec![batches.clone()]).map_err(|e| e.to_string())?;
    reference.register_table("metrics", Arc::new(table)).map_err(|e| e.to_string())?;

    let mut vals: Vec<i64> = rows.iter().map(|r| r.ts).collect();
    vals.sort();
    vals.dedup();
    Ok(Env { cfg: cfg.clone(), rows, vals, store, metadata, storage, reference, chunks, compaction_result, stats_planted })
}

/// truthful min/max statistics of the label / value columns over a set of rows
pub fn truthful_stats(rows: &[&Row]) -> std::collections::HashMap<String, ColumnStats> {
    let mut m = std::collections::HashMap::new();
    let mut put_str = |name: &str, vals: Vec<Option<&str>>| {
        let present: Vec<&str> = vals.iter().flatten().copied().collect();
        if let (Some(mn), Some(mx)) = (present.iter().min(), present.iter().max()) {
            m.insert(name.to_string(), ColumnStats { min: json!(mn), max: json!(mx), has_nulls: present.len() < vals.len() });
        }
    };
    put_str("host", rows.iter().map(|r| r.host.as_deref()).collect());
    put_str("env", rows.iter().map(|r| r.env.as_deref()).collect());
    put_str("metric_name", rows.iter().map(|r| Some(r.metric.as_str())).collect());
    let vf: Vec<f64> = rows.iter().filter_map(|r| r.vf).collect();
    if !vf.is_empty() {
        let mn = vf.iter().cloned().fold(f64::INFINITY, f64::min);
        let mx = vf.iter().cloned().fold(f64::NEG_INFINITY, f64::max);
        m.insert("value_f64".to_string(), ColumnStats { min: json!(mn), max: json!(mx), has_nulls: vf.len() < rows.len() });
    }
    if let (Some(mn), Some(mx)) = (rows.iter().map(|r| r.id).min(), rows.iter().map(|r| r.id).max()) {
        m.insert("value_i64".to_string(), ColumnStats { min: json!(mn), max: json!(mx), has_nulls: false });
    }
    m
}

/// Reads every live chunk file back, computes the statistics of the rows it
/// really holds and stores them in the catalog (public load/save_chunk_metadata).
async fn plant_stats(store: &Arc<InMemory>, client: &Arc<ObjectStoreMetadataClient>, rows: &[Row]) -> Result<usize, String> {
    use parquet::arrow::arrow_reader::ParquetRecordBatchReaderBuilder;
    let mut meta = client.load_chunk_metadata().await.map_err(|e| format!("load_chunk_metadata: {}", e))?;
    let mut planted = 0;
    for (path, ext) in meta.iter_mut() {
        let bytes = store
            .get(&object_store::path::Path::from(path.as_str()))
            .await
            .map_err(|e| format!("read chunk {}: {}", path, e))?
            .bytes()
            .await
            .map_err(|e| e.to_string())?;
        let reader = ParquetRecordBatchReaderBuilder::try_new(bytes).map_err(|e| e.to_string())?.build().map_err(|e| e.to_string())?;
        let mut ids: Vec<usize> = Vec::new();
        for b in reader {
            let b = b.map_err(|e| e.to_string())?;
            let col = b.column_by_name("value_i64").ok_or("chunk without value_i64")?;
            let a = col.as_any().downcast_ref::<Int64Array>().ok_or("value_i64 not Int64")?;
            for i in 0..a.len() {
                ids.push(a.value(i) as usize);
            }
        }
        let held: Vec<&Row> = ids.iter().filter_map(|i| rows.get(*i)).collect();
        ext.column_stats = truthful_stats(&held);
        planted += 1;
    }
    client.save_chunk_metadata(&meta).await.map_err(|e| format!("save_chunk_metadata: {}", e))?;
    Ok(planted)
}

pub async fn new_node(env: &Env, adaptive: bool) -> QueryNode {
    let qc = QueryConfig { l1_cache_size: 64 * 1024 * 1024, l2_cache_size: 64 * 1024 * 1024, l2_cache_dir: None, ..Default::default() };
    let node = QueryNode::new(qc, env.store.clone(), env.metadata.clone(), env.storage.clone()).await.expect("query node");
    if adaptive {
        let ctl = Arc::new(AdaptiveIndexController::new(AdaptiveIndexConfig::default()));
        // one visible index on `host`, one invisible on `timestamp`
        if let Ok(id) = ctl.lifecycle_manager.create_invisible_index("default".to_string(), "host".to_string(), IndexType::Inverted).await {
            for _ in 0..100 {
                ctl.lifecycle_manager.record_would_have_helped(&id);
            }
            let _ = ctl.lifecycle_manager.visibility_check(&id).await;
        }
        let _ = ctl.lifecycle_manager.create_invisible_index("default".to_string(), "timestamp".to_string(), IndexType::Range).await;
        node.with_adaptive_indexing(ctl)
    } else {
        node
    }
}

/// canonical answer: every row as "name=value|...", rows sorted; floats by bits
pub fn canon(batches: &[RecordBatch]) -> Vec<String> {
    let mut out = Vec::new();
    for b in batches {
        let schema = b.schema();
        for i in 0..b.num_rows() {
            let mut cells = Vec::new();
            for (c, f) in schema.fields().iter().enumerate() {
                let col = b.column(c);
                let v = if col.is_null(i) {
                    "NULL".to_string()
                } else if let Some(fa) = col.as_any().downcast_ref::<Float64Array>() {
                    format!("f64:{:016x}", fa.value(i).to_bits())
                } else {
                    arrow::util::display::array_value_to_string(col, i).unwrap_or_else(|e| format!("?{}", e))
                };
                cells.push(format!("{}={}", f.name(), v));
            }
            out.push(cells.join("|"));
        }
    }
    out.sort();
    out
}

pub type Answer = Result<Vec<String>, String>;

pub async fn run_node(node: &QueryNode, sql: &str) -> Answer {
    match node.query(sql).await {
        Ok(b) => Ok(canon(&b)),
        Err(e) => Err(first_line(&e.to_string())),
    }
}
pub async fn run_reference(env: &Env, sql: &str) -> Answer {
    match env.reference.sql(sql).await {
        Ok(df) => match df.collect().await {
            Ok(b) => Ok(canon(&b)),
            Err(e) => Err(first_line(&e.to_string())),
        },
        Err(e) => Err(first_line(&e.to_string())),
    }
}

/// `b` is the full-scan answer.  A statement whose full scan is itself an error
/// (e.g. a UInt64 literal that cannot be cast) is outside the family: not judged.
fn same(a: &Answer, b: &Answer) -> bool {
    match (a, b) {
        (Ok(x), Ok(y)) => x == y,
        (_, Err(_)) => true,
        _ => false,
    }
}

fn show(a: &Answer) -> serde_json::Value {
    match a {
        Ok(rows) => json!({"rows": rows.len(), "first": rows.iter().take(6).collect::<Vec<_>>()}),
        Err(e) => json!({"error": e}),
    }
}

// ------------------------------------------------------ query generator ----
fn bx(p: P) -> Box<P> {
    Box::new(p)
}

fn pick_pair(rng: &mut Rng, env: &Env) -> (i64, i64) {
    let g = Gen { int: true, uint: false, ts_lit: false, now: false, others: vec![], atoms: vec![], vals: env.vals.clone(), extremes: false };
    if rng.chance(1, 4) && !env.vals.is_empty() {
        // a window inside the clock hour of a row (floor hour: also before the epoch)
        let v = *rng.pick(&env.vals);
        let floor = v.div_euclid(H).saturating_mul(H);
        let a = v.saturating_sub(rng.range_i64(0, 5) * 60_000_000_000).max(floor);
        let b = v.saturating_add(rng.range_i64(0, 5) * 60_000_000_000).min(floor.saturating_add(H - 1));
        return (a.min(b), a.max(b));
    }
    let a = gen_value(rng, &g);
    let b = match rng.below(6) {
        0 => a,
        1 => a.saturating_add(rng.range_i64(0, 3)),
        2 | 3 => {
            // a window reaching from a to (near) the newest row
            let hi = env.vals.last().copied().unwrap_or(a);
            hi.saturating_sub(rng.range_i64(0, 2))
        }
        _ => gen_value(rng, &g),
    };
    (a.min(b), a.max(b))
}

/// a predicate that semantically confines the timestamp to a finite window
pub fn gen_window(rng: &mut Rng, env: &Env) -> P {
    let (a, b) = pick_pair(rng, env);
    let (c, d) = pick_pair(rng, env);
    match env.cfg.kind {
        TsKind::Int => {
            let i = |v: i64| Lit::Int(v as i128);
            let non_lit = |rng: &mut Rng, v: i64| Lit::Other(*rng.pick(&[0usize, 2]), v);
            match rng.below(13) {
                0 => P::And(bx(P::Cmp(Op::Ge, i(a))), bx(P::Cmp(Op::Le, i(b)))),
                1 => P::Between(false, i(a), i(b)),
                2 => P::And(bx(P::CmpR(Op::Le, i(a))), bx(P::CmpR(Op::Ge, i(b)))),
                3 => P::And(bx(P::Cmp(Op::Gt, i(a.saturating_sub(1)))), bx(P::CmpR(Op::Gt, i(b.saturating_add(1))))),
                4 => P::Cmp(Op::Eq, i(a)),
                5 => P::Or(bx(P::Cmp(Op::Eq, i(a))), bx(P::CmpR(Op::Eq, i(b)))),
                6 => P::Or(bx(P::Between(false, i(a), i(b))), bx(P::Between(false, i(c), i(d)))),
                7 => P::And(bx(P::Cmp(Op::Ge, non_lit(rng, a))), bx(P::Cmp(Op::Le, i(b)))),
                8 => P::And(bx(P::Not(bx(P::Cmp(Op::Lt, i(a))))), bx(P::Not(bx(P::Cmp(Op::Gt, i(b)))))),
                9 => P::Not(bx(P::Or(bx(P::Cmp(Op::Lt, i(a))), bx(P::Cmp(Op::Gt, i(b)))))),
                10 => P::And(bx(P::Between(false, i(a), i(b))), bx(P::Between(true, i(c), i(d)))),
                11 => P::And(bx(P::Cmp(Op::Ge, i(a))), bx(P::And(bx(P::Cmp(Op::Le, i(b))), bx(P::Cmp(Op::Ne, i(c)))))),
                _ => P::And(bx(P::Cmp(Op::Lt, i(b.saturating_add(1)))), bx(P::Or(bx(P::Cmp(Op::Gt, i(a))), bx(P::Cmp(Op::Eq, i(c.min(b))))))),
            }
        }
        TsKind::Nano => {
            let o = |rng: &mut Rng, v: i64| Lit::Other(*rng.pick(&[3usize, 4, 5]), v);
            let mins = |rng: &mut Rng| Lit::Now(*rng.pick(&[-10800i64, -7200, -3600, -1800, -600, 0, 600, 3600]));
            match rng.below(8) {
                0 => P::And(bx(P::Cmp(Op::Ge, o(rng, a))), bx(P::Cmp(Op::Le, o(rng, b)))),
                1 => P::Between(false, o(rng, a), o(rng, b)),
                2 => P::And(bx(P::CmpR(Op::Le, o(rng, a))), bx(P::CmpR(Op::Ge, o(rng, b)))),
                3 => P::And(bx(P::Cmp(Op::Gt, mins(rng))), bx(P::Cmp(Op::Le, Lit::Now(3600)))),
                4 => P::Between(false, Lit::Now(-3 * 3600), mins(rng)),
                5 => P::Or(bx(P::Between(false, o(rng, a), o(rng, b))), bx(P::Cmp(Op::Eq, o(rng, c)))),
                6 => P::And(bx(P::Not(bx(P::Cmp(Op::Lt, o(rng, a))))), bx(P::Not(bx(P::Cmp(Op::Gt, o(rng, b)))))),
                _ => P::And(bx(P::Cmp(Op::Ge, o(rng, a))), bx(P::Cmp(Op::Lt, mins(rng)))),
            }
        }
    }
}

fn extra_gen(env: &Env) -> Gen {
    match env.cfg.kind {
        TsKind::Int => Gen { int: true, uint: false, ts_lit: false, now: false, others: vec![0, 1, 2, 6, 7], atoms: (0..HAVING_ATOM).collect(), vals: env.vals.clone(), extremes: true },
        TsKind::Nano => Gen { int: false, uint: false, ts_lit: false, now: true, others: vec![3, 4, 5, 6], atoms: (0..HAVING_ATOM).collect(), vals: env.vals.clone(), extremes: false },
    }
}

/// statement over the metrics table whose WHERE clause confines the timestamp
pub fn gen_query(rng: &mut Rng, env: &Env) -> UnitCase {
    let g = extra_gen(env);
    let w = gen_window(rng, env);
    let shape = *rng.pick(&[0usize, 0, 0, 1, 2, 3, 4, 5, 5, 5, 6, 6, 8]);
    let extra = |rng: &mut Rng| {
        if rng.chance(1, 3) {
            gen_biased(rng, &g)
        } else {
            let depth = rng.range_usize(1, 3);
            gen_pred(rng, &g, depth)
        }
    };
    let conv_atoms = [0usize, 2, 3, 4, 5, 6, 7, 8, 11, 13, 14];
    let nonconv_atoms = [1usize, 9, 10, 12];
    let ga = Gen { int: false, uint: false, ts_lit: false, now: false, others: vec![], atoms: conv_atoms.to_vec(), vals: vec![], extremes: false };
    // a predicate mixing label comparisons with timestamp comparisons (what the pushdown extraction must not strengthen)
    let label_mix = |rng: &mut Rng| -> P {
        let lab = P::Label(*rng.pick(&conv_atoms));
        let non = P::Label(*rng.pick(&nonconv_atoms));
        let cut = {
            let gi = Gen { int: g.int, uint: false, ts_lit: false, now: g.now, others: g.others.clone(), atoms: vec![], vals: env.vals.clone(), extremes: false };
            let l = gen_lit(rng, &gi);
            if rng.chance(1, 2) { P::Cmp(*rng.pick(&[Op::Ge, Op::Lt, Op::Le, Op::Gt]), l) } else { P::CmpR(*rng.pick(&[Op::Ge, Op::Lt]), l) }
        };
        match rng.below(9) {
            0 => P::Or(bx(lab), bx(cut)),
            1 => P::Or(bx(cut), bx(lab)),
            2 => P::Or(bx(lab), bx(non)),
            3 => P::Or(bx(non), bx(lab)),
            4 => P::Not(bx(P::And(bx(lab), bx(cut)))),
            5 => P::Or(bx(P::And(bx(lab), bx(cut.clone()))), bx(P::Not(bx(cut)))),
            6 => P::Or(bx(lab), bx(P::Or(bx(P::Label(*rng.pick(&conv_atoms))), bx(cut)))),
            7 => gen_labels_only(rng, &ga, 3),
            _ => P::And(bx(lab), bx(P::Or(bx(P::Label(*rng.pick(&conv_atoms))), bx(non)))),
        }
    };
    let mix_mode = rng.chance(1, if env.cfg.stats { 2 } else { 5 });
    let filters = if shape == 5 || shape == 6 {
        // two Filter nodes: the window in one of them
        let other = if mix_mode { label_mix(rng) } else { extra(rng) };
        if rng.chance(1, 2) {
            vec![w, other]
        } else {
            vec![other, w]
        }
    } else if mix_mode {
        let m = label_mix(rng);
        let p = match rng.below(3) {
            0 => P::And(bx(w), bx(m)),
            1 => P::And(bx(m), bx(w)),
            _ => P::And(bx(P::And(bx(extra(rng)), bx(w))), bx(m)),
        };
        vec![p.clone(), p]
    } else {
        let p = match rng.below(5) {
            0 => w,
            1 => P::And(bx(w), bx(extra(rng))),
            2 => P::And(bx(extra(rng)), bx(w)),
            3 => P::And(bx(P::And(bx(extra(rng)), bx(w))), bx(extra(rng))),
            _ => P::And(bx(w), bx(P::Or(bx(extra(rng)), bx(extra(rng))))),
        };
        vec![p.clone(), p]
    };
    UnitCase { mode: Mode::Sql, filters, shape }
}

// --------------------------------------------------------------- checks ----
/// Executable classifier of the known-finding classes (the Rust replica of
/// `known_empty_selection_schema` of Model/TimeExtract.v; the extracted Coq
/// function is asked as well and both must agree).
pub fn known_class_replica(bound_is_int: bool, data_is_int: bool, selected: usize) -> &'static str {
    if selected == 0 && bound_is_int != data_is_int {
        "empty-selection-schema-of-earlier-registration"
    } else {
        "none"
    }
}

/// timestamp column type of the table currently bound to `metrics` on this node
async fn bound_is_int(node: &QueryNode) -> bool {
    match node.engine.context().table("metrics").await {
        Ok(df) => df
            .schema()
            .fields()
            .iter()
            .find(|f| f.name() == "timestamp")
            .map(|f| f.data_type() == &DataType::Int64)
            .unwrap_or(false),
        Err(_) => false,
    }
}

/// number of chunks the node selects for the statement (the same calls query_for_tenant makes)
async fn selected_chunks(env: &Env, node: &QueryNode, sql: &str) -> Option<usize> {
    let tr = node.engine.extract_time_range(sql).await.ok()?;
    let preds = node.engine.extract_column_predicates(sql).await.ok()?;
    env.metadata.get_chunks_with_predicates(tr, &preds).await.ok().map(|v| v.len())
}

/// class of a violating run on `node` (state taken BEFORE the statement ran)
async fn classify(env: &Env, bound_int: bool, selected: Option<usize>, where_sql: &str, model: &mut Model, report: &mut Report) -> String {
    let data_int = env.cfg.kind == TsKind::Int;
    let Some(n) = selected else { return String::new() };
    // the class is about a LEGITIMATELY empty selection: no ingested row may match the WHERE clause
    // (a selection that is empty because pruning dropped a matching chunk is a violation, never known)
    let cnt = run_reference(env, &format!("SELECT count(*) AS n FROM metrics WHERE {}", where_sql)).await;
    if cnt != Ok(vec!["n=0".to_string()]) {
        return String::new();
    }
    let mine = known_class_replica(bound_int, data_int, n);
    let line = format!("K {} {} {}", if bound_int { "i" } else { "n" }, if data_int { "i" } else { "n" }, n);
    let (differs, m) = model.differs(&line, mine);
    if differs {
        report.disagreement(json!({
            "correspondence": "known_empty_selection_schema (Model/TimeExtract.v) vs its Rust replica in the harness",
            "case": {"level": "classifier", "line": line}, "impl": mine, "model": m, "shrunk": line, "oracle_failed": false,
        }));
    }
    if mine == "none" { String::new() } else { mine.to_string() }
}

fn s_line(now: i64, p: &P, rows: &[Row]) -> String {
    let at = atoms();
    let rs: Vec<String> = rows
        .iter()
        .map(|r| {
            let bits: String = at
                .iter()
                .map(|a| match (a.eval)(r) {
                    Some(true) => 'T',
                    Some(false) => 'F',
                    None => 'N',
                })
                .collect();
            format!("{}:{}", r.ts, bits)
        })
        .collect();
    format!("S {} ; {} ; {}", now, p.enc(true), rs.join(" ; "))
}

/// Pred.v row semantics vs DataFusion's three-valued evaluation vs the harness evaluator
async fn semantics_check(env: &Env, p: &P, model: &mut Model, report: &mut Report) {
    let mine: Result<Vec<Option<bool>>, ()> = env.rows.iter().map(|r| p.eval(r)).collect();
    let Ok(mine) = mine else { return };
    let tv = |x: &Option<bool>| match x {
        Some(true) => 'T',
        Some(false) => 'F',
        None => 'N',
    };
    let mine: String = mine.iter().map(tv).collect();
    // DataFusion: SELECT value_i64, (p) AS v
    let sql = format!("SELECT value_i64, ({}) AS v FROM metrics", p.sql());
    let mut df_out = vec!['?'; env.rows.len()];
    match env.reference.sql(&sql).await {
        Ok(df) => match df.collect().await {
            Ok(batches) => {
                for b in &batches {
                    let ids = b.column(0).as_any().downcast_ref::<Int64Array>().expect("ids");
                    let v = b.column(1).as_any().downcast_ref::<arrow_array::BooleanArray>();
                    let Some(v) = v else { return };
                    for i in 0..b.num_rows() {
                        let id = ids.value(i) as usize;
                        df_out[id] = if v.is_null(i) { 'N' } else if v.value(i) { 'T' } else { 'F' };
                    }
                }
            }
            Err(_) => return,
        },
        Err(_) => return,
    }
    let df_out: String = df_out.into_iter().collect();
    report.bump("semantics.checked");
    let line = s_line(0, p, &env.rows);
    let (differs, m) = model.differs(&line, &df_out);
    if differs || mine != df_out {
        report.disagreement(json!({
            "correspondence": "Model/Pred.v (sem: SQL three-valued row semantics) vs DataFusion evaluation of the same predicate",
            "case": {"level": "semantics", "pred": p.enc(false), "sql": sql},
            "impl": df_out, "model": m, "harness_evaluator": mine, "shrunk": p.enc(false), "oracle_failed": false,
        }));
    }
}

pub struct QueryOutcome {
    pub ok: bool,
    /// known-finding class shared by all mismatching runs ("" = unknown: a violation)
    pub class: String,
    pub detail: serde_json::Value,
}

/// the oracle: pipeline answer == full-scan answer, on a warm node (twice) and a cold one.
/// Every mismatch carries the known-finding class of the node state it ran in ("" = none).
pub async fn check_query(env: &Env, warm: &QueryNode, sql: &str, where_sql: &str, also_fresh: bool, model: &mut Model, report: &mut Report) -> (QueryOutcome, Answer) {
    let reference = run_reference(env, sql).await;
    let mut bad = Vec::new();
    let mut classes: Vec<String> = Vec::new();
    let mut runs: Vec<(&str, Option<QueryNode>)> = vec![("first", None), ("repeat (warm cache / same registration)", None)];
    if also_fresh {
        runs.push(("fresh node (cold cache, first registration)", Some(new_node(env, !env.cfg.adaptive).await)));
    }
    for (name, own) in &runs {
        let node: &QueryNode = own.as_ref().unwrap_or(warm);
        let bound = bound_is_int(node).await;
        let got = run_node(node, sql).await;
        if !same(&got, &reference) {
            // classify with the node state before the statement (the selection does not depend on it)
            let selected = selected_chunks(env, node, sql).await;
            let class = if got.is_err() && reference.is_ok() { classify(env, bound, selected, where_sql, model, report).await } else { String::new() };
            bad.push(json!({"run": name, "got": show(&got), "class": class, "bound_timestamp_is_int64": bound, "selected_chunks": selected}));
            classes.push(class);
        }
    }
    let ok = bad.is_empty();
    // the run is a known finding only if every mismatch falls in one known class
    let class = if !classes.is_empty() && classes.iter().all(|c| !c.is_empty() && c == &classes[0]) { classes[0].clone() } else { String::new() };
    (QueryOutcome { ok, class, detail: json!({"sql": sql, "full_scan": show(&reference), "mismatches": bad}) }, reference)
}

/// conjunction of the statement's visible filters, as SQL
fn where_of(case: &UnitCase) -> String {
    visible_filters(case).iter().filter(|f| **f != P::Label(HAVING_ATOM)).map(|f| format!("({})", f.sql())).collect::<Vec<_>>().join(" AND ")
}

/// WHERE text of a plain single-SELECT corpus statement
fn where_of_sql(sql: &str) -> &str {
    let w = sql.split(" WHERE ").nth(1).unwrap_or("true");
    w.split(" GROUP BY ").next().unwrap_or(w)
}

fn ds_cfg(rng: &mut Rng, d: usize) -> DsCfg {
    // even = Int64 timestamps, odd = Timestamp(ns); d % 4 >= 2 = object-store metadata backend.
    // Int64 classes by d/2: small values, pre-epoch (object store), pre-epoch (in memory),
    // hour boundaries (object store), hour boundaries (in memory), 2023-scale values
    let kind = if d % 2 == 0 { TsKind::Int } else { TsKind::Nano };
    let class = match kind {
        TsKind::Int => [0u64, 3, 3, 1, 1, 2][(d / 2) % 6],
        TsKind::Nano => 0,
    };
    let object_store_backend = d % 4 >= 2;
    let stats = object_store_backend && d % 12 != 10;
    let narrow = class == 3 || (stats && d % 3 == 0);
    DsCfg {
        kind,
        class,
        object_store_backend,
        compaction: d % 4 == 1 || d % 8 == 6,
        adaptive: d % 3 == 0,
        flush_rows: if narrow || stats { *rng.pick(&[1usize, 2]) } else { *rng.pick(&[1usize, 2, 3, 5]) },
        n_rows: if stats { rng.range_usize(24, 36) } else { rng.range_usize(28, 48) },
        stats,
        narrow,
    }
}

fn cfg_json(c: &DsCfg) -> serde_json::Value {
    json!({"kind": format!("{:?}", c.kind), "class": c.class, "object_store_backend": c.object_store_backend,
           "compaction": c.compaction, "adaptive": c.adaptive, "flush_rows": c.flush_rows, "n_rows": c.n_rows,
           "planted_column_stats": c.stats, "narrow_chunks": c.narrow})
}

pub async fn run_dataset(seed: u64, d: usize, n_queries: usize, only_query: Option<usize>, model: &mut Model, report: &mut Report) -> bool {
    let mut rng = Rng::new(seed.wrapping_mul(0x9E37_79B9).wrapping_add(d as u64 * 7919 + 13));
    let cfg = ds_cfg(&mut rng, d);
    let rows = gen_rows(&mut rng, &cfg);
    let env = match build_env(&mut rng, &cfg, rows, None).await {
        Ok(e) => e,
        Err(e) => {
            report.oracle_violation("", &format!("could not ingest dataset {}: {}", d, e), json!({"level": "e2e", "seed": seed, "dataset": d, "cfg": cfg_json(&cfg)}));
            return false;
        }
    };
    report.bump(&format!("e2e.dataset.kind.{:?}", cfg.kind));
    report.bump(if cfg.object_store_backend { "e2e.dataset.backend.object_store" } else { "e2e.dataset.backend.in_memory" });
    if cfg.compaction {
        report.bump(&format!("e2e.dataset.compaction.{}", if env.compaction_result == "ok" { "ok" } else { "error" }));
    }
    if cfg.adaptive {
        report.bump("e2e.dataset.adaptive_indexing");
    }
    if cfg.stats {
        report.bump("e2e.dataset.planted_column_stats");
        report.bump_by("e2e.chunks_with_planted_stats", env.stats_planted as u64);
    }
    if cfg.kind == TsKind::Int {
        report.bump(&format!("e2e.dataset.int_class.{}", cfg.class));
        if env.rows.iter().any(|r| r.ts < 0) {
            report.bump(if cfg.object_store_backend { "e2e.dataset.pre_epoch.object_store" } else { "e2e.dataset.pre_epoch.in_memory" });
        }
    }
    report.bump_by("e2e.chunks", env.chunks as u64);
    report.bump_by("e2e.rows", env.rows.len() as u64);
    let warm = new_node(&env, cfg.adaptive).await;
    let mut all_ok = true;
    for q in 0..n_queries {
        let mut qr = rng.fork();
        if only_query.is_none() && unclassified(report) >= MAX_UNCLASSIFIED {
            break;
        }
        if let Some(only) = only_query {
            if only != q {
                continue;
            }
        }
        let case = gen_query(&mut qr, &env);
        if !finite_window(&visible_filters(&case)) {
            report.bump("e2e.generator.window_not_recognised");
        }
        let sql = unit_sql(&case);
        let (out, reference) = check_query(&env, &warm, &sql, &where_of(&case), q % 4 == 0 || only_query.is_some(), model, report).await;
        report.impl_runs += 1;
        // is the statistics gate live for this statement?
        if let (Ok(tr), Ok(preds)) = (warm.engine.extract_time_range(&sql).await, warm.engine.extract_column_predicates(&sql).await) {
            if !preds.is_empty() {
                report.bump("e2e.query.predicates_pushed_down");
                let with = env.metadata.get_chunks_with_predicates(tr.clone(), &preds).await.map(|v| v.len()).unwrap_or(0);
                let without = env.metadata.get_chunks(tr).await.map(|v| v.len()).unwrap_or(0);
                if with < without {
                    report.bump("e2e.query.gate_pruned_a_chunk");
                }
            }
        }
        let nontrivial = matches!(&reference, Ok(rows) if !rows.is_empty());
        let key = format!("e2e|{}|{}", d, sql);
        report.case(if nontrivial { Some(&key) } else { None });
        report.bump(&format!("e2e.shape.{}", case.shape));
        match &reference {
            Ok(rows) if rows.is_empty() => report.bump("e2e.answer.empty"),
            Ok(_) => report.bump("e2e.answer.nonempty"),
            Err(e) => {
                if std::env::var("VERIF_DEBUG").is_ok() {
                    eprintln!("both-error: {} :: {}", sql, e);
                }
                report.bump("e2e.answer.full_scan_is_an_error")
            }
        }
        for f in &case.filters {
            f.histogram(report);
        }
        let case_json = json!({"level": "e2e", "seed": seed, "dataset": d, "query": q, "cfg": cfg_json(&cfg),
                               "chunks": env.chunks, "compaction_result": env.compaction_result, "sql": sql});
        if q < 2 {
            report.sample(json!({"case": case_json, "result": out.detail}));
        }
        if only_query.is_some() {
            println!("{}", serde_json::to_string_pretty(&json!({"case": case_json, "result": out.detail})).unwrap());
        }
        if !out.ok {
            all_ok = false;
            // shrink the WHERE clause while the answers still differ
            let mut cur = case.clone();
            // shrink the first few failures only (each attempt runs fresh nodes)
            let mut budget = if report.oracle_violations.len() < 4 { 40 } else { 0 };
            let mut progress = true;
            while progress && budget > 0 {
                progress = false;
                for cand in shrink_unit(&cur) {
                    // stay inside the property: the WHERE clause must still confine the timestamp
                    if !finite_window(&visible_filters(&cand)) {
                        continue;
                    }
                    budget -= 1;
                    let s = unit_sql(&cand);
                    let (o, _) = check_query(&env, &warm, &s, &where_of(&cand), true, model, report).await;
                    if !o.ok && o.class == out.class {
                        cur = cand;
                        progress = true;
                        break;
                    }
                    if budget == 0 {
                        break;
                    }
                }
            }
            let ssql = unit_sql(&cur);
            let shrunk = ssql != sql;
            let so = if shrunk { check_query(&env, &warm, &ssql, &where_of(&cur), true, model, report).await.0 } else { QueryOutcome { ok: false, class: out.class.clone(), detail: out.detail.clone() } };
            let class = if so.ok { out.class.clone() } else { so.class.clone() };
            if !class.is_empty() {
                report.bump(&format!("e2e.known_finding.{}", class));
            }
            // keep room in the (capped) violation list for unclassified failures
            let already = report.oracle_violations.iter().filter(|v| v["class"].as_str() == Some(class.as_str())).count();
            if class.is_empty() || already < 5 {
                report.oracle_violation(
                    &class,
                    &format!("QueryNode::query answer differs from the full scan of all ingested rows: {}", ssql),
                    json!({"level": "e2e", "seed": seed, "dataset": d, "query": q, "cfg": cfg_json(&cfg), "sql": sql,
                           "shrunk_sql": ssql, "result": out.detail, "shrunk_result": so.detail}),
                );
            }
        }
        // semantics of Model/Pred.v against DataFusion on this dataset
        if cfg.kind == TsKind::Int && only_query.is_none() {
            for f in case.filters.iter().take(1) {
                semantics_check(&env, f, model, report).await;
            }
        }
    }
    all_ok
}

/// Fixed end-to-end cases that always run first: the witnesses of the repaired
/// defects (three chunks [1,10] [100,200] [1000,5000]) and the witness of the
/// open known finding (fresh node, Int64 data, a window that selects no chunk).
pub async fn run_corpus(model: &mut Model, report: &mut Report) {
    let ts = [1i64, 5, 10, 100, 150, 200, 1000, 5000];
    let rows: Vec<Row> = ts
        .iter()
        .enumerate()
        .map(|(i, t)| Row {
            ts: *t,
            metric: if i % 2 == 0 { "cpu".into() } else { "mem".into() },
            host: Some(format!("h{}", i % 3)),
            env: Some("prod".into()),
            vf: Some(i as f64 * 0.5),
            id: i as i64,
        })
        .collect();
    let cfg = DsCfg { kind: TsKind::Int, class: 0, object_store_backend: false, compaction: false, adaptive: false, flush_rows: 1, n_rows: rows.len(), stats: false, narrow: false };
    let mut rng = Rng::new(1);
    let env = match build_env(&mut rng, &cfg, rows, Some(vec![vec![0, 1, 2], vec![3, 4, 5], vec![6, 7]])).await {
        Ok(e) => e,
        Err(e) => {
            report.oracle_violation("", &format!("could not ingest the corpus dataset: {}", e), json!({"level": "e2e-corpus"}));
            return;
        }
    };
    let warm = new_node(&env, false).await;
    // bind the data schema once, as any earlier matching query does
    let _ = run_node(&warm, "SELECT count(*) AS n FROM metrics WHERE timestamp BETWEEN 0 AND 10000").await;
    let witnesses = [
        "SELECT value_i64 FROM metrics WHERE timestamp = 5 OR timestamp = 10",
        "SELECT value_i64 FROM metrics WHERE timestamp < 200 AND (timestamp > 100 OR timestamp = 5)",
        "SELECT value_i64 FROM metrics WHERE 5 = timestamp",
        "SELECT value_i64 FROM metrics WHERE timestamp >= 0 AND NOT (timestamp > 1000)",
        "SELECT value_i64 FROM metrics WHERE timestamp >= CAST(0 AS BIGINT) AND timestamp <= CAST(150 AS BIGINT)",
        "SELECT value_i64 FROM metrics WHERE timestamp IN (5, 10)",
        "SELECT value_i64 FROM metrics WHERE timestamp >= 0.5 AND timestamp <= 1000",
        "SELECT count(*) AS n FROM metrics WHERE timestamp BETWEEN 1 AND 150 AND host NOT BETWEEN 'h0' AND 'h1'",
        "SELECT host, count(*) AS n FROM metrics WHERE (timestamp >= 0 AND timestamp <= 10) OR (timestamp >= 100 AND timestamp <= 200) GROUP BY host",
        "SELECT value_i64 FROM metrics WHERE timestamp NOT BETWEEN 10 AND 20 AND timestamp >= 0 AND timestamp <= 1000",
    ];
    for (k, sql) in witnesses.iter().enumerate() {
        // the fresh node of check_query would fall into the known class only for an empty selection; these select chunks
        let (out, reference) = check_query(&env, &warm, sql, where_of_sql(sql), true, model, report).await;
        report.impl_runs += 1;
        let key = format!("e2e-corpus|{}", sql);
        report.case(if matches!(&reference, Ok(r) if !r.is_empty()) { Some(&key) } else { None });
        report.bump("e2e.corpus.witness");
        if !out.ok {
            report.oracle_violation(&out.class, &format!("QueryNode::query answer differs from the full scan of all ingested rows: {}", sql),
                json!({"level": "e2e-corpus", "witness": k, "sql": sql, "result": out.detail}));
        }
    }
    // open known finding: fresh node (default schema bound), no chunk overlaps [20,30]
    let sql = "SELECT count(*) AS n FROM metrics WHERE timestamp BETWEEN 20 AND 30";
    let fresh = new_node(&env, false).await;
    let bound = bound_is_int(&fresh).await;
    let selected = selected_chunks(&env, &fresh, sql).await;
    let got = run_node(&fresh, sql).await;
    let reference = run_reference(&env, sql).await;
    report.impl_runs += 1;
    report.case(None);
    report.bump("e2e.corpus.known_finding_witness");
    if !same(&got, &reference) {
        let class = if got.is_err() && reference.is_ok() { classify(&env, bound, selected, where_of_sql(sql), model, report).await } else { String::new() };
        report.oracle_violation(&class, &format!("fresh QueryNode over Int64 chunks: {} -> {:?}, full scan -> {:?}", sql, got, reference),
            json!({"level": "e2e-corpus", "witness": "known-finding", "sql": sql, "bound_timestamp_is_int64": bound, "selected_chunks": selected}));
    } else {
        report.notes.push("the witness of known finding empty-selection-schema-of-earlier-registration no longer fails".to_string());
    }
}

/// concrete failing inputs outside every known class: the run stops after about ten
pub fn unclassified(report: &Report) -> usize {
    report.oracle_violations.iter().filter(|v| v["class"].as_str().unwrap_or("") == "").count()
}
pub const MAX_UNCLASSIFIED: usize = 10;

pub async fn run_all(args: &Args, model: &mut Model, report: &mut Report) {
    let (n_datasets, n_queries) = if args.thorough() { (60, 50) } else { (12, 36) };
    run_corpus(model, report).await;
    report.write(&args.out);
    for d in 0..n_datasets {
        if unclassified(report) >= MAX_UNCLASSIFIED {
            report.notes.push(format!("stopped before dataset {}: {} unclassified findings", d, unclassified(report)));
            break;
        }
        run_dataset(args.seed, d, n_queries, None, model, report).await;
        // incremental report: a timeout still leaves what was found so far
        report.write(&args.out);
    }
}

pub async fn replay(case: &serde_json::Value, model: &mut Model) -> i32 {
    if case["level"].as_str() == Some("e2e-corpus") {
        let mut report = Report::new("C04");
        run_corpus(model, &mut report).await;
        let bad: Vec<_> = report.oracle_violations.iter().filter(|v| v["class"].as_str() == Some("")).collect();
        println!("{}", serde_json::to_string_pretty(&report.oracle_violations).unwrap());
        return if bad.is_empty() { 0 } else { 1 };
    }
    let seed = case["seed"].as_u64().unwrap_or(1);
    let d = case["dataset"].as_u64().unwrap_or(0) as usize;
    let q = case["query"].as_u64().unwrap_or(0) as usize;
    let mut report = Report::new("C04");
    let ok = run_dataset(seed, d, q + 1, Some(q), model, &mut report).await;
    if ok {
        0
    } else {
        1
    }
}

/// For a unit-level disagreement: does it make the pipeline answer wrong on a
/// concrete dataset (one row per chunk at and around the literals)?
pub async fn oracle_for_unit(case: &UnitCase) -> Option<String> {
    let fs: Vec<P> = visible_filters(case).into_iter().filter(|f| *f != P::Label(HAVING_ATOM)).collect();
    if fs.is_empty() {
        return None;
    }
    let mut lits = Vec::new();
    for f in &fs {
        f.lits(&mut lits);
    }
    let mut ts: Vec<i64> = vec![0];
    for l in &lits {
        if let Some(v) = l.as_i64() {
            for d in [-1i64, 0, 1] {
                ts.push(v.saturating_add(d));
            }
        }
    }
    ts.sort();
    ts.dedup();
    ts.truncate(16);
    let rows: Vec<Row> = ts
        .iter()
        .enumerate()
        .map(|(i, t)| Row { ts: *t, metric: "cpu".into(), host: Some("h1".into()), env: Some("prod".into()), vf: Some(1.0), id: i as i64 })
        .collect();
    let cfg = DsCfg { kind: TsKind::Int, class: 0, object_store_backend: false, compaction: false, adaptive: false, flush_rows: 1, n_rows: rows.len(), stats: false, narrow: false };
    let mut rng = Rng::new(7);
    // one row per batch so that every row is its own chunk
    let env = {
        let store = Arc::new(InMemory::new());
        let storage = StorageConfig::default();
        let metadata: Arc<dyn MetadataClient> = Arc::new(LocalMetadataClient::new());
        let mut icfg = IngesterConfig { flush_row_count: 1, ..Default::default() };
        icfg.wal.enabled = false;
        let ing = Ingester::new(icfg, store.clone(), metadata.clone(), storage.clone(), MetricSchema::default_metrics());
        let mut batches = Vec::new();
        for r in &rows {
            let b = batch_of(TsKind::Int, &[r]);
            if ing.write(b.clone()).await.is_err() {
                return None;
            }
            batches.push(b);
        }
        let reference = SessionContext::new();
        let Ok(table) = MemTable::try_new(schema_for(TsKind::Int), vec![batches]) else { return None };
        if reference.register_table("metrics", Arc::new(table)).is_err() {
            return None;
        }
        let _ = &mut rng;
        Env { cfg, rows, vals: ts.clone(), store, metadata, storage, reference, chunks: ts.len(), compaction_result: "none".into(), stats_planted: 0 }
    };
    let node = new_node(&env, false).await;
    // bind the data schema first (keeps the known empty-selection class out of this probe)
    let _ = run_node(&node, "SELECT count(*) AS n FROM metrics WHERE timestamp BETWEEN -9223372036854775807 AND 9223372036854775806").await;
    let lo = ts.first().copied().unwrap_or(0).saturating_sub(2);
    let hi = ts.last().copied().unwrap_or(0).saturating_add(2);
    let all = fs.iter().map(|f| f.sql()).collect::<Vec<_>>().join(" AND ");
    // inside the property as it is, or completed to a finite window that keeps every row
    let candidates: Vec<String> = if finite_window(&fs) {
        vec![all]
    } else {
        vec![
            format!("({}) AND timestamp BETWEEN {} AND {}", all, lo, hi),
            format!("timestamp >= {} AND ({}) AND timestamp <= {}", lo, all, hi),
        ]
    };
    for where_ in candidates {
        let sql = format!("SELECT value_i64 FROM metrics WHERE {}", where_);
        let a = run_node(&node, &sql).await;
        let b = run_reference(&env, &sql).await;
        if !same(&a, &b) {
            return Some(format!("{}  [one row per chunk at timestamps {:?}: QueryNode -> {:?}, full scan -> {:?}]", sql, ts, a, b));
        }
    }
    None
}

/// The statistics gate of get_chunks_with_predicates on the predicates the
/// implementation extracted, judged against rows: a chunk (one row, truthful
/// min/max statistics) that the gate prunes must not hold a row on which every
/// visible filter is TRUE (harness three-valued evaluator; DataFusion when the
/// clause is outside the evaluable fragment and `use_engine` is set).
pub async fn gate_oracle(case: &UnitCase, preds: &[ColumnPredicate], use_engine: bool) -> Option<serde_json::Value> {
    if preds.is_empty() {
        return None;
    }
    let fs: Vec<P> = visible_filters(case).into_iter().filter(|f| *f != P::Label(HAVING_ATOM)).collect();
    let mut lits = Vec::new();
    for f in &fs {
        f.lits(&mut lits);
    }
    let mut ts: Vec<i64> = vec![0];
    for l in &lits {
        if let Some(v) = l.as_i64() {
            for d in [-1i64, 0, 1] {
                ts.push(v.saturating_add(d));
            }
        }
    }
    ts.sort();
    ts.dedup();
    ts.truncate(7);
    let mut rows: Vec<Row> = Vec::new();
    for t in &ts {
        for host in [None, Some("h0"), Some("h1"), Some("h2"), Some("h10")] {
            for env in [None, Some("prod"), Some("dev")] {
                for metric in ["cpu", "disk"] {
                    for vf in [None, Some(1.0f64), Some(2.0), Some(3.5)] {
                        let id = rows.len() as i64;
                        rows.push(Row { ts: *t, metric: metric.to_string(), host: host.map(|s| s.to_string()), env: env.map(|s| s.to_string()), vf, id });
                    }
                }
            }
        }
    }
    // which rows satisfy every filter
    let mut sat: Vec<bool> = Vec::with_capacity(rows.len());
    let mut evaluable = true;
    for r in &rows {
        let mut all = true;
        for f in &fs {
            match f.eval(r) {
                Ok(Some(true)) => {}
                Ok(_) => {
                    all = false;
                    break;
                }
                Err(()) => {
                    evaluable = false;
                    break;
                }
            }
        }
        if !evaluable {
            break;
        }
        sat.push(all);
    }
    if !evaluable {
        if !use_engine || case.mode != Mode::Sql {
            return None;
        }
        let refs: Vec<&Row> = rows.iter().collect();
        let ctx = SessionContext::new();
        let table = MemTable::try_new(schema_for(TsKind::Int), vec![vec![batch_of(TsKind::Int, &refs)]]).ok()?;
        ctx.register_table("metrics", Arc::new(table)).ok()?;
        let where_ = fs.iter().map(|f| format!("({})", f.sql())).collect::<Vec<_>>().join(" AND ");
        let batches = ctx.sql(&format!("SELECT value_i64 FROM metrics WHERE {}", where_)).await.ok()?.collect().await.ok()?;
        sat = vec![false; rows.len()];
        for b in &batches {
            let ids = b.column(0).as_any().downcast_ref::<Int64Array>()?;
            for i in 0..ids.len() {
                sat[ids.value(i) as usize] = true;
            }
        }
    }
    for (r, s) in rows.iter().zip(sat.iter()) {
        if !*s {
            continue;
        }
        let stats = truthful_stats(&[r]);
        if !preds.iter().all(|p| p.evaluate_against_stats(&stats)) {
            return Some(json!({
                "pushed_down_predicates": preds.iter().map(|p| format!("{:?}", p)).collect::<Vec<_>>(),
                "where": fs.iter().map(|f| f.sql()).collect::<Vec<_>>(),
                "row": {"timestamp": r.ts, "metric_name": r.metric, "host": r.host, "env": r.env, "value_f64": r.vf},
                "chunk_statistics": stats.iter().map(|(k, v)| (k.clone(), json!({"min": v.min, "max": v.max, "has_nulls": v.has_nulls}))).collect::<serde_json::Map<_, _>>(),
                "verdict": "the gate prunes a one-row chunk whose row satisfies every filter of the statement",
            }));
        }
    }
    None
}
