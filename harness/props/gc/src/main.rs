//! csv-gc — correspondence + oracle for C09 (garbage collection and retention
//! delete only what is safe to delete).
//!
//! A real `Compactor` (with a shared `ChunkPinRegistry`) runs over a SchedStore
//! handle, so every object-store request of a compaction cycle can be parked:
//! the harness interleaves pins, clock ticks, catalog swaps and restarts with
//! the individual DELETE requests of a GC pass.  Wall-clock reads of the code
//! are moved with the `verif_hooks` clock offset; all generated durations are
//! whole seconds and the effective clock is kept half a second past a whole
//! second, so every comparison the code makes is decided by whole seconds.
//!
//! The same history is run through the extracted Coq model (modelrun-gc) and
//! the canonical observations are compared; independently an oracle kept by
//! this harness checks every logged DELETE against catalog history, pin state
//! and schedule, every retention removal against the cut-off, and persisted
//! deletions across restarts.
mod faultmeta;
use cardinalsin::compactor::pins::PinGuard;
use faultmeta::{FaultMeta, Kind};
use cardinalsin::compactor::{ChunkPinRegistry, Compactor, CompactorConfig};
use cardinalsin::ingester::ChunkMetadata;
use cardinalsin::metadata::{
    LocalMetadataClient, MetadataClient, ObjectStoreMetadataClient, ObjectStoreMetadataConfig, TimeRange,
};
use cardinalsin::sharding::{HotShardConfig, ShardMonitor};
use cardinalsin::verif_hooks;
use csv_common::sched::{Action, Controller, Hub};
use csv_common::{ddmin, Args, Model, Report, Rng};
use object_store::memory::InMemory;
use object_store::ObjectStore;
use serde_json::json;
use std::collections::{BTreeMap, BTreeSet};
use std::sync::Arc;
use std::time::Duration;

const S: i64 = 1_000_000_000;
const DAY_S: i64 = 86_400;
const SKEW_S: i64 = 30; // BoundedClock::default(), also read by the constants translator
const PENDING_FILE: &str = "default/metadata/pending-deletions.json";
const KNOWN_CLASS: &str = "pin-toctou";

// ------------------------------------------------------------------ cases ----
#[derive(Clone, Debug, PartialEq)]
enum Ts {
    /// whole seconds relative to the case's time base
    Rel(i64),
    /// absolute nanoseconds
    Abs(i64),
}

#[derive(Clone, Debug, PartialEq)]
enum Op {
    T(i64),
    R { p: u32, mn: Ts, mx: Ts },
    C { tgt: u32, srcs: Vec<u32> },
    GF,
    GD,
    GP,
    G,
    RS,
    /// restart; the new incarnation is configured with this gc_grace_period (seconds)
    RSG(u64),
    PQ { q: u32, s: Ts, e: Ts },
    P { q: u32, ps: Vec<u32> },
    U { q: u32 },
    O,
    /// entries appended to pending-deletions.json by the harness itself (a predecessor whose
    /// clock ran ahead, an operator): paths that the catalog never referenced
    DE { es: Vec<(u32, Ts)> },
    /// arm one metadata fault (before effect) for the compactor: 0 = complete_compaction,
    /// 1 = register_chunk, 2 = delete_chunk
    F(u8),
}

#[derive(Clone, Debug, PartialEq)]
struct Case {
    backend: u8, // 0 = LocalMetadataClient, 1 = ObjectStoreMetadataClient
    grace_s: u64,
    retention_days: u32,
    /// 0 = chunks are dummy objects and the merge threshold is out of reach; n > 0 = chunks are real
    /// Parquet files and run_compaction_cycle really compacts groups of n L0 chunks
    l0: u32,
    ops: Vec<Op>,
}

fn ts_text(t: &Ts) -> String {
    match t {
        Ts::Rel(s) => format!("r{}", s),
        Ts::Abs(n) => format!("a{}", n),
    }
}
fn ts_parse(s: &str) -> Ts {
    if let Some(r) = s.strip_prefix('r') {
        Ts::Rel(r.parse().unwrap())
    } else {
        Ts::Abs(s.trim_start_matches('a').parse().unwrap())
    }
}
fn list_text(v: &[u32]) -> String {
    v.iter().map(|x| x.to_string()).collect::<Vec<_>>().join(",")
}
fn list_parse(s: &str) -> Vec<u32> {
    s.split(',').filter(|x| !x.is_empty()).map(|x| x.parse().unwrap()).collect()
}

fn op_text(o: &Op) -> String {
    match o {
        Op::T(d) => format!("T {}", d),
        Op::R { p, mn, mx } => format!("R {} {} {}", p, ts_text(mn), ts_text(mx)),
        Op::C { tgt, srcs } => format!("C {} {}", tgt, list_text(srcs)),
        Op::GF => "GF".into(),
        Op::GD => "GD".into(),
        Op::GP => "GP".into(),
        Op::G => "G".into(),
        Op::RS => "RS".into(),
        Op::RSG(g) => format!("RSG {}", g),
        Op::PQ { q, s, e } => format!("PQ {} {} {}", q, ts_text(s), ts_text(e)),
        Op::P { q, ps } => format!("P {} {}", q, list_text(ps)),
        Op::U { q } => format!("U {}", q),
        Op::O => "O".into(),
        Op::DE { es } => format!("DE {}", es.iter().map(|(p, t)| format!("{}@{}", p, ts_text(t))).collect::<Vec<_>>().join(",")),
        Op::F(k) => format!("F {}", k),
    }
}

fn case_text(c: &Case) -> String {
    let mut v = vec![format!("b={} g={} r={} l={}", c.backend, c.grace_s, c.retention_days, c.l0)];
    v.extend(c.ops.iter().map(op_text));
    v.join(";")
}

fn case_parse(line: &str) -> Case {
    let mut it = line.split(';');
    let hd = it.next().unwrap_or("");
    let mut c = Case { backend: 0, grace_s: 0, retention_days: 1, l0: 0, ops: vec![] };
    for kv in hd.split(' ') {
        if let Some(v) = kv.strip_prefix("b=") {
            c.backend = v.parse().unwrap();
        } else if let Some(v) = kv.strip_prefix("g=") {
            c.grace_s = v.parse().unwrap();
        } else if let Some(v) = kv.strip_prefix("r=") {
            c.retention_days = v.parse().unwrap();
        } else if let Some(v) = kv.strip_prefix("l=") {
            c.l0 = v.parse().unwrap();
        }
    }
    for t in it {
        let f: Vec<&str> = t.trim().split(' ').collect();
        let op = match f[0] {
            "T" => Op::T(f[1].parse().unwrap()),
            "R" => Op::R { p: f[1].parse().unwrap(), mn: ts_parse(f[2]), mx: ts_parse(f[3]) },
            "C" => Op::C { tgt: f[1].parse().unwrap(), srcs: list_parse(f.get(2).copied().unwrap_or("")) },
            "GF" => Op::GF,
            "GD" => Op::GD,
            "GP" => Op::GP,
            "G" => Op::G,
            "RS" => Op::RS,
            "RSG" => Op::RSG(f[1].parse().unwrap()),
            "PQ" => Op::PQ { q: f[1].parse().unwrap(), s: ts_parse(f[2]), e: ts_parse(f[3]) },
            "P" => Op::P { q: f[1].parse().unwrap(), ps: list_parse(f.get(2).copied().unwrap_or("")) },
            "U" => Op::U { q: f[1].parse().unwrap() },
            "O" => Op::O,
            "DE" => Op::DE {
                es: f.get(1).copied().unwrap_or("").split(',').filter(|x| !x.is_empty())
                    .filter_map(|e| e.split_once('@').map(|(p, t)| (p.parse().unwrap(), ts_parse(t)))).collect(),
            },
            "F" => Op::F(f[1].parse().unwrap()),
            _ => continue,
        };
        c.ops.push(op);
    }
    c
}

thread_local! {
    /// names of the chunks the compactor itself created in this case (uuid paths), ids from 100
    static INTERN: std::cell::RefCell<Vec<String>> = std::cell::RefCell::new(Vec::new());
}
fn intern_reset() {
    INTERN.with(|t| t.borrow_mut().clear());
}
fn intern(s: &str) -> u32 {
    INTERN.with(|t| {
        let mut t = t.borrow_mut();
        if let Some(i) = t.iter().position(|x| x == s) {
            return 100 + i as u32;
        }
        t.push(s.to_string());
        99 + t.len() as u32
    })
}
fn pname(p: u32) -> String {
    if p >= 100 {
        if let Some(s) = INTERN.with(|t| t.borrow().get((p - 100) as usize).cloned()) {
            return s;
        }
    }
    format!("default/data/c{}.parquet", p)
}
fn pid(s: &str) -> Option<u32> {
    if let Some(i) = INTERN.with(|t| t.borrow().iter().position(|x| x == s)) {
        return Some(100 + i as u32);
    }
    s.strip_prefix("default/data/c")?.strip_suffix(".parquet")?.parse().ok()
}
fn is_compacted_path(s: &str) -> bool {
    s.starts_with("default/data/compacted/")
}

/// a real two-row Parquet chunk whose timestamp column spans [mn, mx]
fn parquet_chunk(mn: i64, mx: i64) -> bytes::Bytes {
    use arrow_array::{Float64Array, RecordBatch, StringArray, TimestampNanosecondArray};
    use arrow_schema::{DataType, Field, Schema, TimeUnit};
    let schema = Arc::new(Schema::new(vec![
        Field::new("timestamp", DataType::Timestamp(TimeUnit::Nanosecond, Some("UTC".into())), false),
        Field::new("metric_name", DataType::Utf8, false),
        Field::new("value_f64", DataType::Float64, true),
    ]));
    let batch = RecordBatch::try_new(
        schema,
        vec![
            Arc::new(TimestampNanosecondArray::from(vec![mn, mx]).with_timezone("UTC")),
            Arc::new(StringArray::from(vec!["cpu", "cpu"])),
            Arc::new(Float64Array::from(vec![1.0, 2.0])),
        ],
    )
    .unwrap();
    cardinalsin::ingester::ParquetWriter::new().write_batch(&batch).unwrap()
}
fn set_text<I: IntoIterator<Item = u32>>(it: I) -> String {
    let mut v: Vec<u32> = it.into_iter().collect();
    v.sort();
    v.iter().map(|x| x.to_string()).collect::<Vec<_>>().join(",")
}

// ------------------------------------------------------- implementation ----
struct Outcome {
    impl_out: String,
    model_line: String,
    /// (class, what)
    violations: Vec<(String, String)>,
    timing_invalid: bool,
    stats: BTreeMap<&'static str, u64>,
}

#[derive(Clone, Debug, PartialEq)]
enum End {
    /// still running / ended with its persist
    Normal,
    /// `?` left compact_l0 / compact_level: nothing after it ran (complete_compaction failed: Some(tgt, srcs))
    AbortedInCompaction(Option<(u32, Vec<u32>)>),
    /// enforce_retention failed at its first delete_chunk: GC part done, nothing persisted
    RetentionFailed,
    Other,
}

struct World {
    hub: Arc<Hub>,
    raw: Arc<InMemory>,
    store0: Arc<dyn ObjectStore>,
    meta: Arc<dyn MetadataClient>,
    registry: ChunkPinRegistry,
    cfg: CompactorConfig,
    compactor: Arc<Compactor>,
    run_task: Option<tokio::task::JoinHandle<()>>,
    // cycle in flight
    ctl: Option<Controller>,
    cycle_task: Option<tokio::task::JoinHandle<()>>,
    cycle_in_run: bool,
    cycle_open: bool,
    cycle_no: u64,
    // clock
    t0: i64,     // model's initial `now` (whole second + 0.5 s)
    target: i64, // model's current `now`
    timing_invalid: bool,
    // oracle bookkeeping (independent of the model)
    grace_s: i64,
    retention_s: i64,
    live: BTreeMap<u32, (i64, i64)>,  // harness's view of the catalog: path -> (min,max) ns
    /// clock readings (model ns) at which the path, out of the catalog, was handed to schedule_deletion
    removed_at: BTreeMap<u32, Vec<i64>>,
    scheduled: BTreeSet<u32>,
    guards: BTreeMap<u32, (PinGuard, Vec<u32>, u64, bool)>, // q -> (guard, paths, cycle_no at pin, taken inside an open cycle)
    del_since_mark: Vec<u32>,
    ret_since_mark: Vec<u32>,
    disk_before_restart: Option<Vec<(u32, i64)>>,
    deleted_since_restart: BTreeSet<u32>,
    violations: Vec<(String, String)>,
    stats: BTreeMap<&'static str, u64>,
    log_cursor: usize,
    real_chunks: bool,
    /// the compactor's metadata client: the real one behind a one-shot fault injector
    fmeta: Arc<FaultMeta>,
    /// clock reading (model ns) the running pass took at its filter
    pass_time: i64,
    /// entries the harness wrote into the pending file itself: path -> timestamps (ns)
    foreign: BTreeMap<u32, Vec<i64>>,
    /// model of BoundedClock: high-water mark of this compactor, reading of its last retention pass
    bhw: i64,
    ret_clock: i64,
    /// how the cycle that just ended without a persist ended
    ended: End,
    /// (model op, implementation token) pairs for what the compactor did on its own inside a
    /// cycle (a real compaction: registration of the merged chunk, swap + scheduling)
    synthetic: Vec<(String, String)>,
}

fn real_now() -> i64 {
    chrono::Utc::now().timestamp_nanos_opt().unwrap()
}

impl World {
    fn bump(&mut self, k: &'static str) {
        *self.stats.entry(k).or_insert(0) += 1;
    }
    fn violate(&mut self, class: &str, what: String) {
        self.violations.push((class.to_string(), what));
    }
    fn abs(&self, t: &Ts) -> i64 {
        match t {
            Ts::Rel(s) => (self.t0 - S / 2).saturating_add(s.saturating_mul(S)),
            Ts::Abs(n) => *n,
        }
    }
    fn anchor_clock(&self) {
        verif_hooks::set_clock_offset_nanos(self.target - real_now());
    }
    fn check_drift(&mut self) {
        let eff = real_now() + verif_hooks::clock_offset_nanos();
        if eff - self.target >= 4 * S / 10 || eff < self.target {
            self.timing_invalid = true;
        }
    }
    fn new_compactor(&self) -> Arc<Compactor> {
        Arc::new(
            Compactor::new(
                self.cfg.clone(),
                self.store0.clone(),
                self.fmeta.clone(),
                Default::default(),
                Arc::new(ShardMonitor::new(HotShardConfig::default())),
            )
            .with_pin_registry(self.registry.clone()),
        )
    }

    async fn catalog_now(&self) -> BTreeMap<u32, (i64, i64)> {
        let mut m = BTreeMap::new();
        if let Ok(v) = self.meta.list_chunks().await {
            for e in v {
                let p = if is_compacted_path(&e.chunk_path) { Some(intern(&e.chunk_path)) } else { pid(&e.chunk_path) };
                if let Some(p) = p {
                    m.insert(p, (e.min_timestamp, e.max_timestamp));
                }
            }
        }
        m
    }

    /// Compare the real catalog with the harness's view: whatever disappeared
    /// without one of our own ops was removed by the retention pass that just ran.
    async fn absorb_catalog_changes(&mut self) {
        let now_cat = self.catalog_now().await;
        let gone: Vec<(u32, (i64, i64))> =
            self.live.iter().filter(|(p, _)| !now_cat.contains_key(p)).map(|(p, m)| (*p, *m)).collect();
        let appeared: Vec<(u32, (i64, i64))> =
            now_cat.iter().filter(|(p, _)| !self.live.contains_key(p) && **p >= 100).map(|(p, m)| (*p, *m)).collect();
        if appeared.len() == 1 && !gone.is_empty() {
            // a real compaction ran at the start of this cycle: merged chunk registered, sources
            // swapped out and handed to schedule_deletion - told to the model as R + C at this instant
            let (t, (mn, mx)) = appeared[0];
            self.live.insert(t, (mn, mx));
            self.synthetic.push((format!("R {} {} {}", t, mn, mx), "-".into()));
            let srcs: Vec<u32> = gone.iter().map(|(p, _)| *p).collect();
            for p in &srcs {
                self.live.remove(p);
                self.removed_at.entry(*p).or_default().push(self.target);
                self.scheduled.insert(*p);
            }
            self.synthetic.push((format!("C {} {}", t, list_text(&srcs)), "0".into()));
            self.bump("compaction.real");
            return;
        }
        if !appeared.is_empty() && gone.is_empty() {
            // a merged chunk was registered but the swap did not happen (complete_compaction failed)
            for (t, (mn, mx)) in appeared {
                self.live.insert(t, (mn, mx));
                self.synthetic.push((format!("R {} {} {}", t, mn, mx), "-".into()));
            }
            return;
        }
        // the cut-off comes from the BoundedClock, which does not follow the wall clock backwards
        let cutoff_model = self.ret_clock - self.retention_s.saturating_mul(S) - SKEW_S * S;
        for (p, (_mn, mx)) in gone {
            // the real cut-off lies in [cutoff_model, cutoff_model + drift)
            if !(mx < cutoff_model + 4 * S / 10) {
                self.violate(
                    "",
                    format!(
                        "retention removed chunk {} whose newest row ({} ns) is not older than the cut-off ({} ns = now - {} d - {} s)",
                        p, mx, cutoff_model, self.retention_s / DAY_S, SKEW_S
                    ),
                );
            }
            self.live.remove(&p);
            self.removed_at.entry(p).or_default().push(self.target);
            self.scheduled.insert(p);
            self.ret_since_mark.push(p);
            self.bump("retention.removed");
        }
        for p in now_cat.keys() {
            if !self.live.contains_key(p) {
                self.violate("", format!("chunk {} appeared in the catalog without a registration", p));
            }
        }
    }

    async fn objects_now(&self) -> BTreeSet<u32> {
        use futures::StreamExt;
        let mut s = BTreeSet::new();
        let mut st = self.raw.list(None);
        while let Some(Ok(m)) = st.next().await {
            if let Some(p) = pid(m.location.as_ref()) {
                s.insert(p);
            }
        }
        s
    }

    async fn disk_now(&self) -> Vec<(u32, i64)> {
        let mut v = Vec::new();
        if let Ok(r) = self.raw.get(&PENDING_FILE.to_string().into()).await {
            if let Ok(b) = r.bytes().await {
                if let Ok(serde_json::Value::Array(a)) = serde_json::from_slice::<serde_json::Value>(&b) {
                    for e in a {
                        // tolerate renamed / additional fields: the path is the string field that
                        // names a data file, the time is `scheduled_at` or else any field that
                        // parses as an RFC 3339 instant
                        let obj = e.as_object().cloned().unwrap_or_default();
                        let p = obj
                            .get("path")
                            .and_then(|x| x.as_str())
                            .and_then(pid)
                            .or_else(|| obj.values().filter_map(|x| x.as_str()).find_map(pid))
                            .unwrap_or(999_999);
                        let parse = |x: &serde_json::Value| {
                            x.as_str().and_then(|s| chrono::DateTime::parse_from_rfc3339(s).ok()).and_then(|d| d.timestamp_nanos_opt())
                        };
                        let ts = obj.get("scheduled_at").and_then(parse).or_else(|| obj.values().find_map(parse));
                        let rel = match ts {
                            Some(ts) => ts.saturating_sub(self.t0).div_euclid(S),
                            None => i64::MIN / S,
                        };
                        v.push((p, rel));
                    }
                }
            }
        }
        v.sort();
        v
    }

    async fn observe(&mut self) -> String {
        let cat = self.catalog_now().await;
        let obj = self.objects_now().await;
        let disk = self.disk_now().await;
        let dels = std::mem::take(&mut self.del_since_mark);
        let rets = std::mem::take(&mut self.ret_since_mark);
        format!(
            "del={}|ret={}|cat={}|obj={}|disk={}",
            set_text(dels),
            set_text(rets),
            set_text(cat.keys().copied()),
            set_text(obj),
            disk.iter().map(|(p, s)| format!("{}@{}", p, s)).collect::<Vec<_>>().join(",")
        )
    }

    /// Every request of client 0 that went through since the last call must be
    /// one the property allows: DELETE of a data file (checked when released),
    /// PUT/GET of the pending-deletions file, reads.
    fn scan_log(&mut self) {
        let log = self.hub.log.lock().unwrap().clone();
        for e in log.iter().skip(self.log_cursor) {
            if e.info.client != 0 {
                continue;
            }
            let ok = match e.info.verb {
                "GET" | "HEAD" => true,
                "PUT" => e.info.path == PENDING_FILE || is_compacted_path(&e.info.path),
                "DELETE" => pid(&e.info.path).is_some(),
                _ => false,
            };
            if !ok {
                self.violate("", format!("unexpected store mutation by the compactor: {} {}", e.info.verb, e.info.path));
            }
        }
        self.log_cursor = log.len();
    }

    // ---- cycle control ----
    fn parked(&self) -> Option<(String, String)> {
        self.ctl.as_ref().and_then(|c| c.peek(0)).map(|i| (i.verb.to_string(), i.path.clone()))
    }

    /// wait until the cycle task is parked at an interesting request or has finished
    async fn settle(&mut self) {
        loop {
            let Some(ctl) = self.ctl.as_mut() else { return };
            let r = tokio::time::timeout(Duration::from_secs(20), ctl.wait_for(0)).await;
            match r {
                Err(_) => {
                    self.violate("", "compaction cycle does not make progress (timeout)".into());
                    return;
                }
                Ok(None) => return, // note: the task finished
                Ok(Some(info)) => {
                    let interesting = info.verb == "DELETE" || (info.verb == "PUT" && info.path == PENDING_FILE);
                    if interesting {
                        return;
                    }
                    // loads of the pending file, reads and writes of a running compaction: let them
                    // through, but look at the catalog first - one cycle can compact several groups
                    // (L0, then the level above), each swap is told to the model on its own
                    self.absorb_catalog_changes().await;
                    let ctl = self.ctl.as_mut().unwrap();
                    let _ = tokio::time::timeout(Duration::from_secs(20), ctl.step(0, Action::Proceed)).await;
                }
            }
        }
    }

    async fn begin_cycle(&mut self) {
        self.finish_cycle().await;
        self.cycle_no += 1;
        let ctl = self.hub.attach(&[0]);
        self.ctl = Some(ctl);
        let c = self.compactor.clone();
        let hub = self.hub.clone();
        self.cycle_task = Some(tokio::spawn(async move {
            let r = c.run_compaction_cycle().await;
            hub.note(0, format!("done {}", r.is_ok()));
        }));
        self.cycle_in_run = false;
        self.cycle_open = true;
        self.pass_time = self.target;
        self.ended = End::Normal;
        self.settle().await;
        self.after_settle().await;
    }

    /// after the cycle task parked again or ended: retention bookkeeping, catalog diff, and - when
    /// the task ended without reaching its persist - how it ended
    async fn after_settle(&mut self) {
        let parked = self.parked();
        let fired = self.fmeta.take_fired();
        let at_put = matches!(&parked, Some((v, p)) if v == "PUT" && p == PENDING_FILE);
        let dc = fired.iter().any(|f| f.kind == Kind::DeleteChunk);
        if at_put || (parked.is_none() && dc) {
            // the retention pass read its cut-off
            self.ret_clock = self.target.max(self.bhw + 1);
            self.bhw = self.ret_clock;
        }
        self.absorb_catalog_changes().await;
        if parked.is_none() && self.cycle_open && !self.cycle_in_run {
            self.ended = if let Some(f) = fired.iter().find(|f| f.kind == Kind::CompleteCompaction) {
                let t = if is_compacted_path(&f.tgt) { intern(&f.tgt) } else { pid(&f.tgt).unwrap_or(0) };
                End::AbortedInCompaction(Some((t, f.srcs.iter().filter_map(|s| pid(s)).collect())))
            } else if dc {
                End::RetentionFailed
            } else {
                self.violate("", "a compaction cycle ended with an error although no fault was injected".into());
                End::Other
            };
            if let Some(t) = self.cycle_task.take() {
                let _ = tokio::time::timeout(Duration::from_secs(20), t).await;
            }
            self.close_cycle();
            self.bump("cycle.ended_by_metadata_fault");
        }
    }

    /// oracle for one DELETE request that is about to take effect
    async fn check_delete(&mut self, path: &str) {
        let Some(p) = pid(path) else {
            self.violate("", format!("compactor deletes a path that is not a data file: {}", path));
            return;
        };
        self.bump("delete.checked");
        // pinned at this instant?  (the harness's own record of live guards, not the registry's word)
        let held = self.guards.values().any(|(_, ps, _, _)| ps.contains(&p));
        if held != self.registry.is_pinned(path) {
            self.violate("", format!("pin registry disagrees with the live pin guards about chunk {} (guards: {}, registry: {})", p, held, !held));
        }
        if held {
            let cyc = self.cycle_no;
            let all_in_window = self
                .guards
                .values()
                .filter(|(_, ps, _, _)| ps.contains(&p))
                .all(|(_, _, at_cycle, in_open)| *in_open && *at_cycle == cyc);
            let class = if all_in_window { KNOWN_CLASS } else { "" };
            self.bump("delete.while_pinned");
            self.violate(class, format!("chunk {} deleted while a running query holds it pinned", p));
        }
        // referenced by the catalog?
        if let Ok(Some(_)) = self.meta.get_chunk(path).await {
            self.violate("", format!("chunk {} deleted while the catalog references it", p));
        }
        if !self.scheduled.contains(&p) {
            self.violate("", format!("chunk {} deleted although it was never scheduled for deletion", p));
        }
        // the grace period counts from the entry's own timestamp to the clock reading the pass took
        // at its filter (the clock may have been stepped since, in either direction)
        let grace_ns = self.grace_s.saturating_mul(S);
        if let Some(tss) = self.removed_at.get(&p) {
            // (scheduled again after a clock step: any of its scheduling instants may justify the delete)
            if !tss.iter().any(|t| self.pass_time - *t >= grace_ns) {
                self.violate(
                    "",
                    format!(
                        "chunk {} deleted by a pass that started {} s after it left the catalog and was scheduled, grace period is {} s",
                        p,
                        tss.iter().map(|t| (self.pass_time - *t).div_euclid(S)).max().unwrap_or(0),
                        self.grace_s
                    ),
                );
            }
        } else if let Some(tss) = self.foreign.get(&p) {
            if !tss.iter().any(|t| self.pass_time - *t >= grace_ns) {
                self.violate(
                    "",
                    format!(
                        "chunk {} deleted by a pass whose clock read {} s relative to the entry's own timestamp, grace period is {} s",
                        p,
                        tss.iter().map(|t| (self.pass_time - *t).div_euclid(S)).max().unwrap_or(0),
                        self.grace_s
                    ),
                );
            }
        } else if self.live.contains_key(&p) {
            self.violate("", format!("chunk {} deleted although it never left the catalog", p));
        }
        self.del_since_mark.push(p);
        self.deleted_since_restart.insert(p);
    }

    /// release the parked request and wait for the next park / the end
    async fn release_one(&mut self) {
        let Some((verb, path)) = self.parked() else { return };
        if verb == "DELETE" {
            self.check_delete(&path).await;
            let ctl = self.ctl.as_mut().unwrap();
            let _ = tokio::time::timeout(Duration::from_secs(20), ctl.step(0, Action::Proceed)).await;
            self.settle().await;
            self.after_settle().await;
        } else {
            // the persist PUT: last store request of the cycle
            let before = self.hub.log.lock().unwrap().len();
            if let Some(ctl) = self.ctl.as_mut() {
                ctl.release_all();
            }
            for _ in 0..100_000 {
                tokio::task::yield_now().await;
                if self.hub.log.lock().unwrap().len() > before {
                    break;
                }
            }
            if self.cycle_in_run {
                // `run` goes back to its interval wait: give it a few turns
                for _ in 0..50 {
                    tokio::task::yield_now().await;
                }
            } else if let Some(t) = self.cycle_task.take() {
                let _ = tokio::time::timeout(Duration::from_secs(20), t).await;
            }
            self.close_cycle();
        }
    }

    fn close_cycle(&mut self) {
        self.ctl = None;
        self.hub.detach();
        self.cycle_task = None;
        self.cycle_open = false;
        self.scan_log();
    }

    async fn finish_cycle(&mut self) {
        let mut guard = 0;
        while self.cycle_open && guard < 10_000 {
            guard += 1;
            if self.parked().is_none() {
                // finished without a persist (error path) or still running
                self.settle().await;
                if self.parked().is_none() {
                    if let Some(t) = self.cycle_task.take() {
                        let _ = tokio::time::timeout(Duration::from_secs(20), t).await;
                    }
                    self.close_cycle();
                    break;
                }
            }
            self.release_one().await;
        }
    }

    async fn restart(&mut self) {
        // a cycle in flight is lost with the process
        if self.cycle_open {
            if let Some(t) = self.cycle_task.take() {
                t.abort();
                let _ = t.await;
            }
            if self.cycle_in_run {
                if let Some(t) = self.run_task.take() {
                    t.abort();
                    let _ = t.await;
                }
            }
            self.ctl = None;
            self.hub.detach();
            self.cycle_open = false;
            self.scan_log();
            self.bump("restart.mid_cycle");
        }
        if let Some(t) = self.run_task.take() {
            self.compactor.shutdown_token().cancel();
            let _ = tokio::time::timeout(Duration::from_secs(20), t).await;
        }
        // what the file promises
        let disk = self.disk_now().await;
        self.check_restart_promise().await;
        self.disk_before_restart = Some(disk);
        self.deleted_since_restart.clear();

        self.fmeta.disarm();
        let _ = self.fmeta.take_fired();
        self.compactor = self.new_compactor();
        self.bhw = 0;
        self.pass_time = self.target;
        self.ended = End::Normal;
        self.cycle_no += 1;
        let ctl = self.hub.attach(&[0]);
        self.ctl = Some(ctl);
        let c = self.compactor.clone();
        let hub = self.hub.clone();
        self.run_task = Some(tokio::spawn(async move {
            c.run().await;
            hub.note(0, "run-exit".into());
        }));
        self.cycle_in_run = true;
        self.cycle_open = true;
        self.settle().await; // lets the load GET through, parks at the first DELETE / the persist PUT
        self.after_settle().await;
    }

    /// persisted deletions must still be pending (same scheduled_at) or carried out
    async fn check_restart_promise(&mut self) {
        if let Some(old) = self.disk_before_restart.take() {
            let cur = self.disk_now().await;
            // only meaningful once a cycle persisted again after the restart
            if cur != old || !self.deleted_since_restart.is_empty() {
                for (p, ts) in old {
                    // (a duplicate entry is merged into the first one of the file, which is never later)
                    let still = cur.iter().any(|(q, t)| *q == p && *t <= ts);
                    let done = self.deleted_since_restart.contains(&p);
                    if !still && !done {
                        self.violate(
                            "",
                            format!("deletion of chunk {} (scheduled at +{} s) was persisted but is neither pending nor carried out after the restart", p, ts),
                        );
                    }
                }
            }
        }
    }
}

async fn run_case(case: &Case) -> Outcome {
    intern_reset();
    let raw = Arc::new(InMemory::new());
    let hub = Hub::new(raw.clone());
    let store0: Arc<dyn ObjectStore> = hub.client(0);
    let meta: Arc<dyn MetadataClient> = if case.backend == 0 {
        Arc::new(LocalMetadataClient::new())
    } else {
        Arc::new(ObjectStoreMetadataClient::new(
            hub.client(1),
            ObjectStoreMetadataConfig {
                bucket: "b".into(),
                metadata_prefix: "metadata/".into(),
                enable_cache: true,
                allow_unsafe_overwrite: false,
            },
        ))
    };
    let cfg = CompactorConfig {
        l0_merge_threshold: if case.l0 > 0 { case.l0 as usize } else { 1_000_000 },
        gc_grace_period: Duration::from_secs(case.grace_s),
        retention_days: case.retention_days,
        sharding_enabled: false,
        check_interval: Duration::from_secs(365 * 86_400),
        ..Default::default()
    };
    let registry = ChunkPinRegistry::new();
    let t0 = (real_now() / S) * S + S / 2;
    let fmeta = Arc::new(FaultMeta::new(meta.clone()));
    let compactor = Arc::new(
        Compactor::new(cfg.clone(), store0.clone(), fmeta.clone(), Default::default(), Arc::new(ShardMonitor::new(HotShardConfig::default())))
            .with_pin_registry(registry.clone()),
    );
    let mut w = World {
        hub,
        raw,
        store0,
        meta,
        registry,
        cfg,
        compactor,
        run_task: None,
        ctl: None,
        cycle_task: None,
        cycle_in_run: false,
        cycle_open: false,
        cycle_no: 0,
        t0,
        target: t0,
        timing_invalid: false,
        grace_s: i64::try_from(case.grace_s).unwrap_or(i64::MAX),
        retention_s: case.retention_days as i64 * DAY_S,
        live: BTreeMap::new(),
        removed_at: BTreeMap::new(),
        scheduled: BTreeSet::new(),
        guards: BTreeMap::new(),
        del_since_mark: vec![],
        ret_since_mark: vec![],
        disk_before_restart: None,
        deleted_since_restart: BTreeSet::new(),
        violations: vec![],
        stats: BTreeMap::new(),
        log_cursor: 0,
        real_chunks: case.l0 > 0,
        fmeta,
        pass_time: t0,
        foreign: BTreeMap::new(),
        bhw: 0,
        ret_clock: t0,
        ended: End::Normal,
        synthetic: vec![],
    };
    w.anchor_clock();
    let mut toks: Vec<String> = Vec::new();
    // the model takes the grace period in ns; anything beyond i64::MAX ns (292 years) is "never" for
    // every history generated here, and the number parser of the model runner stops at 2^64
    let grace_ns = (case.grace_s as i128 * S as i128).min(i64::MAX as i128);
    let mut mline: Vec<String> = vec![format!("cfg {} {} {}", grace_ns, case.retention_days, t0)];

    for op in &case.ops {
        let mark = mline.len();
        let tok = match op {
            Op::T(d) => {
                // advance, never re-anchor: the real time that has passed since the start of the
                // case must keep growing, or differences between two clock reads would shrink
                w.target += d * S;
                verif_hooks::advance_clock_nanos(d * S);
                mline.push(format!("T {}", *d as i128 * S as i128));
                "-".to_string()
            }
            Op::R { p, mn, mx } => {
                let (a, b) = (w.abs(mn), w.abs(mx));
                let path = pname(*p);
                let body = if w.real_chunks { parquet_chunk(a, b) } else { bytes::Bytes::from_static(b"x") };
                let _ = w.raw.put(&path.clone().into(), body.into()).await;
                let m = ChunkMetadata { path: path.clone(), min_timestamp: a, max_timestamp: b, row_count: 1, size_bytes: 1 };
                let r = w.meta.register_chunk(&path, &m).await;
                if r.is_ok() {
                    w.live.insert(*p, (a, b));
                    w.removed_at.remove(p);
                }
                mline.push(format!("R {} {} {}", p, a, b));
                "-".to_string()
            }
            Op::C { tgt, srcs } => {
                // the lines of compact_l0 after a successful merge
                let names: Vec<String> = srcs.iter().map(|s| pname(*s)).collect();
                let r = w.meta.complete_compaction(&names, &pname(*tgt)).await;
                if r.is_ok() {
                    for (s, n) in srcs.iter().zip(names.iter()) {
                        w.compactor.schedule_deletion(n);
                        let was_live = w.live.remove(s).is_some();
                        if was_live || w.removed_at.contains_key(s) {
                            w.removed_at.entry(*s).or_default().push(w.target);
                        }
                        w.scheduled.insert(*s);
                    }
                    w.bump("swap.ok");
                }
                mline.push(format!("C {} {}", tgt, list_text(srcs)));
                if r.is_ok() { "0".to_string() } else { "1".to_string() }
            }
            Op::GF => {
                w.begin_cycle().await;
                for (m, t) in std::mem::take(&mut w.synthetic) {
                    mline.push(m);
                    toks.push(t);
                }
                match std::mem::replace(&mut w.ended, End::Normal) {
                    End::Normal => mline.push("GF".into()),
                    End::AbortedInCompaction(cf) => {
                        if let Some((t, srcs)) = cf {
                            mline.push(format!("CF {} {}", t, list_text(&srcs)));
                            toks.push("1".into());
                        }
                        mline.push("GA".into());
                    }
                    End::RetentionFailed => mline.push("GFX".into()),
                    End::Other => mline.push("GA".into()),
                }
                "-".to_string()
            }
            Op::GD => match w.parked() {
                Some((verb, path)) if w.cycle_open && verb == "DELETE" => {
                    let p = pid(&path).unwrap_or(0);
                    w.release_one().await;
                    if std::mem::replace(&mut w.ended, End::Normal) == End::RetentionFailed {
                        mline.push(format!("GDX {}", p));
                    } else {
                        mline.push(format!("GD {}", p));
                    }
                    w.bump("cycle.delete_stepped");
                    "d".to_string()
                }
                _ => {
                    mline.push("GD 0".into());
                    "skip".to_string()
                }
            },
            Op::GP => {
                if w.cycle_open {
                    w.finish_cycle().await;
                    if std::mem::replace(&mut w.ended, End::Normal) == End::RetentionFailed {
                        mline.push("GPX".into());
                    } else {
                        mline.push("GP".into());
                    }
                    w.observe().await
                } else {
                    mline.push("GP".into());
                    "-".to_string()
                }
            }
            Op::G => {
                w.begin_cycle().await;
                for (m, t) in std::mem::take(&mut w.synthetic) {
                    mline.push(m);
                    toks.push(t);
                }
                match std::mem::replace(&mut w.ended, End::Normal) {
                    End::Normal => {
                        w.finish_cycle().await;
                        if std::mem::replace(&mut w.ended, End::Normal) == End::RetentionFailed {
                            mline.push("GF".into());
                            toks.push("-".into());
                            mline.push("GPX".into());
                        } else {
                            mline.push("G".into());
                        }
                    }
                    End::AbortedInCompaction(cf) => {
                        if let Some((t, srcs)) = cf {
                            mline.push(format!("CF {} {}", t, list_text(&srcs)));
                            toks.push("1".into());
                        }
                        mline.push("GA".into());
                        toks.push("-".into());
                        mline.push("O".into());
                    }
                    End::RetentionFailed => {
                        mline.push("GFX".into());
                        toks.push("-".into());
                        mline.push("O".into());
                    }
                    End::Other => {
                        mline.push("GA".into());
                        toks.push("-".into());
                        mline.push("O".into());
                    }
                }
                w.observe().await
            }
            Op::RS | Op::RSG(_) => {
                // new Compactor; `run` loads the file, then starts its first cycle at once
                if let Op::RSG(g) = op {
                    w.cfg.gc_grace_period = Duration::from_secs(*g);
                    w.grace_s = i64::try_from(*g).unwrap_or(i64::MAX);
                    w.bump("restart.with_new_grace");
                }
                w.restart().await;
                w.bump("restart");
                match op {
                    Op::RSG(g) => mline.push(format!("RSG {}", (*g as i128 * S as i128).min(i64::MAX as i128))),
                    _ => mline.push("RS".into()),
                }
                toks.push("-".into());
                for (m, t) in std::mem::take(&mut w.synthetic) {
                    mline.push(m);
                    toks.push(t);
                }
                mline.push("GF".into());
                "-".to_string()
            }
            Op::PQ { q, s, e } => {
                // the lines of query_for_tenant: get_chunks, then pin, no await in between
                let (a, b) = (w.abs(s), w.abs(e));
                mline.push(format!("PQ {} {} {}", q, a, b));
                if w.guards.contains_key(q) {
                    "got=".to_string()
                } else {
                    let chunks = w.meta.get_chunks(TimeRange::new(a, b)).await.unwrap_or_default();
                    let paths: Vec<String> = chunks.iter().map(|c| c.chunk_path.clone()).collect();
                    let ids: Vec<u32> = paths.iter().filter_map(|s| pid(s)).collect();
                    let g = w.registry.pin(paths);
                    let (cyc, open) = (w.cycle_no, w.cycle_open);
                    w.guards.insert(*q, (g, ids.clone(), cyc, open));
                    w.bump("pin.fresh");
                    format!("got={}", set_text(ids))
                }
            }
            Op::P { q, ps } => {
                mline.push(format!("P {} {}", q, list_text(ps)));
                if !w.guards.contains_key(q) {
                    let g = w.registry.pin(ps.iter().map(|p| pname(*p)).collect());
                    let (cyc, open) = (w.cycle_no, w.cycle_open);
                    w.guards.insert(*q, (g, ps.clone(), cyc, open));
                    w.bump(if open { "pin.stale.inside_cycle" } else { "pin.stale" });
                }
                "-".to_string()
            }
            Op::U { q } => {
                mline.push(format!("U {}", q));
                match w.guards.remove(q) {
                    Some((g, ps, _, _)) => {
                        let obj = w.objects_now().await;
                        let miss: Vec<u32> = ps.iter().copied().filter(|p| !obj.contains(p)).collect();
                        for p in &ps {
                            if !w.registry.is_pinned(&pname(*p)) {
                                w.violate("", format!("chunk {} is not pinned although query {} still holds its guard", p, q));
                            }
                        }
                        drop(g);
                        for p in &ps {
                            let held = w.guards.values().any(|(_, qs, _, _)| qs.contains(p));
                            if w.registry.is_pinned(&pname(*p)) != held {
                                w.violate("", format!("after query {} dropped its guard the registry says pinned={} for chunk {}, live guards say {}", q, !held, p, held));
                            }
                        }
                        format!("miss={}", set_text(miss))
                    }
                    None => "miss=".to_string(),
                }
            }
            Op::O => {
                mline.push("O".into());
                w.observe().await
            }
            Op::DE { es } => {
                // append to the file behind the compactor's back
                let mut arr: Vec<serde_json::Value> = match w.raw.get(&PENDING_FILE.to_string().into()).await {
                    Ok(r) => r.bytes().await.ok().and_then(|b| serde_json::from_slice(&b).ok()).unwrap_or_default(),
                    Err(_) => Vec::new(),
                };
                let mut items = Vec::new();
                for (p, t) in es {
                    let ts = w.abs(t);
                    let when = chrono::DateTime::from_timestamp_nanos(ts).to_rfc3339_opts(chrono::SecondsFormat::Nanos, true);
                    arr.push(json!({"path": pname(*p), "scheduled_at": when}));
                    w.foreign.entry(*p).or_default().push(ts);
                    w.scheduled.insert(*p);
                    items.push(format!("{}@{}", p, ts));
                }
                let _ = w.raw.put(&PENDING_FILE.to_string().into(), serde_json::to_vec(&arr).unwrap().into()).await;
                w.bump("disk.edited_from_outside");
                mline.push(format!("DE {}", items.join(",")));
                "-".to_string()
            }
            Op::F(k) => {
                // no step of the model: the fault shows in how the next cycle ends
                if !w.cycle_in_run || !w.cycle_open {
                    w.fmeta.arm(match k { 0 => Kind::CompleteCompaction, 1 => Kind::RegisterChunk, _ => Kind::DeleteChunk });
                    w.bump("fault.armed");
                }
                String::new()
            }
        };
        if !tok.is_empty() {
            toks.push(tok);
        }
        let _ = mark;
        if !w.synthetic.is_empty() {
            // a compaction can only start at the head of a cycle
            w.violate("", "the catalog was changed by the compactor outside the head of a cycle".into());
            w.synthetic.clear();
        }
        w.check_drift();
    }
    // leave nothing running
    w.finish_cycle().await;
    w.check_restart_promise().await;
    if let Some(t) = w.run_task.take() {
        w.compactor.shutdown_token().cancel();
        let _ = tokio::time::timeout(Duration::from_secs(20), t).await;
    }
    w.scan_log();
    verif_hooks::set_clock_offset_nanos(0);
    Outcome {
        impl_out: toks.join(";"),
        model_line: mline.join(";"),
        violations: w.violations,
        timing_invalid: w.timing_invalid,
        stats: w.stats,
    }
}

/// Runs a case (repeating it when the machine stalled for longer than the
/// clock phase allows) and asks the model.  Returns (outcome, model output, model's class flag).
/// one case, a panic of the implementation or of the harness itself becomes an oracle failure
fn run_case_safe(rt: &tokio::runtime::Runtime, case: &Case) -> Outcome {
    match csv_common::catch(std::panic::AssertUnwindSafe(|| rt.block_on(run_case(case)))) {
        Ok(o) => o,
        Err(msg) => {
            verif_hooks::set_clock_offset_nanos(0);
            Outcome {
                impl_out: format!("PANIC {}", msg.chars().take(160).collect::<String>()),
                model_line: format!("cfg 0 {} 0", case.retention_days),
                violations: vec![("".into(), format!("the case panicked: {}", msg.chars().take(300).collect::<String>()))],
                timing_invalid: false,
                stats: BTreeMap::new(),
            }
        }
    }
}

fn run_checked(rt: &tokio::runtime::Runtime, model: &mut Model, case: &Case) -> (Outcome, String, bool) {
    let mut out = run_case_safe(rt, case);
    let mut tries = 0;
    while out.timing_invalid && tries < 4 {
        tries += 1;
        out = run_case_safe(rt, case);
    }
    let m = model.ask(&out.model_line);
    let (body, flag) = match m.split_once("#K=") {
        Some((b, k)) => (b.to_string(), k.trim() == "1"),
        None => (m.clone(), false),
    };
    (out, body, flag)
}

// ------------------------------------------------- real query bracket ----
/// One scenario with a real QueryNode (DataFusion) sharing the pin registry with the
/// compactor: the query is stopped at an object-store read of its chunk files, the chunk is
/// swapped out of the catalog and a whole GC cycle (grace 0) runs; the file must survive until the
/// query has finished, and go in the cycle after.  Returns (case text, impl tokens, model line,
/// violations, trace for the report).
async fn run_query_scenario(backend: u8) -> (String, String, String, Vec<(String, String)>, Vec<String>) {
    use cardinalsin::query::{QueryConfig, QueryNode};
    intern_reset();
    let mut violations: Vec<(String, String)> = Vec::new();
    let mut trace: Vec<String> = Vec::new();
    let raw = Arc::new(InMemory::new());
    let hub = Hub::new(raw.clone());
    let store0: Arc<dyn ObjectStore> = hub.client(0);
    let storeq: Arc<dyn ObjectStore> = hub.client(2);
    let meta: Arc<dyn MetadataClient> = if backend == 0 {
        Arc::new(LocalMetadataClient::new())
    } else {
        Arc::new(ObjectStoreMetadataClient::new(
            hub.client(1),
            ObjectStoreMetadataConfig { bucket: "b".into(), metadata_prefix: "metadata/".into(), enable_cache: true, allow_unsafe_overwrite: false },
        ))
    };
    let registry = ChunkPinRegistry::new();
    let cfg = CompactorConfig {
        l0_merge_threshold: 1_000_000,
        gc_grace_period: Duration::from_secs(0),
        retention_days: 90,
        sharding_enabled: false,
        check_interval: Duration::from_secs(365 * 86_400),
        ..Default::default()
    };
    let t0 = (real_now() / S) * S + S / 2;
    verif_hooks::set_clock_offset_nanos(t0 - real_now());
    let compactor = Arc::new(
        Compactor::new(cfg, store0.clone(), meta.clone(), Default::default(), Arc::new(ShardMonitor::new(HotShardConfig::default())))
            .with_pin_registry(registry.clone()),
    );
    let base = t0 - S / 2;
    let bounds = [(1u32, base - 40 * S, base - 30 * S), (2u32, base - 40 * S, base - 20 * S)];
    let mut mline = vec![format!("cfg 0 90 {}", t0)];
    let mut toks: Vec<String> = Vec::new();
    for (p, a, b) in bounds {
        let path = pname(p);
        let _ = raw.put(&path.clone().into(), parquet_chunk(a, b).into()).await;
        let m = ChunkMetadata { path: path.clone(), min_timestamp: a, max_timestamp: b, row_count: 2, size_bytes: 1 };
        let _ = meta.register_chunk(&path, &m).await;
        mline.push(format!("R {} {} {}", p, a, b));
        toks.push("-".into());
    }
    let qn = match QueryNode::new(QueryConfig::default(), storeq, meta.clone(), Default::default()).await {
        Ok(q) => Arc::new(q.with_pin_registry(registry.clone())),
        Err(e) => {
            violations.push(("".into(), format!("QueryNode::new failed: {}", e)));
            return ("query-scenario".into(), String::new(), String::new(), violations, trace);
        }
    };
    let observe = |del: Vec<u32>| {
        let raw = raw.clone();
        let meta = meta.clone();
        async move {
            use futures::StreamExt;
            let mut cat: Vec<u32> = meta.list_chunks().await.unwrap_or_default().iter().filter_map(|e| pid(&e.chunk_path)).collect();
            cat.sort();
            let mut obj = Vec::new();
            let mut st = raw.list(None);
            while let Some(Ok(m)) = st.next().await {
                if let Some(p) = pid(m.location.as_ref()) {
                    obj.push(p);
                }
            }
            let mut disk = Vec::new();
            if let Ok(r) = raw.get(&PENDING_FILE.to_string().into()).await {
                if let Ok(b) = r.bytes().await {
                    if let Ok(serde_json::Value::Array(a)) = serde_json::from_slice::<serde_json::Value>(&b) {
                        for e in a {
                            disk.push(format!("{}@0", e["path"].as_str().and_then(pid).unwrap_or(999_999)));
                        }
                    }
                }
            }
            disk.sort();
            format!("del={}|ret=|cat={}|obj={}|disk={}", set_text(del), set_text(cat), set_text(obj), disk.join(","))
        }
    };
    // the query, one object-store request at a time
    let mut ctl = hub.attach(&[2]);
    let q2 = qn.clone();
    let hub2 = hub.clone();
    let qtask = tokio::spawn(async move {
        let r = q2.query("SELECT COUNT(*) AS n FROM metrics").await;
        hub2.note(2, "query-done".into());
        r
    });
    let both_pinned = |reg: &ChunkPinRegistry| reg.is_pinned(&pname(1)) && reg.is_pinned(&pname(2));
    let mut stopped_pinned = false;
    let mut steps = 0;
    loop {
        steps += 1;
        if steps > 500 {
            violations.push(("".into(), "query does not finish".into()));
            break;
        }
        let r = tokio::time::timeout(Duration::from_secs(30), ctl.wait_for(2)).await;
        match r {
            Err(_) => {
                violations.push(("".into(), "query makes no progress (timeout)".into()));
                break;
            }
            Ok(None) => break,
            Ok(Some(info)) => {
                let pinned = both_pinned(&registry);
                trace.push(format!("{} {} pinned={}", info.verb, info.path, pinned));
                if pinned && pid(&info.path).is_some() {
                    stopped_pinned = true;
                    break;
                }
                let _ = tokio::time::timeout(Duration::from_secs(30), ctl.step(2, Action::Proceed)).await;
            }
        }
    }
    mline.push(format!("PQ 1 {} {}", t0 - 3600 * S, t0));
    if stopped_pinned {
        toks.push("got=1,2".into());
    } else {
        toks.push("got=".into());
        violations.push(("".into(), "the query read its chunk files from the object store without holding them pinned".into()));
    }
    // swap chunk 1 out and run a whole cycle while the query is stopped in its read
    let names = vec![pname(1)];
    let r = meta.complete_compaction(&names, &pname(2)).await;
    if r.is_ok() {
        compactor.schedule_deletion(&names[0]);
    }
    mline.push("C 2 1".into());
    toks.push(if r.is_ok() { "0".into() } else { "1".into() });
    let log0 = hub.log.lock().unwrap().len();
    let _ = compactor.run_compaction_cycle().await;
    let dels = |from: usize| -> Vec<u32> {
        hub.log.lock().unwrap().iter().skip(from).filter(|e| e.info.client == 0 && e.info.verb == "DELETE").filter_map(|e| pid(&e.info.path)).collect()
    };
    let d1 = dels(log0);
    if stopped_pinned && d1.contains(&1) {
        violations.push(("".into(), "chunk 1 deleted while a running query (QueryNode) holds it pinned".into()));
    }
    mline.push("G".into());
    toks.push(observe(d1).await);
    // let the query finish
    let mut fin = 0;
    loop {
        fin += 1;
        if fin > 500 {
            break;
        }
        match tokio::time::timeout(Duration::from_secs(30), ctl.wait_for(2)).await {
            Ok(Some(info)) => {
                trace.push(format!("{} {} pinned={}", info.verb, info.path, both_pinned(&registry)));
                let _ = tokio::time::timeout(Duration::from_secs(30), ctl.step(2, Action::Proceed)).await;
            }
            _ => break,
        }
    }
    hub.detach();
    let res = tokio::time::timeout(Duration::from_secs(30), qtask).await;
    let rows: Option<i64> = match res {
        Ok(Ok(Ok(batches))) => {
            use arrow_array::cast::AsArray;
            batches.first().and_then(|b| b.column(0).as_primitive_opt::<arrow_array::types::Int64Type>().map(|a| a.value(0)))
        }
        _ => None,
    };
    trace.push(format!("query result rows = {:?}", rows));
    mline.push("U 1".into());
    if rows == Some(4) {
        toks.push("miss=".into());
    } else {
        toks.push(format!("miss=ERR({:?})", rows));
        violations.push(("".into(), format!("the query that held its chunks pinned did not get its 4 rows: {:?}", rows)));
    }
    if registry.is_pinned(&pname(1)) || registry.is_pinned(&pname(2)) {
        violations.push(("".into(), "chunks still pinned after the query finished".into()));
    }
    let log1 = hub.log.lock().unwrap().len();
    let _ = compactor.run_compaction_cycle().await;
    mline.push("G".into());
    toks.push(observe(dels(log1)).await);
    verif_hooks::set_clock_offset_nanos(0);
    (format!("query-scenario b={}", backend), toks.join(";"), mline.join(";"), violations, trace)
}

// ------------------------------------------------------ bounded clock ----
/// Oracle on src/clock.rs alone: under a wall clock that jumps forwards and BACKWARDS (hook
/// offset), BoundedClock never goes backwards and the retention cut-off is `now - retention -
/// skew` for a `now` between the reads before and after it.
fn clock_scenario(rng: &mut Rng) -> (String, Vec<String>) {
    let skew_s = *rng.pick(&[0u64, 1, 30, 60]);
    let mut text = format!("clock skew={}", skew_s);
    for _ in 0..rng.range_usize(3, 12) {
        let jump = match rng.below(5) {
            0 => -rng.range_i64(1, 3600),
            1 => -rng.range_i64(1, 5),
            2 => 0,
            3 => rng.range_i64(1, 5),
            _ => rng.range_i64(1, 3600),
        };
        text.push_str(&format!(";J {} {}", jump, *rng.pick(&[0i64, 1, 90])));
    }
    let bad = run_clock_scenario(&text);
    (text, bad)
}

fn run_clock_scenario(text: &str) -> Vec<String> {
    use cardinalsin::clock::BoundedClock;
    let mut it = text.split(';');
    let skew_s: u64 = it.next().and_then(|h| h.split("skew=").nth(1)).and_then(|v| v.trim().parse().ok()).unwrap_or(30);
    let clock = BoundedClock::new(Duration::from_secs(skew_s));
    let mut bad = Vec::new();
    let mut prev = clock.now_nanos();
    for tok in it {
        let f: Vec<&str> = tok.trim().split(' ').collect();
        if f.len() != 3 {
            continue;
        }
        let jump = f[1].parse::<i64>().unwrap_or(0) * S;
        let retention = f[2].parse::<i64>().unwrap_or(0) * DAY_S * S;
        verif_hooks::advance_clock_nanos(jump);
        let before = clock.now_nanos();
        let cut = clock.retention_cutoff_nanos(retention);
        let after = clock.now_nanos();
        if !(before > prev && after > before) {
            bad.push(format!("BoundedClock went backwards or stalled: {} -> {} -> {} after a wall-clock jump of {} s", prev, before, after, jump / S));
        }
        let margin = retention + skew_s as i64 * S;
        if !(before - margin < cut && cut < after - margin) {
            bad.push(format!(
                "retention cut-off {} is not now - retention - skew for a now between {} and {} (retention {} ns, skew {} s)",
                cut, before, after, retention, skew_s
            ));
        }
        prev = after;
    }
    if BoundedClock::default().max_skew() != Duration::from_secs(SKEW_S as u64) {
        bad.push(format!("default skew margin is {:?}, the harness and the model assume {} s", BoundedClock::default().max_skew(), SKEW_S));
    }
    verif_hooks::set_clock_offset_nanos(0);
    bad
}

// ------------------------------------------------------------ generator ----
fn gen_case(rng: &mut Rng, report: &mut Report) -> Case {
    let backend = if rng.chance(1, 3) { 1 } else { 0 };
    // extreme settings: grace periods chrono cannot represent (the code used to fall back to
    // 300 s) or that reach before the representable past (used to panic); retention periods
    // whose nanoseconds overflow an i64 (used to panic / wrap)
    // one case in seven lets run_compaction_cycle really compact: real Parquet chunks that share
    // an hour bucket, merge threshold 2 or 3
    let l0: u32 = if rng.chance(1, 7) { *rng.pick(&[2u32, 2, 3]) } else { 0 };
    if l0 > 0 {
        report.bump("gen.real_compaction_case");
    }
    let extreme = l0 == 0 && rng.chance(1, 14);
    let grace_s = if extreme && rng.chance(1, 2) {
        report.bump("cfg.extreme_grace");
        *rng.pick(&[u64::MAX, 400_000 * 365 * 86_400, (i64::MAX / 1000) as u64 + 1, 9_000_000_000])
    } else {
        *rng.pick(&[0u64, 0, 1, 2, 5, 300])
    };
    let retention_days = if extreme && rng.chance(1, 2) {
        report.bump("cfg.extreme_retention");
        *rng.pick(&[106_751u32, 106_752, 200_000, u32::MAX])
    } else {
        *rng.pick(&[0u32, 1, 1, 2, 90])
    };
    // with real compactions the rows (50 s old) must stay inside the retention window: a merged
    // chunk that the same cycle's retention pass expires again is never visible to the harness
    let retention_days = if l0 > 0 && retention_days == 0 { 1 } else { retention_days };
    report.bump(&format!("cfg.grace={}", grace_s));
    report.bump(&format!("cfg.retention_days={}", retention_days));
    report.bump(if backend == 0 { "backend.local" } else { "backend.object_store" });
    let r_s = retention_days as i64 * DAY_S;
    let npaths = rng.range_usize(3, 7) as u32;
    let nops = rng.range_usize(6, 22);
    let mut ops: Vec<Op> = Vec::new();
    let mut elapsed: i64 = 0;
    let mut registered: Vec<u32> = Vec::new();
    let mut scheduled: Vec<u32> = Vec::new();
    let mut next_path = 1u32;
    let mut queries: Vec<u32> = Vec::new();
    let mut next_q = 1u32;
    let mut next_foreign = 60u32;
    let mut cur_grace = grace_s;
    let mut open = false;
    let tick = |rng: &mut Rng, grace: u64| -> i64 {
        let grace = if grace > 100_000 { 301 } else { grace };
        match rng.below(8) {
            0 => 1,
            1 => grace as i64,
            2 => (grace as i64 - 1).max(0),
            3 => grace as i64 + 1,
            4 => 2,
            5 => 30,
            6 => 300,
            _ => rng.range_i64(0, 6),
        }
    };
    // a timestamp class around the retention cut-off of "now + a few seconds"
    let chunk_bounds = |rng: &mut Rng, elapsed: i64, report: &mut Report| -> (Ts, Ts) {
        let cut = elapsed - r_s - SKEW_S; // whole seconds, relative
        let near = cut + rng.range_i64(0, 6); // cut-offs of the next few ticks
        if l0 > 0 {
            // fresh rows, same minimum => same L0 hour group
            return (Ts::Rel(-50), Ts::Rel(-50 + rng.range_i64(0, 40)));
        }
        match rng.below(12) {
            0 => (Ts::Rel(near - 100), Ts::Rel(near - 1)),  // just old
            1 => (Ts::Rel(near - 100), Ts::Rel(near)),      // newest row at the cut-off
            2 => (Ts::Rel(near - 100), Ts::Rel(near + 1)),  // straddles by a second
            3 => {
                report.bump("chunk.straddles_cutoff");
                (Ts::Rel(near - DAY_S), Ts::Rel(near + DAY_S))
            }
            4 => (Ts::Rel(near - 10 * DAY_S), Ts::Rel(near - 5 * DAY_S)), // long expired
            5 => (Ts::Rel(elapsed - 3600), Ts::Rel(elapsed)),             // fresh
            6 => {
                report.bump("chunk.before_epoch");
                (Ts::Abs(-100 * S), Ts::Abs(-50 * S))
            }
            7 => {
                report.bump("chunk.across_epoch");
                (Ts::Abs(-100 * S), Ts::Abs(50 * S))
            }
            8 => (Ts::Abs(0), Ts::Abs(0)),
            9 => {
                report.bump("chunk.i64_extreme");
                if rng.chance(1, 2) {
                    (Ts::Abs(i64::MIN), Ts::Abs(i64::MIN + 5))
                } else {
                    (Ts::Abs(i64::MAX - 5), Ts::Abs(i64::MAX))
                }
            }
            10 => (Ts::Rel(near), Ts::Rel(near)), // zero-length at the cut-off
            _ => (Ts::Rel(near - rng.range_i64(0, 5)), Ts::Rel(near + rng.range_i64(-3, 3))),
        }
    };
    for _ in 0..nops {
        let r = rng.below(100);
        if r < 22 || registered.is_empty() {
            if next_path > npaths + 6 {
                continue;
            }
            let (mn, mx) = chunk_bounds(rng, elapsed, report);
            ops.push(Op::R { p: next_path, mn, mx });
            registered.push(next_path);
            next_path += 1;
        } else if r < 40 && registered.len() >= 2 {
            // compaction swap: a registered target, 1-3 sources
            let tgt = *rng.pick(&registered);
            let mut srcs: Vec<u32> = Vec::new();
            for _ in 0..rng.range_usize(1, 3) {
                let s = if rng.chance(9, 10) { *rng.pick(&registered) } else { 40 + rng.below(3) as u32 };
                if s != tgt && !srcs.contains(&s) {
                    srcs.push(s);
                }
            }
            if srcs.is_empty() {
                continue;
            }
            registered.retain(|p| !srcs.contains(p));
            scheduled.extend(srcs.iter().copied());
            ops.push(Op::C { tgt, srcs });
        } else if r < 55 {
            let mut d = tick(rng, grace_s);
            if l0 == 0 && rng.chance(1, 10) {
                // the wall clock is stepped back (NTP, operator)
                d = -rng.range_i64(1, 40);
                report.bump("gen.clock_stepped_back");
            }
            elapsed += d;
            ops.push(Op::T(d));
        } else if r < 67 {
            // pins: mostly on paths that are (about to be) scheduled
            let q = next_q;
            next_q += 1;
            queries.push(q);
            if rng.chance(1, 3) {
                let lo = elapsed - r_s - SKEW_S - 10 * DAY_S;
                ops.push(Op::PQ { q, s: Ts::Rel(lo), e: Ts::Rel(elapsed + 10) });
            } else {
                let pool: Vec<u32> = if !scheduled.is_empty() && rng.chance(3, 4) { scheduled.clone() } else { (1..next_path.max(2)).collect() };
                let mut ps = vec![*rng.pick(&pool)];
                if rng.chance(1, 3) {
                    ps.push(*rng.pick(&pool));
                }
                if open {
                    report.bump("gen.pin_inside_cycle");
                }
                ops.push(Op::P { q, ps });
            }
        } else if r < 75 && !queries.is_empty() {
            let i = rng.below(queries.len() as u64) as usize;
            let q = queries.remove(i);
            ops.push(Op::U { q });
        } else if r < 88 {
            if open {
                match rng.below(3) {
                    0 => {
                        ops.push(Op::GP);
                        open = false;
                    }
                    _ => ops.push(Op::GD),
                }
            } else if rng.chance(1, 2) {
                ops.push(Op::G);
            } else {
                ops.push(Op::GF);
                open = true;
            }
        } else if r < 93 {
            if l0 == 0 && grace_s <= 300 && rng.chance(2, 5) {
                // the operator changes gc_grace_period: shorter -> longer and longer -> shorter
                let g = *rng.pick(&[0u64, 1, 2, 5, 30, 300]);
                report.bump(if g > cur_grace { "gen.restart.longer_grace" } else { "gen.restart.other_grace" });
                cur_grace = g;
                ops.push(Op::RSG(g));
            } else {
                ops.push(Op::RS);
            }
            open = true;
            report.bump("gen.restart");
        } else if r < 96 && l0 == 0 {
            // the pending file is extended from outside: entries dated in the past, now, ahead of the clock
            let g = if grace_s > 100_000 { 5 } else { grace_s as i64 };
            let mut es = Vec::new();
            for _ in 0..rng.range_usize(1, 3) {
                let off = *rng.pick(&[-3600i64, -(g + 1), -g, -1, 0, 1, 25, g, g + 30, 3600]);
                if off > 0 {
                    report.bump("gen.foreign_entry_in_the_future");
                }
                es.push((next_foreign, Ts::Rel(elapsed + off)));
                next_foreign += 1;
            }
            ops.push(Op::DE { es });
            if rng.chance(3, 4) {
                ops.push(Op::RS);
                open = true;
            }
        } else if r < 98 {
            let k = if l0 > 0 { rng.below(3) as u8 } else { 2 };
            report.bump(&format!("gen.metadata_fault.{}", k));
            ops.push(Op::F(k));
        } else if open {
            ops.push(Op::GD);
        } else {
            ops.push(Op::O);
        }
    }
    if open {
        ops.push(Op::GP);
    }
    // let the grace period pass and collect what is left
    ops.push(Op::T(if grace_s > 100_000 { 301 } else { cur_grace.max(grace_s) as i64 } + rng.range_i64(0, 2)));
    for q in queries {
        if rng.chance(2, 3) {
            ops.push(Op::U { q });
        }
    }
    ops.push(Op::G);
    ops.push(Op::O);
    Case { backend, grace_s, retention_days, l0, ops }
}

/// Proof-derived corner cases that always run first.
fn corpus() -> Vec<Case> {
    let rel = Ts::Rel;
    let mut v = Vec::new();
    for backend in [0u8, 1] {
        // the retention straddle (removed by the code before the repair), the chunk before the
        // epoch (never selected before the repair), the boundary max == cut-off second
        let cut = -(DAY_S) - SKEW_S;
        v.push(Case {
            backend,
            grace_s: 300,
            retention_days: 1,
            l0: 0,
            ops: vec![
                Op::R { p: 1, mn: rel(cut - 10 * DAY_S), mx: rel(cut - DAY_S) },
                Op::R { p: 2, mn: rel(cut - DAY_S), mx: rel(cut + 80 * DAY_S) },
                Op::R { p: 3, mn: rel(-3600), mx: rel(0) },
                Op::R { p: 4, mn: Ts::Abs(-100 * S), mx: Ts::Abs(-50 * S) },
                Op::R { p: 5, mn: Ts::Abs(-100 * S), mx: Ts::Abs(50 * S) },
                Op::R { p: 6, mn: rel(cut - 5), mx: rel(cut) },
                Op::R { p: 7, mn: rel(cut - 5), mx: rel(cut + 1) },
                Op::G,
                Op::T(1),
                Op::G,
                Op::T(300),
                Op::G,
                Op::O,
            ],
        });
        // grace boundary: one second short, exactly the grace period
        v.push(Case {
            backend,
            grace_s: 5,
            retention_days: 90,
            l0: 0,
            ops: vec![
                Op::R { p: 1, mn: rel(-10), mx: rel(-5) },
                Op::R { p: 2, mn: rel(-10), mx: rel(-5) },
                Op::R { p: 3, mn: rel(-10), mx: rel(0) },
                Op::C { tgt: 3, srcs: vec![1, 2] },
                Op::T(4),
                Op::G,
                Op::T(1),
                Op::G,
                Op::O,
            ],
        });
        // filter . pin . delete (the known class), then the query reads
        v.push(Case {
            backend,
            grace_s: 0,
            retention_days: 90,
            l0: 0,
            ops: vec![
                Op::R { p: 1, mn: rel(-10), mx: rel(-5) },
                Op::R { p: 2, mn: rel(-10), mx: rel(0) },
                Op::C { tgt: 2, srcs: vec![1] },
                Op::GF,
                Op::P { q: 1, ps: vec![1] },
                Op::GD,
                Op::U { q: 1 },
                Op::GP,
                Op::O,
            ],
        });
        // pin before the filter protects; after the unpin the file goes
        v.push(Case {
            backend,
            grace_s: 0,
            retention_days: 90,
            l0: 0,
            ops: vec![
                Op::R { p: 1, mn: rel(-10), mx: rel(-5) },
                Op::R { p: 2, mn: rel(-10), mx: rel(0) },
                Op::PQ { q: 1, s: rel(-20), e: rel(0) },
                Op::C { tgt: 2, srcs: vec![1] },
                Op::G,
                Op::U { q: 1 },
                Op::G,
                Op::O,
            ],
        });
        // persisted deletions survive a restart; a restart in the middle of a pass
        v.push(Case {
            backend,
            grace_s: 5,
            retention_days: 90,
            l0: 0,
            ops: vec![
                Op::R { p: 1, mn: rel(-10), mx: rel(-5) },
                Op::R { p: 2, mn: rel(-10), mx: rel(-5) },
                Op::R { p: 3, mn: rel(-10), mx: rel(0) },
                Op::C { tgt: 3, srcs: vec![1, 2] },
                Op::G,
                Op::RS,
                Op::GP,
                Op::T(5),
                Op::GF,
                Op::GD,
                Op::RS,
                Op::GP,
                Op::O,
            ],
        });
        // scheduled but not yet persisted: lost by a restart (file leaks, nothing unsafe)
        v.push(Case {
            backend,
            grace_s: 0,
            retention_days: 90,
            l0: 0,
            ops: vec![
                Op::R { p: 1, mn: rel(-10), mx: rel(-5) },
                Op::R { p: 2, mn: rel(-10), mx: rel(0) },
                Op::C { tgt: 2, srcs: vec![1] },
                Op::RS,
                Op::GP,
                Op::O,
            ],
        });
        // retention 0 days: cut-off = now - 30 s
        v.push(Case {
            backend,
            grace_s: 0,
            retention_days: 0,
            l0: 0,
            ops: vec![
                Op::R { p: 1, mn: rel(-100), mx: rel(-31) },
                Op::R { p: 2, mn: rel(-100), mx: rel(-30) },
                Op::R { p: 3, mn: rel(-100), mx: rel(-29) },
                Op::G,
                Op::T(1),
                Op::G,
                Op::T(1),
                Op::G,
                Op::O,
            ],
        });
        // a real compaction inside the cycle: sources scheduled at the swap, deleted one grace
        // period later and not before; the merged chunk stays
        v.push(Case {
            backend,
            grace_s: 5,
            retention_days: 90,
            l0: 2,
            ops: vec![
                Op::R { p: 1, mn: rel(-50), mx: rel(-40) },
                Op::R { p: 2, mn: rel(-50), mx: rel(-30) },
                Op::G,
                Op::T(4),
                Op::G,
                Op::T(1),
                Op::GF,
                Op::GD,
                Op::GP,
                Op::O,
            ],
        });
        // ... with grace 0 the same cycle that compacts also deletes; a pin taken before protects
        v.push(Case {
            backend,
            grace_s: 0,
            retention_days: 90,
            l0: 2,
            ops: vec![
                Op::R { p: 1, mn: rel(-50), mx: rel(-40) },
                Op::R { p: 2, mn: rel(-50), mx: rel(-30) },
                Op::PQ { q: 1, s: rel(-45), e: rel(-35) },
                Op::G,
                Op::U { q: 1 },
                Op::RS,
                Op::GP,
                Op::O,
            ],
        });
        // persisted under a short grace period, restarted with a LONGER one: the file must wait for
        // the grace period of the incarnation that deletes it (and the other way round)
        v.push(Case {
            backend,
            grace_s: 1,
            retention_days: 90,
            l0: 0,
            ops: vec![
                Op::R { p: 1, mn: rel(-10), mx: rel(-5) },
                Op::R { p: 2, mn: rel(-10), mx: rel(0) },
                Op::C { tgt: 2, srcs: vec![1] },
                Op::G,
                Op::T(2),
                Op::RSG(30),
                Op::GP,
                Op::T(27),
                Op::G,
                Op::T(1),
                Op::G,
                Op::O,
            ],
        });
        v.push(Case {
            backend,
            grace_s: 300,
            retention_days: 90,
            l0: 0,
            ops: vec![
                Op::R { p: 1, mn: rel(-10), mx: rel(-5) },
                Op::R { p: 2, mn: rel(-10), mx: rel(0) },
                Op::C { tgt: 2, srcs: vec![1] },
                Op::G,
                Op::T(4),
                Op::RSG(5),
                Op::GP,
                Op::T(1),
                Op::G,
                Op::O,
            ],
        });
        // a pending file written by a predecessor whose clock ran ahead: one entry 25 s in the
        // future, one due an hour ago; picked up by `run` after a restart.  The future entry waits
        // until the clock has passed its own timestamp by the grace period
        v.push(Case {
            backend,
            grace_s: 5,
            retention_days: 90,
            l0: 0,
            ops: vec![
                Op::DE { es: vec![(60, rel(25)), (61, rel(-3600))] },
                Op::RS,
                Op::GP,
                Op::T(29),
                Op::G,
                Op::T(1),
                Op::G,
                Op::O,
            ],
        });
        // the wall clock is stepped back between scheduling and the pass: the entry is then dated
        // ahead of the clock and waits
        v.push(Case {
            backend,
            grace_s: 5,
            retention_days: 90,
            l0: 0,
            ops: vec![
                Op::R { p: 1, mn: rel(-10), mx: rel(-5) },
                Op::R { p: 2, mn: rel(-10), mx: rel(0) },
                Op::C { tgt: 2, srcs: vec![1] },
                Op::T(-30),
                Op::G,
                Op::T(34),
                Op::G,
                Op::T(1),
                Op::G,
                Op::O,
            ],
        });
        // retention after the wall clock was stepped back: the cut-off comes from the bounded clock
        v.push(Case {
            backend,
            grace_s: 0,
            retention_days: 0,
            l0: 0,
            ops: vec![
                Op::G,
                Op::T(-20),
                Op::R { p: 1, mn: rel(-100), mx: rel(-31) },
                Op::R { p: 2, mn: rel(-100), mx: rel(-45) },
                Op::G,
                Op::O,
            ],
        });
        // the catalog swap fails once after a successful merge: nothing may be scheduled, the
        // sources stay referenced and must still be there after the grace period
        v.push(Case {
            backend,
            grace_s: 2,
            retention_days: 90,
            l0: 2,
            ops: vec![
                Op::R { p: 1, mn: rel(-50), mx: rel(-40) },
                Op::R { p: 2, mn: rel(-50), mx: rel(-30) },
                Op::F(0),
                Op::G,
                Op::T(2),
                Op::G,
                Op::T(300),
                Op::G,
                Op::T(2),
                Op::G,
                Op::O,
            ],
        });
        // register_chunk of the merged chunk fails: the group is given up, the cycle goes on
        v.push(Case {
            backend,
            grace_s: 0,
            retention_days: 90,
            l0: 2,
            ops: vec![
                Op::R { p: 1, mn: rel(-50), mx: rel(-40) },
                Op::R { p: 2, mn: rel(-50), mx: rel(-30) },
                Op::F(1),
                Op::G,
                Op::T(1),
                Op::G,
                Op::O,
            ],
        });
        // delete_chunk fails in the retention pass: nothing is scheduled for the chunk that stays
        v.push(Case {
            backend,
            grace_s: 0,
            retention_days: 0,
            l0: 0,
            ops: vec![
                Op::R { p: 1, mn: rel(-100), mx: rel(-40) },
                Op::R { p: 2, mn: rel(-100), mx: rel(-50) },
                Op::R { p: 3, mn: rel(-10), mx: rel(0) },
                Op::C { tgt: 3, srcs: vec![2] },
                Op::F(2),
                Op::GF,
                Op::GD,
                Op::T(1),
                Op::G,
                Op::T(1),
                Op::G,
                Op::O,
            ],
        });
        // settings at the edge of what chrono / i64 can hold: nothing may be deleted or expired
        for (g, r) in [(u64::MAX, 90u32), (400_000 * 365 * 86_400, 90), (300, 200_000), (300, u32::MAX), (0, 106_752)] {
            v.push(Case {
                backend,
                grace_s: g,
                retention_days: r,
                l0: 0,
                ops: vec![
                    Op::R { p: 1, mn: rel(-10), mx: rel(-5) },
                    Op::R { p: 2, mn: rel(-3600), mx: rel(0) },
                    Op::R { p: 3, mn: rel(-200 * DAY_S), mx: rel(-100 * DAY_S) },
                    Op::C { tgt: 2, srcs: vec![1] },
                    Op::T(301),
                    Op::G,
                    Op::T(301),
                    Op::G,
                    Op::O,
                ],
            });
        }
    }
    v
}

/// Every interleaving of one query bracket (pin ... read+unpin) with one GC pass over two
/// expired paths (filter, delete, delete, persist), for each pin set and backend.
fn interleavings() -> Vec<Case> {
    fn merge(a: &[Op], b: &[Op], acc: &mut Vec<Op>, out: &mut Vec<Vec<Op>>) {
        if a.is_empty() && b.is_empty() {
            out.push(acc.clone());
            return;
        }
        if let Some((x, r)) = a.split_first() {
            acc.push(x.clone());
            merge(r, b, acc, out);
            acc.pop();
        }
        if let Some((x, r)) = b.split_first() {
            acc.push(x.clone());
            merge(a, r, acc, out);
            acc.pop();
        }
    }
    let rel = Ts::Rel;
    let mut v = Vec::new();
    for backend in [0u8, 1] {
        for ps in [vec![1u32], vec![2], vec![1, 2]] {
            for fresh in [false, true] {
                let gc = vec![Op::GF, Op::GD, Op::GD, Op::GP];
                let q = if fresh {
                    vec![Op::PQ { q: 1, s: rel(-20), e: rel(10) }, Op::U { q: 1 }]
                } else {
                    vec![Op::P { q: 1, ps: ps.clone() }, Op::U { q: 1 }]
                };
                if fresh && ps.len() != 2 {
                    continue;
                }
                let mut outs = Vec::new();
                merge(&gc, &q, &mut Vec::new(), &mut outs);
                for mid in outs {
                    let mut ops = vec![
                        Op::R { p: 1, mn: rel(-10), mx: rel(-5) },
                        Op::R { p: 2, mn: rel(-10), mx: rel(-5) },
                        Op::R { p: 3, mn: rel(-10), mx: rel(0) },
                        Op::C { tgt: 3, srcs: vec![1, 2] },
                        Op::T(2),
                    ];
                    ops.extend(mid);
                    ops.extend([Op::T(2), Op::G, Op::O]);
                    v.push(Case { backend, grace_s: 2, retention_days: 90, l0: 0, ops });
                }
            }
        }
    }
    v
}

fn nontrivial(c: &Case) -> bool {
    c.ops.iter().any(|o| matches!(o, Op::G | Op::GF | Op::RS | Op::RSG(_))) && c.ops.iter().any(|o| matches!(o, Op::R { .. }))
}

fn main() {
    let args = Args::parse();
    csv_common::quiet_panics();
    let rt = tokio::runtime::Builder::new_current_thread().enable_all().build().unwrap();
    let mut model = Model::spawn(&args.model);
    let mut report = Report::new("C09");

    if let Some(path) = &args.replay {
        let txt = std::fs::read_to_string(path).expect("replay file");
        let v: serde_json::Value = serde_json::from_str(&txt).expect("replay json");
        let cv = &v["case"];
        let line = cv.as_str().or_else(|| cv["case"].as_str()).or_else(|| cv["shrunk"].as_str()).unwrap_or("").to_string();
        if line.starts_with("clock") {
            let bad = run_clock_scenario(&line);
            println!("case : {}\noracle failures: {:?}", line, bad);
            std::process::exit(if bad.is_empty() { 0 } else { 1 });
        }
        if let Some(b) = line.strip_prefix("query-scenario b=") {
            let (name, impl_out, mline, viol, trace) = rt.block_on(run_query_scenario(b.trim().parse().unwrap_or(0)));
            let m = model.ask(&mline);
            let mbody = m.split_once("#K=").map(|(b, _)| b.to_string()).unwrap_or(m.clone());
            println!("case : {}\nimpl : {}\nmodel: {}\ntrace:\n  {}\noracle failures: {:?}", name, impl_out, mbody, trace.join("\n  "), viol);
            std::process::exit(if viol.is_empty() && (model.is_null() || mbody == impl_out) { 0 } else { 1 });
        }
        let case = case_parse(&line);
        let (out, mbody, flag) = run_checked(&rt, &mut model, &case);
        println!(
            "case : {}\nimpl : {}\nmodel: {}\nmodel class flag (pin-toctou): {}\noracle failures: {:?}",
            line, out.impl_out, mbody, flag, out.violations
        );
        let bad = out.violations.iter().any(|(c, _)| c != KNOWN_CLASS) || (!model.is_null() && out.impl_out != mbody);
        std::process::exit(if bad { 1 } else { 0 });
    }

    let n_random = if args.thorough() { 12_000 } else { 900 };
    let mut rng = Rng::new(args.seed);
    let mut cases: Vec<(&'static str, Case)> = corpus().into_iter().map(|c| ("corpus", c)).collect();
    cases.extend(interleavings().into_iter().map(|c| ("interleaving", c)));
    for _ in 0..n_random {
        let mut r = rng.fork();
        cases.push(("random", gen_case(&mut r, &mut report)));
    }

    // the real query bracket (QueryNode + DataFusion), both backends
    for backend in [0u8, 1] {
        let (name, impl_out, mline, viol, trace) = rt.block_on(run_query_scenario(backend));
        report.case(Some(&name));
        report.impl_runs += 1;
        report.bump("origin.query_scenario");
        let m = model.ask(&mline);
        let mbody = m.split_once("#K=").map(|(b, _)| b.to_string()).unwrap_or(m.clone());
        if args.get("trace").is_some() {
            eprintln!("{}\n  impl : {}\n  model: {}\n  {}", name, impl_out, mbody, trace.join("\n  "));
        }
        if !model.is_null() && mbody != impl_out {
            report.disagreement(json!({
                "correspondence": "query bracket of QueryNode::query_for_tenant + GC cycle vs Model/Gc.v",
                "case": name, "impl": impl_out, "model": mbody, "shrunk": name, "trace": trace,
                "oracle_failed": !viol.is_empty(),
            }));
        }
        for (class, what) in viol {
            report.oracle_violation(&class, &what, json!({"case": name, "trace": trace}));
        }
    }

    // the clock alone
    for _ in 0..(if args.thorough() { 2_000 } else { 200 }) {
        let mut r = rng.fork();
        let (text, bad) = clock_scenario(&mut r);
        report.case(Some(&text));
        report.impl_runs += 1;
        report.bump("origin.clock_scenario");
        for b in bad {
            report.oracle_violation("", &b, json!({"case": text}));
        }
    }

    let mut timing_skips = 0u64;
    // work is bounded under a breaking change: stop after MAX_FINDINGS unclassified findings, a
    // shrink may re-run the case at most SHRINK_BUDGET times, the report is rewritten as it grows
    const MAX_FINDINGS: usize = 10;
    const SHRINK_BUDGET: usize = 120;
    let mut findings = 0usize;
    let total = cases.len();
    for (idx, (origin, case)) in cases.into_iter().enumerate() {
        if findings >= MAX_FINDINGS {
            report.notes.push(format!("stopped after {} unclassified findings at case {} of {}", findings, idx, total));
            break;
        }
        if idx % 200 == 199 {
            report.write(&args.out);
        }
        let line = case_text(&case);
        report.case(if nontrivial(&case) { Some(&line) } else { None });
        report.bump(&format!("origin.{}", origin));
        let (out, mbody, flag) = run_checked(&rt, &mut model, &case);
        report.impl_runs += 1;
        for (k, n) in &out.stats {
            report.bump_by(k, *n);
        }
        if out.timing_invalid {
            // the machine stalled for more than the clock phase in every attempt: the
            // comparison would not be meaningful
            timing_skips += 1;
            continue;
        }
        if flag {
            report.bump("class.pin_toctou_by_model");
        }
        report.sample(json!({"history": line, "impl": out.impl_out, "model": mbody}));
        let differs = !model.is_null() && mbody != out.impl_out;
        if differs {
            let mut budget = SHRINK_BUDGET;
            let shrunk_ops = ddmin(&case.ops, &mut |cand: &[Op]| {
                if budget == 0 {
                    return false;
                }
                budget -= 1;
                let c = Case { ops: cand.to_vec(), ..case.clone() };
                let (o, m, _) = run_checked(&rt, &mut model, &c);
                !o.timing_invalid && m != o.impl_out
            });
            let sc = Case { ops: shrunk_ops, ..case.clone() };
            let (so, sm, _) = run_checked(&rt, &mut model, &sc);
            report.disagreement(json!({
                "correspondence": "GC/retention/pin model (Model/Gc.v) vs Compactor + ChunkPinRegistry",
                "case": line, "impl": out.impl_out, "model": mbody,
                "shrunk": case_text(&sc), "shrunk_impl": so.impl_out, "shrunk_model": sm,
                "oracle_failed": !out.violations.is_empty() || !so.violations.is_empty(),
            }));
            findings += 1;
            report.write(&args.out);
        }
        // oracle
        let mut seen: BTreeSet<String> = BTreeSet::new();
        for (class, what) in &out.violations {
            // the harness's classifier and the model's must agree on the known class
            let class = if class == KNOWN_CLASS && !model.is_null() && !flag { "" } else { class.as_str() };
            if class == KNOWN_CLASS {
                report.bump("known.pin_toctou_observed");
            }
            let key = format!("{}|{}", class, what.split(' ').take(6).collect::<Vec<_>>().join(" "));
            if !seen.insert(key) {
                continue;
            }
            let case_json = if class == KNOWN_CLASS {
                json!({"case": line})
            } else {
                let cl = class.to_string();
                let mut budget = SHRINK_BUDGET;
                let shrunk_ops = ddmin(&case.ops, &mut |cand: &[Op]| {
                    if budget == 0 {
                        return false;
                    }
                    budget -= 1;
                    let c = Case { ops: cand.to_vec(), ..case.clone() };
                    let o = run_case_safe(&rt, &c);
                    o.violations.iter().any(|(k, _)| *k == cl || (cl.is_empty() && k != KNOWN_CLASS))
                });
                json!({"case": case_text(&Case { ops: shrunk_ops, ..case.clone() }), "original": line})
            };
            report.oracle_violation(class, what, case_json);
            if class != KNOWN_CLASS {
                findings += 1;
                report.write(&args.out);
            }
        }
    }
    report.notes.push(format!("model calls: {}", model.calls));
    report.notes.push(format!("cases skipped because the machine stalled past the clock phase in every attempt: {}", timing_skips));
    report.write(&args.out);
}
