//! A MetadataClient that forwards every call to the real client and can fail
//! ONE armed call (complete_compaction / register_chunk / delete_chunk) before
//! it takes effect.  Only the compactor goes through it; the harness talks to
//! the real client directly.
use async_trait::async_trait;
use cardinalsin::ingester::ChunkMetadata;
use cardinalsin::metadata::{
    ColumnPredicate, CompactionJob, CompactionLease, CompactionLeases, CompactionStatus, MetadataClient, SplitState,
    TimeIndexEntry, TimeRange,
};
use cardinalsin::sharding::{ShardMetadata, SplitPhase};
use cardinalsin::{Error, Result};
use std::sync::{Arc, Mutex};

#[derive(Clone, Copy, Debug, PartialEq, Eq)]
pub enum Kind {
    CompleteCompaction,
    RegisterChunk,
    DeleteChunk,
}

#[derive(Clone, Debug)]
pub struct Fired {
    pub kind: Kind,
    pub srcs: Vec<String>,
    pub tgt: String,
}

pub struct FaultMeta {
    pub inner: Arc<dyn MetadataClient>,
    armed: Mutex<Option<Kind>>,
    fired: Mutex<Vec<Fired>>,
}

impl FaultMeta {
    pub fn new(inner: Arc<dyn MetadataClient>) -> FaultMeta {
        FaultMeta { inner, armed: Mutex::new(None), fired: Mutex::new(Vec::new()) }
    }
    pub fn arm(&self, k: Kind) {
        *self.armed.lock().unwrap() = Some(k);
    }
    pub fn disarm(&self) {
        *self.armed.lock().unwrap() = None;
    }
    pub fn take_fired(&self) -> Vec<Fired> {
        std::mem::take(&mut *self.fired.lock().unwrap())
    }
    fn trip(&self, k: Kind, srcs: &[String], tgt: &str) -> Result<()> {
        let mut a = self.armed.lock().unwrap();
        if *a == Some(k) {
            *a = None;
            self.fired.lock().unwrap().push(Fired { kind: k, srcs: srcs.to_vec(), tgt: tgt.to_string() });
            return Err(Error::Metadata(format!("injected metadata fault (before effect) on {:?}", k)));
        }
        Ok(())
    }
}

#[async_trait]
impl MetadataClient for FaultMeta {
    async fn register_chunk(&self, path: &str, metadata: &ChunkMetadata) -> Result<()> {
        self.trip(Kind::RegisterChunk, &[], path)?;
        self.inner.register_chunk(path, metadata).await
    }
    async fn get_chunks(&self, range: TimeRange) -> Result<Vec<TimeIndexEntry>> {
        self.inner.get_chunks(range).await
    }
    async fn get_chunks_with_predicates(&self, range: TimeRange, predicates: &[ColumnPredicate]) -> Result<Vec<TimeIndexEntry>> {
        self.inner.get_chunks_with_predicates(range, predicates).await
    }
    async fn get_chunk(&self, path: &str) -> Result<Option<ChunkMetadata>> {
        self.inner.get_chunk(path).await
    }
    async fn delete_chunk(&self, path: &str) -> Result<()> {
        self.trip(Kind::DeleteChunk, &[], path)?;
        self.inner.delete_chunk(path).await
    }
    async fn list_chunks(&self) -> Result<Vec<TimeIndexEntry>> {
        self.inner.list_chunks().await
    }
    async fn get_l0_candidates(&self, min_count: usize) -> Result<Vec<Vec<String>>> {
        self.inner.get_l0_candidates(min_count).await
    }
    async fn get_level_candidates(&self, level: usize, target_size: usize) -> Result<Vec<Vec<String>>> {
        self.inner.get_level_candidates(level, target_size).await
    }
    async fn create_compaction_job(&self, job: CompactionJob) -> Result<()> {
        self.inner.create_compaction_job(job).await
    }
    async fn complete_compaction(&self, source_chunks: &[String], target_chunk: &str) -> Result<()> {
        self.trip(Kind::CompleteCompaction, source_chunks, target_chunk)?;
        self.inner.complete_compaction(source_chunks, target_chunk).await
    }
    async fn update_compaction_status(&self, job_id: &str, status: CompactionStatus) -> Result<()> {
        self.inner.update_compaction_status(job_id, status).await
    }
    async fn get_pending_compaction_jobs(&self) -> Result<Vec<CompactionJob>> {
        self.inner.get_pending_compaction_jobs().await
    }
    async fn cleanup_completed_jobs(&self, max_age_secs: i64) -> Result<usize> {
        self.inner.cleanup_completed_jobs(max_age_secs).await
    }
    async fn start_split(&self, old_shard: &str, new_shards: Vec<String>, split_point: Vec<u8>) -> Result<()> {
        self.inner.start_split(old_shard, new_shards, split_point).await
    }
    async fn get_split_state(&self, shard_id: &str) -> Result<Option<SplitState>> {
        self.inner.get_split_state(shard_id).await
    }
    async fn update_split_progress(&self, shard_id: &str, progress: f64, phase: SplitPhase) -> Result<()> {
        self.inner.update_split_progress(shard_id, progress, phase).await
    }
    async fn complete_split(&self, old_shard: &str) -> Result<()> {
        self.inner.complete_split(old_shard).await
    }
    async fn get_chunks_for_shard(&self, shard_id: &str) -> Result<Vec<TimeIndexEntry>> {
        self.inner.get_chunks_for_shard(shard_id).await
    }
    async fn get_shard_metadata(&self, shard_id: &str) -> Result<Option<ShardMetadata>> {
        self.inner.get_shard_metadata(shard_id).await
    }
    async fn update_shard_metadata(&self, shard_id: &str, metadata: &ShardMetadata, expected_generation: u64) -> Result<()> {
        self.inner.update_shard_metadata(shard_id, metadata, expected_generation).await
    }
    async fn acquire_lease(&self, node_id: &str, chunks: &[String], level: u32) -> Result<CompactionLease> {
        self.inner.acquire_lease(node_id, chunks, level).await
    }
    async fn complete_lease(&self, lease_id: &str) -> Result<()> {
        self.inner.complete_lease(lease_id).await
    }
    async fn fail_lease(&self, lease_id: &str) -> Result<()> {
        self.inner.fail_lease(lease_id).await
    }
    async fn renew_lease(&self, lease_id: &str) -> Result<()> {
        self.inner.renew_lease(lease_id).await
    }
    async fn load_leases(&self) -> Result<CompactionLeases> {
        self.inner.load_leases().await
    }
    async fn scavenge_leases(&self) -> Result<usize> {
        self.inner.scavenge_leases().await
    }
    async fn has_active_split(&self) -> Result<bool> {
        self.inner.has_active_split().await
    }
}
