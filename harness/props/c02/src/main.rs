//! csv-c02 — correspondence + oracle for C02 (catalog mutations are atomic and
//! never lost under concurrency).
//!
//! 2–4 real ObjectStoreMetadataClient instances, each over its own SchedStore
//! handle (`hub.client(k)`) on one InMemory store, run register / delete /
//! complete-compaction programs under a generated schedule at the granularity
//! of single object-store requests (first-write creation races: a load of the
//! absent catalog is three GETs; conflict exhaustion: a client starved for
//! MAX_CAS_RETRIES attempts gets TooManyRetries).  Every version of
//! catalog.json is captured.  Compared with the extracted Coq model
//! (modelrun-c02) on the executed schedule: the kind of every request, every
//! op result, every captured version (chunk map with levels + time index),
//! list_chunks from a FRESH client at quiescence.
//!
//! Fault leg: schedule entries may carry Action::FailBefore / FailAfter (that one
//! request of that client fails with a transport error before / after taking
//! effect), interleaved with the other clients' requests.  The theorems of
//! Properties/C02.v do not speak about fault steps (CasProto has none): the
//! model side of the comparison then runs Model/CasFault.v (harness-only copy of
//! the machine with fault labels) and the oracle judges the implementation.
//! Judgement of faults, from the property text: "reports success => reflected"
//! and "reports failure => no effect" are about the outcomes the API defines
//! (Ok, TooManyRetries, Metadata errors); the property quantifies over
//! interleavings, not storage faults.  A mutation that returns a TRANSPORT error
//! has an indeterminate outcome (lost acknowledgement): it counts as "took
//! effect" iff its own conditional PUT was applied (only possible for a
//! FailAfter PUT).  So under faults: every Ok mutation wrote exactly one version
//! through its own PUT; every definite failure and every fault that hit before
//! effect wrote nothing; the versions are the effective mutations (Ok ones +
//! applied lost-ack ones) applied one after the other; every version is
//! well-formed; "fault" results only for mutations actually hit by a fault.
//!
//! Oracle (independent of the model): every captured version is well-formed
//! (every time-index path is in the chunk map; every chunk is in all hour
//! buckets of its interval); #versions = #Ok results; the chunk map of the
//! final catalog equals SOME sequential order of the successful ops (the
//! commit order first, then all permutations for <= 6 ops) computed with a
//! plain path -> metadata map; failed ops are not in it; TooManyRetries only
//! after MAX_CAS_RETRIES conflicting PUTs of that op.
use cardinalsin::ingester::ChunkMetadata;
use cardinalsin::metadata::{
    MetadataCatalog, MetadataClient, ObjectStoreMetadataClient, ObjectStoreMetadataConfig,
};
use cardinalsin::Error;
use csv_cascommon::{all_sequences, ddmin_capped, drive_faults, parse_step_token, step_token};
use csv_common::sched::{Action, Hub};
use csv_common::{Args, Model, Report, Rng};
use futures::future::LocalBoxFuture;
use futures::FutureExt;
use object_store::memory::InMemory;
use object_store::ObjectStore;
use serde_json::json;
use std::collections::BTreeMap;
use std::panic::AssertUnwindSafe;
use std::sync::Arc;

const H: i64 = 3_600_000_000_000;
const MAX_CAS_RETRIES: usize = 5;
const MAX_FINDINGS: usize = 10;
const SHRINK_BUDGET: usize = 120;

#[derive(Clone, Debug, PartialEq)]
enum Op {
    R { p: u32, min: i64, max: i64, rows: u64, size: u64 },
    D { p: u32 },
    C { tgt: u32, srcs: Vec<u32> },
}

#[derive(Clone, Debug, PartialEq)]
struct Case {
    progs: Vec<Vec<Op>>,
    sched: Vec<(usize, Action)>,
}

fn pname(p: u32) -> String {
    format!("chunk_{}.parquet", p)
}
fn pid(s: &str) -> u32 {
    s.trim_start_matches("chunk_").trim_end_matches(".parquet").parse().unwrap_or(999_999)
}

fn op_text(o: &Op) -> String {
    match o {
        Op::R { p, min, max, rows, size } => format!("R {} {} {} {} {}", p, min, max, rows, size),
        Op::D { p } => format!("D {}", p),
        Op::C { tgt, srcs } => {
            if srcs.is_empty() {
                format!("C {}", tgt)
            } else {
                format!("C {} {}", tgt, srcs.iter().map(|s| s.to_string()).collect::<Vec<_>>().join(","))
            }
        }
    }
}

fn parse_op(t: &str) -> Op {
    let f: Vec<&str> = t.trim().split(' ').collect();
    match f[0] {
        "R" => Op::R { p: f[1].parse().unwrap(), min: f[2].parse().unwrap(), max: f[3].parse().unwrap(), rows: f[4].parse().unwrap(), size: f[5].parse().unwrap() },
        "D" => Op::D { p: f[1].parse().unwrap() },
        _ => Op::C { tgt: f[1].parse().unwrap(), srcs: if f.len() > 2 { f[2].split(',').map(|s| s.parse().unwrap()).collect() } else { vec![] } },
    }
}

fn encode(c: &Case, executed: &[(usize, Action)]) -> String {
    let progs = c.progs.iter().map(|p| p.iter().map(op_text).collect::<Vec<_>>().join(";")).collect::<Vec<_>>().join("/");
    format!("S|progs={}|sched={}", progs, executed.iter().map(|(c, a)| step_token(*c, *a)).collect::<Vec<_>>().join(","))
}

fn p(cs: &[usize]) -> Vec<(usize, Action)> {
    cs.iter().map(|c| (*c, Action::Proceed)).collect()
}

fn decode(line: &str) -> Case {
    let mut progs = Vec::new();
    let mut sched = Vec::new();
    for f in line.split('|') {
        if let Some(v) = f.strip_prefix("progs=") {
            progs = v.split('/').map(|p| p.split(';').filter(|x| !x.trim().is_empty()).map(parse_op).collect()).collect();
        } else if let Some(v) = f.strip_prefix("sched=") {
            sched = v.split(',').filter(|x| !x.is_empty()).map(parse_step_token).collect();
        }
    }
    Case { progs, sched }
}

fn res_string(r: &cardinalsin::Result<()>) -> String {
    match r {
        Ok(()) => "ok".into(),
        Err(Error::TooManyRetries) => "retries".into(),
        // transport errors: a failing GET surfaces as Metadata("Failed to load ..."), a failing PUT as ObjectStore
        Err(Error::ObjectStore(_)) => "fault".into(),
        Err(Error::Metadata(m)) if m.starts_with("Failed to load") => "fault".into(),
        Err(Error::Metadata(_)) => "err".into(),
        Err(Error::Conflict) => "conflict".into(),
        Err(e) => format!("other({})", e).replace(['|', ';', '/', ',', '#'], "_"),
    }
}

/// chunk map of a catalog version: p -> (min, max, rows, size, level)
type ChunkMap = BTreeMap<u32, (i64, i64, u64, u64, u32)>;

fn chunk_map(cat: &MetadataCatalog) -> ChunkMap {
    cat.chunks.iter().map(|(k, e)| (pid(k), (e.base.min_timestamp, e.base.max_timestamp, e.base.row_count, e.base.size_bytes, e.level))).collect()
}

fn show_version(cat: &MetadataCatalog) -> String {
    let chunks = chunk_map(cat).iter().map(|(p, v)| format!("{}:{}:{}:{}:{}:{}", p, v.0, v.1, v.2, v.3, v.4)).collect::<Vec<_>>().join(",");
    let idx = cat.time_index.iter().map(|(b, l)| format!("{}={}", b, l.iter().map(|s| pid(s).to_string()).collect::<Vec<_>>().join("."))).collect::<Vec<_>>().join(",");
    format!("{}@{}", chunks, idx)
}

/// the oracle's well-formedness predicate on one captured version
fn wf_failures(cat: &MetadataCatalog, which: usize) -> Vec<String> {
    let mut bad = Vec::new();
    for (b, l) in &cat.time_index {
        for p in l {
            if !cat.chunks.contains_key(p) {
                bad.push(format!("version {}: time index bucket {} lists {} which is not in the chunk map", which, b, p));
            }
        }
        if *b % H != 0 {
            bad.push(format!("version {}: time index key {} is not an hour bucket", which, b));
        }
    }
    for (k, e) in &cat.chunks {
        if e.base.path != *k {
            bad.push(format!("version {}: chunk key {} holds metadata of {}", which, k, e.base.path));
        }
        let (mn, mx) = (e.base.min_timestamp, e.base.max_timestamp);
        if mn > mx {
            continue;
        }
        let mut b = (mn / H) * H;
        let eb = (mx / H) * H;
        while b <= eb {
            if !cat.time_index.get(&b).map(|l| l.contains(k)).unwrap_or(false) {
                bad.push(format!("version {}: chunk {} [{}, {}] is missing from hour bucket {}", which, k, mn, mx, b));
                break;
            }
            match b.checked_add(H) {
                Some(n) => b = n,
                None => break,
            }
        }
    }
    if cat.version != 2 {
        bad.push(format!("version {}: schema version field is {}", which, cat.version));
    }
    bad
}

/// plain sequential reference: applies one successful op; None = that op
/// could not have succeeded in this state (compaction target missing)
fn ref_apply(m: &ChunkMap, o: &Op) -> Option<ChunkMap> {
    let mut m = m.clone();
    match o {
        Op::R { p, min, max, rows, size } => {
            m.insert(*p, (*min, *max, *rows, *size, 0));
        }
        Op::D { p } => {
            m.remove(p);
        }
        Op::C { tgt, srcs } => {
            let lvl = srcs.iter().filter_map(|s| m.get(s).map(|v| v.4)).max().unwrap_or(0) + 1;
            for s in srcs {
                m.remove(s);
            }
            match m.get_mut(tgt) {
                Some(v) => v.4 = lvl,
                None => return None,
            }
        }
    }
    Some(m)
}

fn permutations(n: usize) -> Vec<Vec<usize>> {
    if n == 0 {
        return vec![vec![]];
    }
    let mut out = Vec::new();
    for p in permutations(n - 1) {
        for i in 0..=p.len() {
            let mut q = p.clone();
            q.insert(i, n - 1);
            out.push(q);
        }
    }
    out
}

struct ImplOut {
    line: String,
    executed: Vec<(usize, Action)>,
    bad: Vec<String>,
    conflicts: usize,
    retries: usize,
    create_conflicts: usize,
    faults: usize,
}

/// Runs one case; a panic of the implementation or of this harness is caught
/// and reported as an oracle failure of that case.
fn run_impl(c: &Case) -> ImplOut {
    let r = std::panic::catch_unwind(AssertUnwindSafe(|| {
        let rt = tokio::runtime::Builder::new_current_thread().enable_all().start_paused(true).build().unwrap();
        let local_set = tokio::task::LocalSet::new();
        rt.block_on(local_set.run_until(run_impl_async(c)))
    }));
    match r {
        Ok(o) => o,
        Err(e) => {
            let msg = e.downcast_ref::<&str>().map(|s| s.to_string()).or_else(|| e.downcast_ref::<String>().cloned()).unwrap_or_else(|| "panic".into());
            ImplOut { line: "PANIC".into(), executed: c.sched.clone(), bad: vec![format!("panic while running the case: {}", msg)], conflicts: 0, retries: 0, create_conflicts: 0, faults: 0 }
        }
    }
}

async fn run_impl_async(c: &Case) -> ImplOut {
    let mut bad: Vec<String> = Vec::new();
    let store: Arc<dyn ObjectStore> = Arc::new(InMemory::new());
    let cfg = ObjectStoreMetadataConfig {
        bucket: "b".into(),
        metadata_prefix: "metadata/".into(),
        enable_cache: true,
        allow_unsafe_overwrite: false,
    };
    let hub = Hub::new(store.clone());
    hub.watch("catalog.json");
    let n = c.progs.len();
    let mut tasks: Vec<LocalBoxFuture<'static, ()>> = Vec::new();
    for k in 0..n {
        let client = ObjectStoreMetadataClient::new(hub.client(k), cfg.clone());
        let ops = c.progs[k].clone();
        let hub2 = hub.clone();
        tasks.push(
            async move {
                for o in ops.iter() {
                    let r = match o {
                        Op::R { p, min, max, rows, size } => {
                            let m = ChunkMetadata { path: pname(*p), min_timestamp: *min, max_timestamp: *max, row_count: *rows, size_bytes: *size };
                            client.register_chunk(&m.path, &m).await
                        }
                        Op::D { p } => client.delete_chunk(&pname(*p)).await,
                        Op::C { tgt, srcs } => {
                            let names: Vec<String> = srcs.iter().map(|s| pname(*s)).collect();
                            client.complete_compaction(&names, &pname(*tgt)).await
                        }
                    };
                    hub2.note(k, format!("done:{}", res_string(&r)));
                }
            }
            .boxed_local(),
        );
    }
    let nops: Vec<usize> = c.progs.iter().map(|p| p.len()).collect();
    let run = drive_faults(&hub, tasks, &nops, &c.sched, 1500).await;
    if let Some(s) = &run.stuck {
        bad.push(format!("run did not complete: {}", s));
    }
    let conflicts = run.kinds.iter().filter(|k| k.ends_with('-')).count();
    let create_conflicts = run.kinds.iter().filter(|k| k.as_str() == "Pc-").count();
    let faults = run.actions.iter().filter(|a| **a != Action::Proceed).count();
    let op_of_step = run.op_of_step();
    let executed: Vec<(usize, Action)> = run.executed.iter().cloned().zip(run.actions.iter().cloned()).collect();
    for p in &run.paths {
        if !(p.ends_with("catalog.json") || p.ends_with("/metadata.json") || p.ends_with("time-index.json")) {
            bad.push(format!("unexpected object touched by a catalog mutation: {}", p));
        }
    }

    // every version of catalog.json
    let raw = hub.versions_of("catalog.json");
    let mut versions: Vec<MetadataCatalog> = Vec::new();
    for (i, b) in raw.iter().enumerate() {
        match b.as_ref().map(|b| serde_json::from_slice::<MetadataCatalog>(b)) {
            Some(Ok(cat)) => versions.push(cat),
            Some(Err(e)) => bad.push(format!("version {} of catalog.json does not parse: {}", i, e)),
            None => bad.push(format!("catalog.json was deleted (version {})", i)),
        }
    }
    // final state through a FRESH client (the writers cache their own view)
    let fresh = ObjectStoreMetadataClient::new(hub.client(99), cfg.clone());
    let final_list = match fresh.list_chunks().await {
        Ok(v) => {
            let mut items: Vec<(u32, String)> = v.iter().map(|e| (pid(&e.chunk_path), format!("{}:{}:{}:{}:{}", pid(&e.chunk_path), e.min_timestamp, e.max_timestamp, e.row_count, e.size_bytes))).collect();
            items.sort();
            items.into_iter().map(|x| x.1).collect::<Vec<_>>().join(",")
        }
        Err(e) => {
            bad.push(format!("list_chunks from a fresh client failed: {}", e));
            "ERR".into()
        }
    };

    // ---------------- oracle ----------------
    for (i, v) in versions.iter().enumerate() {
        bad.extend(wf_failures(v, i));
    }
    // who wrote each version: the applied PUTs on catalog.json, in order
    let writers: Vec<(usize, usize, usize)> = run
        .log
        .iter()
        .enumerate()
        .filter(|(_, e)| e.info.verb == "PUT" && e.ok && e.info.path.ends_with("catalog.json"))
        .map(|(s, e)| (e.info.client, op_of_step.get(s).cloned().unwrap_or(usize::MAX), s))
        .collect();
    if writers.len() != raw.len() {
        bad.push(format!("{} versions recorded but {} applied PUTs logged", raw.len(), writers.len()));
    }
    let result_of = |k: usize, i: usize| run.results.get(k).and_then(|r| r.get(i)).cloned().unwrap_or_else(|| "missing".into());
    let op_faulted = |k: usize, i: usize| (0..run.executed.len()).any(|s| run.executed[s] == k && op_of_step[s] == i && run.actions[s] != Action::Proceed);
    // effective mutations = the writers, in commit order; each must have reported Ok, or a transport
    // error although its PUT was applied (lost acknowledgement: indeterminate outcome)
    let mut ok_ops: Vec<Op> = Vec::new();
    for (j, (k, i, s)) in writers.iter().enumerate() {
        match c.progs.get(*k).and_then(|p| p.get(*i)) {
            Some(o) => {
                ok_ops.push(o.clone());
                let r = result_of(*k, *i);
                let lost_ack = r == "fault" && run.actions[*s] == Action::FailAfter;
                if r != "ok" && !lost_ack {
                    bad.push(format!("client {} op {} ({}) returned {} but its PUT wrote version {} of catalog.json: a mutation that reported failure had an effect", k, i, op_text(o), r, j));
                }
            }
            None => bad.push(format!("version {} written by an unknown operation", j)),
        }
    }
    let mut n_ok = 0usize;
    for (_, k, i) in &run.finished {
        let r = &run.results[*k][*i];
        match r.as_str() {
            "ok" => {
                n_ok += 1;
                let own = writers.iter().filter(|(wk, wi, _)| wk == k && wi == i).count();
                if own != 1 {
                    bad.push(format!("client {} op {} ({}) reported success but {} versions were written by its own PUT: a successful mutation is not reflected", k, i, op_text(&c.progs[*k][*i]), own));
                }
            }
            "err" => {
                if !matches!(c.progs[*k][*i], Op::C { .. }) {
                    bad.push(format!("client {} op {} ({}) returned a metadata error", k, i, op_text(&c.progs[*k][*i])));
                }
            }
            "retries" => {}
            "fault" => {
                if !op_faulted(*k, *i) {
                    bad.push(format!("client {} op {} returned a transport error although no fault was injected into it", k, i));
                }
            }
            other => bad.push(format!("client {} op {} ended with {}", k, i, other)),
        }
    }
    if faults == 0 && n_ok != versions.len() {
        bad.push(format!("{} mutations reported success but {} versions of catalog.json were written: a success was lost or a failure had an effect", n_ok, versions.len()));
    }
    // TooManyRetries only after MAX_CAS_RETRIES conflicting PUTs of that very op
    {
        let mut start = vec![0usize; n];
        let mut fin = run.finished.clone();
        fin.sort();
        for (step, k, i) in fin {
            let confl = (start[k]..=step).filter(|s| run.executed[*s] == k && run.kinds[*s].ends_with('-')).count();
            let r = &run.results[k][i];
            if r == "retries" && confl != MAX_CAS_RETRIES {
                bad.push(format!("client {} op {} gave up after {} conflicts", k, i, confl));
            }
            if r != "retries" && confl >= MAX_CAS_RETRIES {
                bad.push(format!("client {} op {} saw {} conflicts and still returned {}", k, i, confl, r));
            }
            start[k] = step + 1;
        }
    }
    let final_map: ChunkMap = versions.last().map(chunk_map).unwrap_or_default();
    {
        // what the fresh reader lists must be the last version's chunk map
        let from_version = final_map.iter().map(|(p, v)| format!("{}:{}:{}:{}:{}", p, v.0, v.1, v.2, v.3)).collect::<Vec<_>>().join(",");
        if from_version != final_list {
            bad.push(format!("list_chunks of a fresh client {{{}}} is not the last version written {{{}}}", final_list, from_version));
        }
    }
    // commit order first: every version must be the next successful op applied to its predecessor
    let mut state = Some(ChunkMap::new());
    let mut prefix_ok = versions.len() == ok_ops.len();
    if prefix_ok {
        for (i, o) in ok_ops.iter().enumerate() {
            state = state.as_ref().and_then(|m| ref_apply(m, o));
            if state.as_ref() != Some(&chunk_map(&versions[i])) {
                prefix_ok = false;
                break;
            }
        }
    }
    if !prefix_ok {
        // the property's own wording: SOME one-at-a-time ordering of the successful mutations
        let mut found = false;
        if ok_ops.len() <= 6 {
            for perm in permutations(ok_ops.len()) {
                let mut m = Some(ChunkMap::new());
                for &j in &perm {
                    m = m.as_ref().and_then(|x| ref_apply(x, &ok_ops[j]));
                }
                if m.as_ref() == Some(&final_map) {
                    found = true;
                    break;
                }
            }
        }
        if !found {
            bad.push(format!("the final catalog {:?} equals no one-at-a-time ordering of the effective (successful / applied) mutations [{}]", final_map, ok_ops.iter().map(op_text).collect::<Vec<_>>().join("; ")));
        } else {
            bad.push("the versions of catalog.json are not the successful mutations applied one after the other in commit order (the final catalog matches another ordering)".to_string());
        }
    }

    let steps = run.executed.iter().zip(run.kinds.iter()).map(|(c, k)| format!("{}:{}", c, k)).collect::<Vec<_>>().join(",");
    let res = (0..n).map(|k| run.results[k].join(";")).collect::<Vec<_>>().join("/");
    let vers = versions.iter().map(show_version).collect::<Vec<_>>().join("#");
    let retries = run.results.iter().flatten().filter(|r| r.as_str() == "retries").count();
    let line = format!("steps={}|res={}|vers={}|final={}", steps, res, vers, final_list);
    ImplOut { line, executed, bad, conflicts, retries, create_conflicts, faults }
}

// ---------------------------------------------------------- generators ----
fn gen_ts(rng: &mut Rng) -> i64 {
    let k = rng.range_i64(-2, 4);
    match rng.below(6) {
        0 => k * H,
        1 => k * H - 1,
        2 => k * H + 1,
        3 => k * H + H - 1,
        _ => k * H + rng.range_i64(0, H - 1),
    }
}

fn gen_op(rng: &mut Rng, npaths: u32, uniq: &mut u64) -> Op {
    let r = rng.below(100);
    if r < 55 {
        let a = gen_ts(rng);
        let span = match rng.below(5) {
            0 => 0,
            1 => H,
            2 => rng.range_i64(0, 3 * H),
            _ => rng.range_i64(0, H - 1),
        };
        *uniq += 1;
        Op::R { p: 1 + rng.below(npaths as u64) as u32, min: a, max: a + span, rows: *uniq, size: 10 + *uniq }
    } else if r < 75 {
        Op::D { p: 1 + rng.below(npaths as u64 + 1) as u32 }
    } else {
        let tgt = 1 + rng.below(npaths as u64 + 1) as u32;
        let ns = rng.range_usize(0, 2);
        Op::C { tgt, srcs: (0..ns).map(|_| 1 + rng.below(npaths as u64) as u32).collect() }
    }
}

fn gen_case(rng: &mut Rng, report: &mut Report, with_faults: bool) -> Case {
    let n = rng.range_usize(2, 4);
    let npaths = rng.range_usize(2, 4) as u32;
    let mut uniq = 0u64;
    if !with_faults && rng.chance(1, 8) {
        // conflict exhaustion: client 1 is starved by client 0's commits
        report.bump("family.starvation");
        let writer_ops = rng.range_usize(5, 6);
        let mut p0 = Vec::new();
        for _ in 0..writer_ops {
            let o = gen_op(rng, npaths, &mut uniq);
            // keep the writer's ops committing: no compaction completions that may abort
            p0.push(match o { Op::C { tgt, .. } => Op::D { p: tgt }, x => x });
        }
        let victim = gen_op(rng, npaths, &mut uniq);
        let mut progs = vec![p0, vec![victim]];
        for _ in 2..n {
            progs.push(vec![]);
        }
        let mut sched = Vec::new();
        if rng.chance(1, 2) {
            // victim loads the absent catalog first: its Create conflicts
            sched.extend([1, 1, 1, 0, 0, 0, 0, 1]);
            for _ in 0..4 {
                sched.extend([1, 0, 0, 1]);
            }
        } else {
            sched.extend([0, 0, 0, 0]);
            for _ in 0..5 {
                sched.extend([1, 0, 0, 1]);
            }
        }
        if rng.chance(1, 3) {
            // perturb: the victim may escape
            let i = rng.range_usize(0, sched.len() - 1);
            sched[i] = rng.below(2) as usize;
        }
        return Case { progs, sched: p(&sched) };
    }
    let mut progs = Vec::new();
    for _ in 0..n {
        let k = rng.range_usize(1, 3);
        progs.push((0..k).map(|_| gen_op(rng, npaths, &mut uniq)).collect());
    }
    let total: usize = progs.iter().map(|p: &Vec<Op>| p.len()).sum();
    let len = rng.range_usize(0, total * 6);
    let clients: Vec<usize> = match rng.below(4) {
        0 => (0..len).map(|i| i % n).collect(),
        1 => {
            let mut s = Vec::new();
            while s.len() < len {
                let c = rng.below(n as u64) as usize;
                for _ in 0..rng.range_usize(1, 4) {
                    s.push(c);
                }
            }
            s
        }
        _ => (0..len).map(|_| rng.below(n as u64) as usize).collect(),
    };
    let sched = clients
        .into_iter()
        .map(|c| {
            let a = if with_faults && rng.chance(1, 6) { if rng.chance(1, 2) { Action::FailBefore } else { Action::FailAfter } } else { Action::Proceed };
            (c, a)
        })
        .collect();
    Case { progs, sched }
}

fn r(p: u32, min: i64, max: i64) -> Op {
    Op::R { p, min, max, rows: p as u64, size: 100 + p as u64 }
}

/// proof-derived corner cases, always run first
fn corpus() -> Vec<Case> {
    let mut v = Vec::new();
    // first-write creation race: GET x3, GET x3, PUT(create), PUT(create, conflict), reload, PUT(update)
    v.push(Case { progs: vec![vec![r(1, 0, 10)], vec![r(2, 5, 2 * H)]], sched: p(&[0, 1, 0, 1, 0, 1, 0, 1, 1, 1]) });
    // lost-update shape GET/GET/PUT/PUT on an existing catalog
    v.push(Case { progs: vec![vec![r(1, 0, 10), r(2, H, H + 5)], vec![r(3, -5, 5)]], sched: p(&[0, 0, 0, 0, 0, 1, 0, 1, 1, 1]) });
    // delete racing a re-registration of the same path; completion whose target is registered concurrently
    v.push(Case { progs: vec![vec![r(1, 0, 10), Op::D { p: 1 }], vec![r(1, 3 * H, 3 * H + 1)], vec![Op::C { tgt: 1, srcs: vec![2] }]], sched: p(&[0, 0, 0, 0, 0, 1, 2, 1, 0, 2, 2, 2]) });
    // conflict exhaustion (the Coq example c02_conflict_exhaustion)
    let mut s = vec![0, 0, 0, 0];
    for _ in 0..5 {
        s.extend([1, 0, 0, 1]);
    }
    v.push(Case { progs: vec![(1..=6).map(|i| r(i, 0, 10)).collect(), vec![Op::D { p: 9 }]], sched: p(&s) });
    // ... and the same with the victim's first attempt being a Create
    let mut s = vec![1, 1, 1, 0, 0, 0, 0, 1];
    for _ in 0..4 {
        s.extend([1, 0, 0, 1]);
    }
    v.push(Case { progs: vec![(1..=6).map(|i| r(i, 0, 10)).collect(), vec![r(7, 0, 1)]], sched: p(&s) });
    // compaction completion: sources removed, level raised; a racing delete of the target
    v.push(Case { progs: vec![vec![r(1, 0, 10), r(2, 20, 30), r(3, 0, 30), Op::C { tgt: 3, srcs: vec![1, 2] }], vec![Op::D { p: 3 }]], sched: p(&[0, 0, 0, 0, 0, 0, 0, 0, 0, 1, 0, 1, 0, 0]) });
    // faults on an existing catalog {1}: client 0's PUT fails (not applied / applied with the ack lost)
    // while client 1's mutation on the same base lands; then both go on
    for a in [Action::FailBefore, Action::FailAfter] {
        let mut sched = p(&[0, 0, 0, 0, 0, 1]);
        sched.push((0, a));
        sched.extend(p(&[1, 0, 1, 0, 1]));
        v.push(Case { progs: vec![vec![r(1, 0, 10), r(2, H, H + 5), Op::D { p: 1 }], vec![r(3, -5, 5)]], sched });
        // the creation itself is hit
        let mut sched = p(&[0, 1, 0, 1, 0, 1]);
        sched.push((0, a));
        sched.extend(p(&[1, 1, 1, 0]));
        v.push(Case { progs: vec![vec![r(1, 0, 10), r(4, 0, 1)], vec![r(2, 5, 2 * H)]], sched });
    }
    // failing GETs: of catalog.json, of a legacy file during the first load, of a reload after a conflict
    v.push(Case { progs: vec![vec![r(1, 0, 10), r(2, 0, 1)], vec![r(3, 0, 1)]], sched: vec![(0, Action::FailBefore), (1, Action::Proceed), (1, Action::FailAfter), (0, Action::Proceed)] });
    v
}

fn exhaustive_cases() -> Vec<Case> {
    let mut v = Vec::new();
    // (a) creation race from the absent catalog: 2 clients x 1 op, every schedule prefix of length 10
    let first: Vec<Op> = vec![r(1, 0, 10), Op::D { p: 1 }, Op::C { tgt: 1, srcs: vec![2] }];
    let second: Vec<Op> = vec![r(1, H, 2 * H), r(2, -1, 1), Op::D { p: 1 }];
    let seqs10 = all_sequences(2, 10);
    for a in &first {
        for b in &second {
            for s in &seqs10 {
                v.push(Case { progs: vec![vec![a.clone()], vec![b.clone()]], sched: p(s) });
            }
        }
    }
    // (b) existing catalog {1, 2}: every pair of mutations, every interleaving (prefix of length 6)
    let ops: Vec<Op> = vec![r(1, 2 * H, 2 * H + 1), r(3, 0, H), Op::D { p: 1 }, Op::D { p: 2 }, Op::C { tgt: 2, srcs: vec![1] }, Op::C { tgt: 3, srcs: vec![1] }];
    let seqs6 = all_sequences(2, 6);
    for a in &ops {
        for b in &ops {
            for s in &seqs6 {
                let mut sched = vec![0, 0, 0, 0, 0, 0];
                sched.extend(s.iter().cloned());
                v.push(Case { progs: vec![vec![r(1, 0, 10), r(2, H - 1, H), a.clone()], vec![b.clone()]], sched: p(&sched) });
            }
        }
    }
    v
}

/// one injected fault at every position x {fail-before, fail-after} of every interleaving of two
/// mutations on an existing catalog {1, 2}
fn exhaustive_fault_cases() -> Vec<Case> {
    let mut v = Vec::new();
    let ops: Vec<Op> = vec![r(3, 0, H), Op::D { p: 1 }, Op::C { tgt: 2, srcs: vec![1] }];
    let seqs6 = all_sequences(2, 6);
    for a in &ops {
        for b in &ops {
            for s in &seqs6 {
                for pos in 0..s.len() {
                    for act in [Action::FailBefore, Action::FailAfter] {
                        let mut sched = p(&[0, 0, 0, 0, 0, 0]);
                        let mut t = p(s);
                        t[pos].1 = act;
                        sched.extend(t);
                        v.push(Case { progs: vec![vec![r(1, 0, 10), r(2, H - 1, H), a.clone(), r(4, 5, 6)], vec![b.clone(), Op::D { p: 4 }]], sched });
                    }
                }
            }
        }
    }
    v
}

fn findings(report: &Report) -> usize {
    report.disagreements.len() + report.oracle_violations.len()
}

fn check_case(c: &Case, origin: &str, model: &mut Model, report: &mut Report, out_path: &str) {
    let out = run_impl(c);
    report.impl_runs += 1;
    let line = encode(c, &out.executed);
    report.case(if out.conflicts > 0 || out.faults > 0 { Some(&line) } else { None });
    report.bump(&format!("origin.{}", origin));
    report.bump(&format!("conflicts.{}", out.conflicts.min(6)));
    report.bump(&format!("faults.{}", out.faults.min(4)));
    report.bump(&format!("clients.{}", c.progs.len()));
    if out.retries > 0 {
        report.bump("result.too_many_retries");
    }
    if out.create_conflicts > 0 {
        report.bump("step.create_conflict");
    }
    for (tag, key) in [("err", "result.target_not_found"), ("fault", "result.transport_error"), ("!", "step.put_applied_but_error")] {
        if out.line.contains(tag) {
            report.bump(key);
        }
    }
    let (differs, model_out) = model.differs(&line, &out.line);
    report.sample(json!({"case": line, "impl": out.line, "model": model_out}));
    let mk = |sched: &[(usize, Action)]| Case { progs: c.progs.clone(), sched: sched.to_vec() };
    if differs {
        let shrunk = ddmin_capped(&c.sched, SHRINK_BUDGET, &mut |cand: &[(usize, Action)]| {
            let cc = mk(cand);
            let o = run_impl(&cc);
            model.differs(&encode(&cc, &o.executed), &o.line).0
        });
        let cc = mk(&shrunk);
        let o = run_impl(&cc);
        let sl = encode(&cc, &o.executed);
        let sm = model.ask(&sl);
        report.disagreement(json!({
            "correspondence": "CAS machine instance Model/CatalogCas.v (cat_step / cat_fstep over s3_apply) vs racing ObjectStoreMetadataClient register_chunk / delete_chunk / complete_compaction",
            "case": line, "impl": out.line, "model": model_out,
            "shrunk": sl, "shrunk_impl": o.line, "shrunk_model": sm,
            "oracle_failed": !out.bad.is_empty() || !o.bad.is_empty(),
        }));
        report.write(out_path);
    }
    if !out.bad.is_empty() {
        let shrunk = ddmin_capped(&c.sched, SHRINK_BUDGET, &mut |cand: &[(usize, Action)]| !run_impl(&mk(cand)).bad.is_empty());
        let cc = mk(&shrunk);
        let o = run_impl(&cc);
        let (what, cl) = if o.bad.is_empty() { (out.bad.join("; "), line.clone()) } else { (o.bad.join("; "), encode(&cc, &o.executed)) };
        report.oracle_violation("", &what, json!({"case": cl, "original": line}));
        report.write(out_path);
    }
}

fn main() {
    let args = Args::parse();
    csv_common::quiet_panics();
    let mut model = Model::spawn(&args.model);
    let mut report = Report::new("C02");

    if let Some(path) = &args.replay {
        let txt = std::fs::read_to_string(path).expect("replay file");
        let v: serde_json::Value = serde_json::from_str(&txt).expect("replay json");
        let line = v["case"].as_str().or_else(|| v["shrunk"].as_str()).unwrap_or("").to_string();
        let c = decode(&line);
        let out = run_impl(&c);
        let l2 = encode(&c, &out.executed);
        let m = model.ask(&l2);
        println!("case : {}\nimpl : {}\nmodel: {}\noracle failures: {:?}", l2, out.line, m, out.bad);
        std::process::exit(if out.bad.is_empty() && (model.is_null() || out.line == m) { 0 } else { 1 });
    }

    let out_path = args.out.clone();
    let mut rng = Rng::new(args.seed);
    let mut cases: Vec<(&str, Case)> = Vec::new();
    for c in corpus() {
        cases.push(("corpus", c));
    }
    // quick: a seeded third of the exhaustive families (a sixth of the one-fault sweep); thorough: all of it
    for c in exhaustive_cases() {
        if args.thorough() || rng.chance(1, 3) {
            cases.push(("exhaustive_2x1", c));
        }
    }
    for c in exhaustive_fault_cases() {
        if args.thorough() || rng.chance(1, 6) {
            cases.push(("exhaustive_2x1_one_fault", c));
        }
    }
    let n_random = if args.thorough() { 60_000 } else { 900 };
    for i in 0..n_random {
        let mut r = rng.fork();
        let faulty = i % 3 == 2;
        let c = gen_case(&mut r, &mut report, faulty);
        cases.push((if faulty { "random_faults" } else { "random" }, c));
    }
    for (origin, c) in &cases {
        check_case(c, origin, &mut model, &mut report, &out_path);
        if findings(&report) >= MAX_FINDINGS {
            report.notes.push(format!("stopped after {} findings", findings(&report)));
            break;
        }
    }
    report.notes.push(format!("model calls: {}", model.calls));
    report.notes.push("exhaustive families (thorough: complete; quick: a seeded third / sixth): creation race 2x1 from the absent catalog over all 1024 schedule prefixes of length 10 x 9 op pairs; 36 op pairs on an existing catalog over all 64 interleavings; one-fault sweep: 9 op pairs x 64 interleavings x 6 positions x {fail-before, fail-after}".into());
    report.notes.push("fault steps are outside the theorems of Properties/C02.v (CasProto has no fault labels): there the model side is Model/CasFault.v (harness-only copy of the machine) and the oracle judges the implementation directly; a mutation returning a transport error is indeterminate and counts as effective iff its own PUT was applied".into());
    report.write(&out_path);
}
