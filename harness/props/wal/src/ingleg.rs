//! The ingester leg of csv-wal: the REAL `Ingester` (WAL on, EveryWrite) drives
//! the write-ahead log, so that what `ensure_wal` and the tail of
//! `flush_batches` pass to `truncate_before` / `persist_flushed_seq` — and when —
//! is part of what is checked.
//!
//! crash   = drop the Ingester (and everything it holds); restart = a new
//!           Ingester on the same WAL directory + `ensure_wal`
//! flush   = the shutdown path (`shutdown_token().cancel()` + `run_flush_timer`),
//!           optionally stopped at one of the `ingest.flush.*` pause points
//!           (crash between truncate_before and persist_flushed_seq, ...)
//! cuts    = between steps the newest segment / the flushed_seq file lose the
//!           end of the last write
//!
//! Oracle (implementation only): the sequence number of every entry the
//! ingester appends — read from the segment files with a reader written here —
//! exceeds every acknowledged number, every completely persisted flushed mark
//! and the mark that is in the flushed_seq file at that moment.
//! Correspondence: the same history in WAL operations (append = A, restart =
//! `ensure_wal_ops` of the model, flush = `flush_ops`), segment files and
//! flushed mark compared after every step.
use super::{flushed_on_disk, hex, ipc_bytes, seg_files, HEADER_LEN};
use arrow_array::{Float64Array, Int64Array, RecordBatch, StringArray};
use arrow_schema::{DataType, Field, Schema};
use cardinalsin::ingester::{Ingester, IngesterConfig, WalConfig, WalSyncMode};
use cardinalsin::metadata::{LocalMetadataClient, MetadataClient};
use csv_common::{Model, Report, Rng};
use object_store::memory::InMemory;
use object_store::ObjectStore;
use std::path::Path;
use std::sync::Arc;
use std::time::Duration;

#[derive(Clone, Debug, PartialEq)]
pub enum IOp {
    /// acknowledged write of a batch with n rows
    W(usize),
    /// write, then crash; only `keep` bytes of its WAL entry stay in the file
    WX(usize, u64),
    /// flush through the shutdown path, complete; the process is down afterwards
    FL,
    /// flush stopped at a pause point: 0 after_load_seq, 1 after_truncate, 2 after_persist
    FLC(u8),
    /// flush complete, then the flushed_seq file keeps only `keep` of its 8 bytes
    FLT(u64),
    CR,
    RS,
}

pub fn enc_iops(max: u64, ops: &[IOp]) -> String {
    let mut v = vec![format!("max {}", max)];
    v.extend(ops.iter().map(|o| match o {
        IOp::W(n) => format!("W {}", n),
        IOp::WX(n, k) => format!("WX {} {}", n, k),
        IOp::FL => "FL".into(),
        IOp::FLC(p) => format!("FLC {}", p),
        IOp::FLT(k) => format!("FLT {}", k),
        IOp::CR => "CR".into(),
        IOp::RS => "RS".into(),
    }));
    v.join(";")
}

pub fn dec_iops(s: &str) -> (u64, Vec<IOp>) {
    let mut max = 1 << 20;
    let mut ops = Vec::new();
    for t in s.split(';') {
        let f: Vec<&str> = t.trim().split(' ').collect();
        let p = |i: usize| f.get(i).and_then(|x| x.parse::<u64>().ok()).unwrap_or(0);
        match f[0] {
            "max" => max = p(1),
            "W" => ops.push(IOp::W(p(1) as usize)),
            "WX" => ops.push(IOp::WX(p(1) as usize, p(2))),
            "FL" => ops.push(IOp::FL),
            "FLC" => ops.push(IOp::FLC(p(1) as u8)),
            "FLT" => ops.push(IOp::FLT(p(1))),
            "CR" => ops.push(IOp::CR),
            "RS" => ops.push(IOp::RS),
            _ => {}
        }
    }
    (max, ops)
}

fn batch(counter: i64, rows: usize) -> RecordBatch {
    let schema = Arc::new(Schema::new(vec![
        Field::new("timestamp", DataType::Int64, false),
        Field::new("metric_name", DataType::Utf8, false),
        Field::new("value_f64", DataType::Float64, true),
        Field::new("host", DataType::Utf8, true),
    ]));
    let n = rows.max(1) as i64;
    RecordBatch::try_new(
        schema,
        vec![
            Arc::new(Int64Array::from((0..n).map(|i| 1_700_000_000_000_000_000 + counter * 1000 + i).collect::<Vec<_>>())),
            Arc::new(StringArray::from((0..n).map(|_| "cpu_usage").collect::<Vec<_>>())),
            Arc::new(Float64Array::from((0..n).map(|i| Some(counter as f64 + i as f64 * 0.25)).collect::<Vec<_>>())),
            Arc::new(StringArray::from((0..n).map(|i| if i % 2 == 0 { Some("host-a") } else { None }).collect::<Vec<_>>())),
        ],
    )
    .unwrap()
}

/// the segment files as a reader written here sees them: per file (id, entries
/// (seq, payload length)); length framing only, stops at the first incomplete entry
fn scan_wal(dir: &Path) -> Vec<(u64, Vec<(u64, u64)>)> {
    seg_files(dir)
        .into_iter()
        .map(|(id, p)| {
            let b = std::fs::read(&p).unwrap_or_default();
            let mut pos = 0usize;
            let mut es = Vec::new();
            while b.len() >= pos + HEADER_LEN as usize {
                let seq = u64::from_le_bytes(b[pos + 6..pos + 14].try_into().unwrap());
                let len = u32::from_le_bytes(b[pos + 14..pos + 18].try_into().unwrap()) as usize;
                if &b[pos..pos + 4] != b"CSWA" || b.len() < pos + HEADER_LEN as usize + len {
                    break;
                }
                es.push((seq, len as u64));
                pos += HEADER_LEN as usize + len;
            }
            (id, es)
        })
        .collect()
}

fn show_dir(dir: &Path) -> String {
    let v: Vec<String> = seg_files(dir)
        .iter()
        .map(|(id, p)| {
            let b = std::fs::read(p).unwrap_or_default();
            format!("{}/{}/{}", id, b.len(), crc32fast::hash(&b))
        })
        .collect();
    let l = cardinalsin::ingester::load_flushed_seq(dir).map(|v| v.to_string()).unwrap_or_else(|_| "ERR".into());
    format!("s:{};l:{}", v.join(","), l)
}

pub struct IOut {
    pub impl_line: String,
    pub model_line: String,
    pub failures: Vec<String>,
}

const PAUSES: [&str; 3] = ["ingest.flush.after_load_seq", "ingest.flush.after_truncate", "ingest.flush.after_persist"];

/// Runs the history on the real Ingester.  Returns the canonical output, the
/// line for the model (same history in WAL operations) and the oracle failures.
pub fn run(rt: &tokio::runtime::Runtime, max: u64, ops: &[IOp]) -> IOut {
    rt.block_on(run_async(max, ops))
}

async fn run_async(max: u64, ops: &[IOp]) -> IOut {
    let dir = tempfile::Builder::new().prefix("csv-wal-ing").tempdir_in("/dev/shm").or_else(|_| tempfile::tempdir()).expect("temp dir");
    let dirp = dir.path().to_path_buf();
    let store: Arc<dyn ObjectStore> = Arc::new(InMemory::new());
    let meta: Arc<dyn MetadataClient> = Arc::new(LocalMetadataClient::new());
    let big = 1usize << 40;
    let config = IngesterConfig {
        flush_interval: Duration::from_secs(3600),
        flush_row_count: 1 << 40,
        flush_size_bytes: big,
        max_buffer_size_bytes: big,
        wal: WalConfig { wal_dir: dirp.clone(), max_segment_size: max as usize, sync_mode: WalSyncMode::EveryWrite, enabled: true },
        ..IngesterConfig::default()
    };
    let mut ing: Option<Arc<Ingester>> = None;
    let mut impl_toks: Vec<String> = Vec::new();
    let mut payloads: Vec<String> = Vec::new(); // P tokens of the model line
    let mut mtoks: Vec<String> = Vec::new();
    let mut failures = Vec::new();
    let mut counter = 0i64;
    // what the ingester holds, as its code maintains it (src/ingester/mod.rs)
    let mut last_wal_seq: u64 = 0;
    let mut buffered = false;
    // oracle state
    let mut max_acked: u64 = 0;
    let mut max_mark: u64 = 0;
    // acknowledged writes (seq, payload length) and the largest bound ever passed to truncate_before
    let mut acked: Vec<(u64, u64)> = Vec::new();
    let mut max_bound: u64 = 0;

    for (at, op) in ops.iter().enumerate() {
        match op {
            IOp::RS => {
                if ing.is_some() {
                    continue;
                }
                let fl = flushed_on_disk(&dirp);
                let mut fresh = Ingester::new(
                    config.clone(),
                    store.clone(),
                    meta.clone(),
                    cardinalsin::StorageConfig::default(),
                    cardinalsin::schema::MetricSchema::default_metrics(),
                );
                let r = fresh.ensure_wal().await;
                mtoks.push(format!("M {}", max));
                match r {
                    Ok(()) => {
                        // ensure_wal: entries above the loaded mark are replayed; last_wal_seq = the largest of them
                        let above: Vec<u64> = scan_wal(&dirp).iter().flat_map(|s| s.1.iter().map(|e| e.0)).filter(|s| *s > fl).collect();
                        last_wal_seq = above.iter().copied().max().unwrap_or(0);
                        buffered = !above.is_empty();
                        if fl > 0 {
                            max_bound = max_bound.max(fl + 1);
                        }
                        // oracle: truncate_before(b) may only remove entries below b, so every
                        // acknowledged entry at or above every bound is still in the log
                        let present: Vec<(u64, u64)> = scan_wal(&dirp).iter().flat_map(|s| s.1.iter().copied()).collect();
                        for (seq, len) in acked.iter() {
                            if *seq >= max_bound && !present.contains(&(*seq, *len)) {
                                failures.push(format!(
                                    "op {}: acknowledged write with sequence number {} is not in the log after the restart (entries in the log {:?}; largest truncation bound so far {}; mark on disk {})",
                                    at, seq, present.iter().map(|e| e.0).collect::<Vec<_>>(), max_bound, fl));
                                break;
                            }
                        }
                        ing = Some(Arc::new(fresh));
                        impl_toks.push("m".into());
                    }
                    Err(e) => impl_toks.push(format!("m:ERR {}", e)),
                }
            }
            IOp::W(n) | IOp::WX(n, _) => {
                let Some(i) = ing.clone() else { continue };
                counter += 1;
                let b = batch(counter, *n);
                let pl = ipc_bytes(&b);
                let fl_before = flushed_on_disk(&dirp);
                let before: usize = scan_wal(&dirp).iter().map(|s| s.1.len()).sum();
                let r = i.write(b).await;
                let scan = scan_wal(&dirp);
                let after: usize = scan.iter().map(|s| s.1.len()).sum();
                let newest = scan.iter().rev().find_map(|s| s.1.last().copied());
                payloads.push(format!("P {}", hex(&pl)));
                let pidx = payloads.len() - 1;
                let tag = if matches!(op, IOp::W(_)) { "a" } else { "x" };
                match (r, newest) {
                    (Ok(()), Some((seq, len))) if after == before + 1 && len == pl.len() as u64 => {
                        let floor = max_acked.max(max_mark).max(fl_before);
                        if seq <= floor {
                            failures.push(format!(
                                "op {}: the ingester's write was logged under sequence number {} although {} was already acknowledged / recorded as flushed (acked {}, persisted mark {}, mark on disk {})",
                                at, seq, floor, max_acked, max_mark, fl_before));
                        }
                        impl_toks.push(format!("{}:{}", tag, seq));
                        last_wal_seq = seq;
                        buffered = true;
                        if let IOp::WX(_, keep) = op {
                            let full = HEADER_LEN + pl.len() as u64;
                            let keep = (*keep).min(full);
                            drop(i);
                            ing = None; // crash
                            if let Some((_, p)) = seg_files(&dirp).last() {
                                let len = std::fs::metadata(p).map(|m| m.len()).unwrap_or(0);
                                std::fs::OpenOptions::new().write(true).open(p).unwrap().set_len(len.saturating_sub(full - keep)).unwrap();
                            }
                            mtoks.push(format!("X {} {}", pidx, keep));
                        } else {
                            max_acked = max_acked.max(seq);
                            acked.push((seq, pl.len() as u64));
                            mtoks.push(format!("A {}", pidx));
                        }
                    }
                    (r, _) => {
                        if r.is_ok() {
                            failures.push(format!(
                                "op {}: the write was acknowledged but no new complete entry appeared in the segment files of the WAL directory ({} entries before, {} after): it cannot be recovered after a crash",
                                at, before, after));
                        }
                        impl_toks.push(format!("{}:ERR {:?} (entries {} -> {})", tag, r.err().map(|e| e.to_string()), before, after));
                        mtoks.push(format!("A {}", pidx));
                    }
                }
            }
            IOp::FL | IOp::FLC(_) | IOp::FLT(_) => {
                let Some(i) = ing.take() else { continue };
                let s = last_wal_seq;
                let stop_at: Option<usize> = match op {
                    IOp::FLC(p) => Some((*p as usize).min(2)),
                    _ => None,
                };
                let mut rx = stop_at.map(|p| cardinalsin::verif_hooks::register_gate(PAUSES[p]));
                i.shutdown_token().cancel();
                let i2 = i.clone();
                let mut h = tokio::spawn(async move { i2.run_flush_timer().await });
                let mut stopped = false;
                if let Some(rx) = rx.as_mut() {
                    tokio::select! {
                        g = rx.recv() => {
                            // the process dies at the pause point
                            h.abort();
                            let _ = (&mut h).await;
                            drop(g);
                            stopped = true;
                        }
                        _ = &mut h => {}
                    }
                } else {
                    let _ = (&mut h).await;
                }
                if let Some(p) = stop_at {
                    cardinalsin::verif_hooks::clear_gate(PAUSES[p]);
                }
                drop(i); // down in every case (graceful stop or crash)
                // the same in WAL operations
                let flushes = buffered;
                let tok = if !flushes {
                    "C".to_string()
                } else {
                    if !matches!((op, stopped), (IOp::FLC(0), true)) {
                        max_bound = max_bound.max(s); // truncate_before(last_wal_seq) was reached
                    }
                    match (op, stopped) {
                        (IOp::FLC(0), true) => "C".to_string(),
                        (IOp::FLC(1), true) => format!("HT {}", s),
                        (IOp::FLT(keep), _) if s > 0 => {
                            let keep = (*keep).min(8);
                            let f = std::fs::OpenOptions::new().write(true).open(dirp.join("flushed_seq"));
                            if let Ok(f) = f {
                                f.set_len(keep).unwrap();
                            }
                            if keep == 8 {
                                max_mark = max_mark.max(s);
                            }
                            format!("H {};G {} {}", s, s, keep)
                        }
                        _ => {
                            // complete (also FLC(2): persisted, then the crash) — or a pause point that was never reached
                            if s > 0 {
                                max_mark = max_mark.max(s);
                            }
                            format!("H {};C", s)
                        }
                    }
                };
                if stop_at.is_some() && flushes && !stopped {
                    failures.push(format!("op {}: flush_batches did not reach the pause point {}", at, PAUSES[stop_at.unwrap()]));
                }
                mtoks.push(tok);
                impl_toks.push("h".into());
                buffered = false;
            }
            IOp::CR => {
                if ing.take().is_none() {
                    continue;
                }
                mtoks.push("C".into());
                impl_toks.push("c".into());
            }
        }
        // observe the directory after every executed step
        mtoks.push("S;L".into());
        impl_toks.push(show_dir(&dirp));
    }
    drop(ing);
    let mut line = payloads.clone();
    line.extend(mtoks);
    IOut { impl_line: impl_toks.join(";"), model_line: line.join(";"), failures }
}

/// the model's answer in the shape of `impl_line`: payload definitions dropped,
/// `m:<next_seq>` reduced to `m` (the ingester does not expose next_seq), the
/// outputs of the operations one step expands to merged
pub fn canon_model(out: &str) -> String {
    let mut v: Vec<String> = Vec::new();
    for t in out.split(';') {
        if t == "p" {
            continue;
        }
        let t = if t.starts_with("m:") && !t.contains("PANIC") { "m".to_string() } else { t.to_string() };
        match t.as_str() {
            "ht" => v.push("h".into()),
            "g" => {}  // H s;G s keep  -> one flush step
            "c" if v.last().map(|x| x == "h").unwrap_or(false) => {} // H s;C -> one flush step
            _ => v.push(t),
        }
    }
    v.join(";")
}

/// the flush step that performs nothing is a bare "c" on the model side
pub fn canon_impl(out: &str, model: &str) -> String {
    // a flush with an empty buffer (or an interrupted one before the truncate) is `h` here and `c` there
    let m: Vec<&str> = model.split(';').collect();
    out.split(';')
        .enumerate()
        .map(|(i, t)| if t == "h" && m.get(i) == Some(&"c") { "c" } else { t })
        .collect::<Vec<_>>()
        .join(";")
}

pub fn gen(rng: &mut Rng, report: &mut Report) -> (u64, Vec<IOp>) {
    let max = match rng.below(5) {
        0 => 1,          // every append rotates
        1 => 900,        // about one entry per segment
        2 => 2_000,      // about two
        3 => 5_000,
        _ => 64 << 20,   // the default
    };
    let mut ops = vec![IOp::RS];
    let n = rng.range_usize(5, 16);
    let mut up = true;
    for _ in 0..n {
        if !up {
            ops.push(IOp::RS);
            up = true;
            if rng.chance(1, 6) {
                ops.push(IOp::CR);
                up = false;
            }
            continue;
        }
        let r = rng.below(100);
        if r < 48 {
            ops.push(IOp::W(rng.range_usize(1, 3)));
            report.bump("ingester.write");
        } else if r < 62 {
            let keep = match rng.below(5) { 0 => 0, 1 => rng.below(22), 2 => 22, 3 => 23 + rng.below(300), _ => 1 << 30 };
            ops.push(IOp::WX(rng.range_usize(1, 3), keep));
            report.bump(if keep == 0 { "ingester.write_cut_nothing_written" } else if keep >= 1 << 30 { "ingester.write_complete_then_crash" } else { "ingester.write_cut" });
            up = false;
        } else if r < 74 {
            ops.push(IOp::FL);
            report.bump("ingester.flush_complete_shutdown");
            up = false;
            if rng.chance(1, 2) {
                // flush everything, restart, write below any threshold, crash, restart
                ops.extend([IOp::RS, IOp::W(rng.range_usize(1, 3)), IOp::CR, IOp::RS]);
                up = true;
                report.bump("ingester.flush_all_restart_write_crash_restart");
            }
        } else if r < 86 {
            let p = rng.below(3) as u8;
            ops.push(IOp::FLC(p));
            report.bump(&format!("ingester.flush_crash_{}", ["after_load_seq", "after_truncate_before_persist", "after_persist"][p as usize]));
            up = false;
        } else if r < 93 {
            ops.push(IOp::FLT(rng.below(8)));
            report.bump("ingester.flush_then_flushed_file_torn");
            up = false;
        } else {
            ops.push(IOp::CR);
            report.bump("ingester.crash");
            up = false;
        }
    }
    if !up {
        ops.push(IOp::RS);
    }
    // the numbering after the last restart is observed by one more write
    ops.push(IOp::W(1));
    ops.push(IOp::CR);
    ops.push(IOp::RS);
    ops.push(IOp::W(1));
    (max, ops)
}

pub fn corpus() -> Vec<(u64, Vec<IOp>)> {
    vec![
        // three acknowledged writes, the 4th rotates and is cut off completely; restart replays 1..3;
        // flush with no write in between; crash between truncate_before and persist_flushed_seq
        // (mark stays old); restart; the next write must be numbered 4
        (1, vec![IOp::RS, IOp::W(1), IOp::W(2), IOp::W(1), IOp::WX(1, 0), IOp::RS, IOp::FLC(1), IOp::RS, IOp::W(1), IOp::CR, IOp::RS, IOp::W(1)]),
        // the same with the flushed file torn after a complete flush
        (1, vec![IOp::RS, IOp::W(1), IOp::W(2), IOp::W(1), IOp::WX(1, 0), IOp::RS, IOp::FLT(3), IOp::RS, IOp::W(1), IOp::CR, IOp::RS, IOp::W(1)]),
        (1, vec![IOp::RS, IOp::W(1), IOp::W(2), IOp::W(1), IOp::WX(1, 0), IOp::RS, IOp::FLT(0), IOp::RS, IOp::CR, IOp::RS, IOp::W(1)]),
        // two entries per segment, cut inside the header
        (2_000, vec![IOp::RS, IOp::W(1), IOp::W(1), IOp::W(1), IOp::WX(2, 10), IOp::RS, IOp::FLC(1), IOp::RS, IOp::W(1)]),
        // complete flushes and restarts only
        (900, vec![IOp::RS, IOp::W(1), IOp::W(1), IOp::FL, IOp::RS, IOp::W(1), IOp::FL, IOp::RS, IOp::CR, IOp::RS, IOp::W(1), IOp::FLC(2), IOp::RS, IOp::W(1)]),
        // everything is flushed, restart (ensure_wal truncates up to the mark: the ACTIVE segment is
        // fully flushed and must stay), one write, crash, restart: the write must still be there
        (64 << 20, vec![IOp::RS, IOp::W(1), IOp::W(2), IOp::FL, IOp::RS, IOp::W(1), IOp::CR, IOp::RS, IOp::W(1)]),
        (2_000, vec![IOp::RS, IOp::W(1), IOp::FL, IOp::RS, IOp::W(1), IOp::W(1), IOp::CR, IOp::RS, IOp::W(1), IOp::CR, IOp::RS]),
        // crash before the truncate, empty-buffer flush, default segment size
        (64 << 20, vec![IOp::RS, IOp::W(3), IOp::FLC(0), IOp::RS, IOp::FL, IOp::RS, IOp::FL, IOp::RS, IOp::W(1)]),
    ]
}

/// runs one case, compares with the model, records failures; returns true when something failed
pub fn check_case(rt: &tokio::runtime::Runtime, model: &mut Model, report: &mut Report, limits: &mut super::Limits, origin: &str, max: u64, ops: &[IOp], sample: bool) {
    let key = enc_iops(max, ops);
    report.case(Some(&key));
    report.bump(&format!("origin.{}", origin));
    let out = run(rt, max, ops);
    report.impl_runs += 1;
    let model_raw = model.ask(&out.model_line);
    let model_out = canon_model(&model_raw);
    let impl_out = canon_impl(&out.impl_line, &model_out);
    if sample {
        report.sample(serde_json::json!({"ingester_history": key, "impl": impl_out, "model": model_out}));
    }
    let differs = !model.is_null() && impl_out != model_out;
    if differs {
        // every executed step yields three tokens (result, segment files, flushed mark)
        let cut_tok = super::first_diff(&impl_out, &model_out);
        let prefix = prefix_for_token(ops, cut_tok);
        let shrunk = limits.shrink(ops, prefix, &mut |cand: &[IOp]| {
            let o = run(rt, max, cand);
            let m = canon_model(&model.ask(&o.model_line));
            canon_impl(&o.impl_line, &m) != m
        });
        let so = run(rt, max, &shrunk);
        let sm = canon_model(&model.ask(&so.model_line));
        report.disagreement(serde_json::json!({
            "correspondence": "WAL model driven by ensure_wal_ops / flush_ops (Model/Wal.v, tied to src/ingester/mod.rs by Proofs/WalTie.v) vs the real Ingester (ensure_wal, write, flush_batches) on the same WAL directory",
            "case": format!("ING {}", key), "impl": impl_out, "model": model_out,
            "shrunk": format!("ING {}", enc_iops(max, &shrunk)), "shrunk_impl": canon_impl(&so.impl_line, &sm), "shrunk_model": sm,
            "oracle_failed": !out.failures.is_empty(),
        }));
    }
    if !out.failures.is_empty() {
        let prefix: Vec<IOp> = match super::failing_op(&out.failures) {
            Some(at) => ops.iter().take(at + 1).cloned().collect(),
            None => ops.to_vec(),
        };
        let shrunk = limits.shrink(ops, prefix, &mut |cand: &[IOp]| !run(rt, max, cand).failures.is_empty());
        let so = run(rt, max, &shrunk);
        let (what, case) = if so.failures.is_empty() { (out.failures.join("; "), key.clone()) } else { (so.failures.join("; "), enc_iops(max, &shrunk)) };
        report.oracle_violation("", &what, serde_json::json!({"case": format!("ING {}", case), "original": format!("ING {}", key)}));
    }
    if differs || !out.failures.is_empty() {
        limits.finding(report);
    }
    limits.case_done(report);
}

/// the operations up to the one that produced output token `tok` (skipped
/// operations produce no token, so the history is replayed to count)
fn prefix_for_token(ops: &[IOp], tok: usize) -> Vec<IOp> {
    let mut up = false;
    let mut produced = 0usize;
    let mut out = Vec::new();
    for o in ops {
        out.push(o.clone());
        let executed = match o {
            IOp::RS => !up,
            _ => up,
        };
        if executed {
            produced += 3;
            up = matches!(o, IOp::RS | IOp::W(_));
            if produced > tok {
                break;
            }
        }
    }
    out
}
