use arrow_array::{Int64Array, RecordBatch};
use arrow_schema::{DataType, Field, Schema};
use cardinalsin::ingester::{load_flushed_seq, persist_flushed_seq, WalConfig, WalSyncMode, WriteAheadLog};
use std::sync::Arc;

fn batch(n: usize) -> RecordBatch {
    let schema = Arc::new(Schema::new(vec![Field::new("value", DataType::Int64, false)]));
    RecordBatch::try_new(schema, vec![Arc::new(Int64Array::from((0..n as i64).collect::<Vec<_>>()))]).unwrap()
}
fn cfg(dir: &std::path::Path, max: usize) -> WalConfig {
    WalConfig { wal_dir: dir.to_path_buf(), max_segment_size: max, sync_mode: WalSyncMode::EveryWrite, enabled: true }
}
fn main() {
    let rt = tokio::runtime::Builder::new_current_thread().enable_all().build().unwrap();
    rt.block_on(async {
        // witness 1: append after torn tail
        let d = tempfile::tempdir().unwrap();
        let mut w = WriteAheadLog::open(cfg(d.path(), 1 << 20)).await.unwrap();
        let s1 = w.append(&batch(3)).await.unwrap();
        let s2 = w.append(&batch(3)).await.unwrap();
        drop(w);
        let p = d.path().join("segment-000001.wal");
        let len = std::fs::metadata(&p).unwrap().len();
        let one = len / 2;
        std::fs::OpenOptions::new().write(true).open(&p).unwrap().set_len(one + 10).unwrap();
        let mut w = WriteAheadLog::open(cfg(d.path(), 1 << 20)).await.unwrap();
        println!("w1: acked {} {}; after cut: next_seq {} entries {:?}", s1, s2, w.next_seq(), w.read_entries().unwrap().iter().map(|e| e.seq).collect::<Vec<_>>());
        let s = w.append(&batch(3)).await.unwrap();
        println!("w1: appended after reopen -> seq {}", s);
        drop(w);
        let w = WriteAheadLog::open(cfg(d.path(), 1 << 20)).await.unwrap();
        println!("w1: second reopen: next_seq {} entries {:?}", w.next_seq(), w.read_entries().unwrap().iter().map(|e| e.seq).collect::<Vec<_>>());
        drop(w);

        // witness 2: empty active segment after truncation
        let d = tempfile::tempdir().unwrap();
        let esz = one as usize;
        let mut w = WriteAheadLog::open(cfg(d.path(), 2 * esz)).await.unwrap();
        let a = w.append(&batch(3)).await.unwrap();
        let b = w.append(&batch(3)).await.unwrap();
        let c = w.append(&batch(3)).await.unwrap(); // rotates to segment 2
        drop(w);
        // crash: the write of entry 3 is lost completely (new segment exists, empty)
        std::fs::OpenOptions::new().write(true).open(d.path().join("segment-000002.wal")).unwrap().set_len(0).unwrap();
        println!("w2: acked-before-crash {} {} (3rd {} torn away)", a, b, c);
        // restart as the ingester does: flushed mark 2 persisted after a flush
        let w = WriteAheadLog::open(cfg(d.path(), 2 * esz)).await.unwrap();
        println!("w2: reopen next_seq {}", w.next_seq());
        persist_flushed_seq(d.path(), 2).unwrap();
        drop(w);
        let mut w = WriteAheadLog::open(cfg(d.path(), 2 * esz)).await.unwrap();
        let f = load_flushed_seq(d.path()).unwrap();
        w.truncate_before(f + 1).await.unwrap();
        println!("w2: restart, flushed {}, next_seq {}, files {:?}", f, w.next_seq(), std::fs::read_dir(d.path()).unwrap().map(|e| e.unwrap().file_name()).collect::<Vec<_>>());
        drop(w);
        let mut w = WriteAheadLog::open(cfg(d.path(), 2 * esz)).await.unwrap();
        let s = w.append(&batch(3)).await.unwrap();
        println!("w2: crash again; reopen next_seq was {}, new append got seq {} (flushed mark {}), read_entries_after(flushed) = {:?}", s, s, f, w.read_entries_after(f).unwrap().iter().map(|e| e.seq).collect::<Vec<_>>());
    });
}
