//! csv-wal — correspondence + oracle for C05 (WAL recovery is exact under torn
//! writes; sequence numbers never regress).
//!
//! The real `WriteAheadLog` runs in a temp directory on real record batches.
//! Crashes are simulated by dropping the handle; a write cut at byte k is
//! simulated by letting the real code write the whole entry / flushed file and
//! then shortening the file so that exactly k bytes of that write remain
//! (appends go to the end of the file, so this is the prefix-torn state).
//! The extracted Coq model (modelrun-wal) executes the same history; payload
//! bytes (Arrow IPC, produced here with the same StreamWriter calls) are handed
//! to it verbatim as hex.  Observables compared token by token: sequence
//! numbers returned by append, next_seq after open, read_entries,
//! read_entries_after, segment files (id, length, CRC-32 of the content — the
//! model's CRC against crc32fast), load_flushed_seq.
//!
//! Independently of the model, the oracle keeps the list of completely written
//! entries and checks on the implementation alone:
//!   * after every open, read_entries = that list minus a prefix that lies
//!     below a bound passed to truncate_before — in order, each once, payloads
//!     decoding to the batches that were appended;
//!   * every sequence number handed out is above every acknowledged one, above
//!     every completely persisted flushed mark and above the mark that is in
//!     the flushed_seq file at that moment (for histories that respect the
//!     caller discipline of src/ingester/mod.rs).
use arrow::ipc::writer::StreamWriter;
use arrow_array::{Float64Array, Int64Array, RecordBatch, StringArray};
use arrow_schema::{DataType, Field, Schema};
use cardinalsin::ingester::{load_flushed_seq, persist_flushed_seq, WalConfig, WalSyncMode, WriteAheadLog};
use csv_common::{catch, ddmin, Args, Model, Report, Rng};
use serde_json::json;
use std::panic::AssertUnwindSafe;
use std::path::{Path, PathBuf};
use std::sync::Arc;

mod ingleg;

const HEADER_LEN: u64 = 22;

// ------------------------------------------- bounded work under a mutant ----
/// Keeps a run useful when a change of the code breaks almost every case:
/// generation stops after MAX_FINDINGS failing cases or when the wall budget is
/// used up, at most MAX_DDMIN cases are delta-debugged (each with at most
/// DDMIN_RUNS candidate runs / DDMIN_SECS seconds), the others are only cut
/// behind their first failing step, and the report file is rewritten after
/// every finding and every REWRITE_EVERY cases.
pub struct Limits {
    start: std::time::Instant,
    budget: std::time::Duration,
    findings: usize,
    ddmin_cases: usize,
    since_write: usize,
    out: String,
}
const MAX_FINDINGS: usize = 10;
const MAX_DDMIN: usize = 3;
const DDMIN_RUNS: usize = 100;
const DDMIN_SECS: u64 = 30;
const REWRITE_EVERY: usize = 50;

impl Limits {
    fn new(args: &Args) -> Limits {
        let dflt = if args.thorough() { 2400 } else { 480 };
        let secs = args.get("budget-secs").and_then(|s| s.parse::<u64>().ok()).unwrap_or(dflt);
        Limits { start: std::time::Instant::now(), budget: std::time::Duration::from_secs(secs), findings: 0, ddmin_cases: 0, since_write: 0, out: args.out.clone() }
    }
    /// Some(reason) when no further case should be started
    pub fn stop(&self) -> Option<String> {
        if self.findings >= MAX_FINDINGS {
            return Some(format!("stopped generating after {} failing cases", self.findings));
        }
        if self.start.elapsed() > self.budget {
            return Some(format!("wall budget of {} s used up", self.budget.as_secs()));
        }
        None
    }
    pub fn finding(&mut self, report: &Report) {
        self.findings += 1;
        self.since_write = 0;
        if !self.out.is_empty() {
            report.write(&self.out);
        }
    }
    pub fn case_done(&mut self, report: &Report) {
        self.since_write += 1;
        if self.since_write >= REWRITE_EVERY && !self.out.is_empty() {
            self.since_write = 0;
            report.write(&self.out);
        }
    }
    /// Shrinks a failing case within the caps.  `prefix` = the case cut behind
    /// its first failing step (used as the starting point when it still fails,
    /// and as the result once MAX_DDMIN cases have been delta-debugged).
    pub fn shrink<T: Clone>(&mut self, input: &[T], prefix: Vec<T>, fails: &mut dyn FnMut(&[T]) -> bool) -> Vec<T> {
        let start: Vec<T> = if prefix.len() < input.len() && !prefix.is_empty() && fails(&prefix) { prefix } else { input.to_vec() };
        if self.ddmin_cases >= MAX_DDMIN || self.start.elapsed() > self.budget {
            return start;
        }
        self.ddmin_cases += 1;
        let t0 = std::time::Instant::now();
        let mut runs = 0usize;
        ddmin(&start, &mut |cand: &[T]| {
            if runs >= DDMIN_RUNS || t0.elapsed().as_secs() >= DDMIN_SECS {
                return false;
            }
            runs += 1;
            fails(cand)
        })
    }
}

/// index of the first operation whose output token differs (tokens of the
/// payload table skipped by the caller)
pub fn first_diff(a: &str, b: &str) -> usize {
    let x: Vec<&str> = a.split(';').collect();
    let y: Vec<&str> = b.split(';').collect();
    x.iter().zip(y.iter()).position(|(p, q)| p != q).unwrap_or(x.len().min(y.len()))
}

/// "op 7: ..." -> 7
pub fn failing_op(msgs: &[String]) -> Option<usize> {
    msgs.iter().filter_map(|m| m.strip_prefix("op ").and_then(|r| r.split(':').next()).and_then(|n| n.trim().parse::<usize>().ok())).min()
}

// ------------------------------------------------------------- payloads ----
struct Pool {
    batches: Vec<RecordBatch>,
    payloads: Vec<Vec<u8>>,
    /// the first n_model payloads are small and are given to the model; the
    /// ones behind them are tens of megabytes and are used by the oracle-only
    /// large-entry family (the bit-by-bit Gallina CRC-32 is too slow for them)
    n_model: usize,
}

fn ipc_bytes(batch: &RecordBatch) -> Vec<u8> {
    let mut buffer = Vec::new();
    let schema = batch.schema();
    let mut writer = StreamWriter::try_new(&mut buffer, &schema).unwrap();
    writer.write(batch).unwrap();
    writer.finish().unwrap();
    drop(writer);
    buffer
}

fn make_pool() -> Pool {
    let s1 = Arc::new(Schema::new(vec![Field::new("value", DataType::Int64, false)]));
    let s2 = Arc::new(Schema::new(vec![
        Field::new("timestamp", DataType::Int64, false),
        Field::new("metric_name", DataType::Utf8, false),
        Field::new("value_f64", DataType::Float64, true),
    ]));
    let b_int = |n: i64| RecordBatch::try_new(s1.clone(), vec![Arc::new(Int64Array::from((0..n).collect::<Vec<_>>()))]).unwrap();
    let b_met = |n: i64, name: &str| {
        RecordBatch::try_new(
            s2.clone(),
            vec![
                Arc::new(Int64Array::from((0..n).map(|i| 1_700_000_000_000_000_000 + i).collect::<Vec<_>>())),
                Arc::new(StringArray::from((0..n).map(|_| name.to_string()).collect::<Vec<_>>())),
                Arc::new(Float64Array::from((0..n).map(|i| if i % 3 == 2 { None } else { Some(i as f64 * 0.5) }).collect::<Vec<_>>())),
            ],
        )
        .unwrap()
    };
    let mut batches = vec![b_int(1), b_int(3), b_int(40), b_met(1, "cpu"), b_met(5, "memory_usage_bytes"), b_int(0)];
    let n_model = batches.len();
    batches.push(b_int(2_200_000)); // 17.6 MB of values: IPC payload above 16 MiB
    batches.push(b_int(4_200_000)); // about 33.6 MB
    let payloads = batches.iter().map(ipc_bytes).collect();
    Pool { batches, payloads, n_model }
}

fn hex(b: &[u8]) -> String {
    let mut s = String::with_capacity(b.len() * 2);
    for x in b {
        s.push_str(&format!("{:02x}", x));
    }
    s
}

// ------------------------------------------------------------------ ops ----
#[derive(Clone, Debug, PartialEq)]
enum Op {
    O(u64),
    A(usize),
    X(usize, u64),
    T(u64),
    F(u64),
    /// persist_flushed_seq(next_seq()): the mark names the entry that is written next
    FN,
    G(u64, u64),
    C,
    K(u64),
    B(u64, u8),
    R,
    E(u64),
    N,
    S,
    L,
}

fn enc_op(o: &Op) -> String {
    match o {
        Op::O(m) => format!("O {}", m),
        Op::A(i) => format!("A {}", i),
        Op::X(i, k) => format!("X {} {}", i, k),
        Op::T(b) => format!("T {}", b),
        Op::F(x) => format!("F {}", x),
        Op::FN => "FN".into(),
        Op::G(x, k) => format!("G {} {}", x, k),
        Op::C => "C".into(),
        Op::K(n) => format!("K {}", n),
        Op::B(o, v) => format!("B {} {}", o, v),
        Op::R => "R".into(),
        Op::E(a) => format!("E {}", a),
        Op::N => "N".into(),
        Op::S => "S".into(),
        Op::L => "L".into(),
    }
}

fn encode_ops(ops: &[Op]) -> String {
    ops.iter().map(enc_op).collect::<Vec<_>>().join(";")
}

fn decode_ops(s: &str) -> Vec<Op> {
    s.split(';')
        .filter(|t| !t.trim().is_empty())
        .filter_map(|t| {
            let f: Vec<&str> = t.trim().split(' ').collect();
            let p = |i: usize| f[i].parse::<u64>().unwrap();
            Some(match f[0] {
                "O" => Op::O(p(1)),
                "A" => Op::A(p(1) as usize),
                "X" => Op::X(p(1) as usize, p(2)),
                "T" => Op::T(p(1)),
                "F" => Op::F(p(1)),
                "FN" => Op::FN,
                "G" => Op::G(p(1), p(2)),
                "C" => Op::C,
                "K" => Op::K(p(1)),
                "B" => Op::B(p(1), p(2) as u8),
                "R" => Op::R,
                "E" => Op::E(p(1)),
                "N" => Op::N,
                "S" => Op::S,
                "L" => Op::L,
                _ => return None, // P tokens
            })
        })
        .collect()
}

/// the line given to the model: payload table, then the operations
fn model_line(pool: &Pool, ops: &[Op]) -> String {
    let mut toks: Vec<String> = pool.payloads.iter().take(pool.n_model).map(|p| format!("P {}", hex(p))).collect();
    toks.extend(ops.iter().map(enc_op));
    toks.join(";")
}

// ------------------------------------------------- implementation runner ----
fn seg_files(dir: &Path) -> Vec<(u64, PathBuf)> {
    let mut v = Vec::new();
    if let Ok(rd) = std::fs::read_dir(dir) {
        for e in rd.flatten() {
            let name = e.file_name().to_string_lossy().to_string();
            if let Some(rest) = name.strip_prefix("segment-") {
                if let Some(id) = rest.strip_suffix(".wal") {
                    if let Ok(id) = id.parse::<u64>() {
                        v.push((id, e.path()));
                    }
                }
            }
        }
    }
    v.sort();
    v
}

fn flushed_on_disk(dir: &Path) -> u64 {
    // what the file says, read here without the code under test
    match std::fs::read(dir.join("flushed_seq")) {
        Ok(b) if b.len() == 8 => u64::from_le_bytes(b.try_into().unwrap()),
        _ => 0,
    }
}

#[derive(Clone)]
struct RefEntry {
    seq: u64,
    pidx: usize,
    size: u64,
}

/// What the oracle knows without asking the model.
struct Oracle {
    /// completely written entries that may still be in the log, oldest first;
    /// the bool says "is in the newest segment file"
    entries: Vec<(RefEntry, bool)>,
    newest_seg: Option<u64>,
    max_bound: u64,
    max_acked: u64,
    max_mark: u64,
    /// flushed mark that was on disk when the current handle was opened
    mark_at_open: u64,
    disciplined: bool,
    /// false once a fault outside the crash model hit a byte the format does
    /// not protect (sequence number / length field): the recovered list is then
    /// only compared with the model
    exact: bool,
    failures: Vec<String>,
}

impl Oracle {
    fn new() -> Self {
        Oracle { entries: Vec::new(), newest_seg: None, max_bound: 0, max_acked: 0, max_mark: 0, mark_at_open: 0, disciplined: true, exact: true, failures: Vec::new() }
    }
    fn sync_newest(&mut self, dir: &Path) {
        let newest = seg_files(dir).last().map(|x| x.0);
        if newest != self.newest_seg {
            for e in self.entries.iter_mut() {
                e.1 = false;
            }
            self.newest_seg = newest;
        }
    }
    /// newest complete entry that cannot have been truncated away
    fn sure_top(&self) -> Option<u64> {
        self.entries.last().map(|e| e.0.seq).filter(|s| *s >= self.max_bound)
    }
}

struct Impl<'a> {
    rt: &'a tokio::runtime::Runtime,
    pool: &'a Pool,
    dir: tempfile::TempDir,
    wal: Option<WriteAheadLog>,
    or: Oracle,
}

fn show_entries_impl(v: &[(u64, u8, Vec<u8>)]) -> String {
    v.iter()
        .map(|(s, f, p)| format!("{}/{}/{}/{}", s, f, p.len(), crc32fast::hash(p)))
        .collect::<Vec<_>>()
        .join(",")
}

impl<'a> Impl<'a> {
    fn new(rt: &'a tokio::runtime::Runtime, pool: &'a Pool) -> Self {
        let dir = tempfile::Builder::new()
            .prefix("csv-wal")
            .tempdir_in("/dev/shm")
            .or_else(|_| tempfile::tempdir())
            .expect("temp dir");
        Impl { rt, pool, dir, wal: None, or: Oracle::new() }
    }
    fn cfg(&self, max: u64) -> WalConfig {
        WalConfig { wal_dir: self.dir.path().to_path_buf(), max_segment_size: max as usize, sync_mode: WalSyncMode::EveryWrite, enabled: true }
    }
    fn read_all(&self) -> Option<Vec<(u64, u8, Vec<u8>)>> {
        let w = self.wal.as_ref()?;
        match w.read_entries() {
            Ok(es) => Some(es.into_iter().map(|e| (e.seq, e.flags, e.payload)).collect()),
            Err(_) => None,
        }
    }

    /// oracle: what a fresh handle reads must be the completely written
    /// entries, minus a prefix below a truncation bound
    fn check_recovery(&mut self, at: usize) {
        if !self.or.exact {
            return;
        }
        let Some(w) = self.wal.as_ref() else { return };
        let got = match w.read_entries() {
            Ok(g) => g,
            Err(e) => {
                self.or.failures.push(format!("op {}: read_entries failed after open: {}", at, e));
                return;
            }
        };
        let refs = &self.or.entries;
        if got.len() > refs.len() {
            self.or.failures.push(format!(
                "op {}: recovered {} entries {:?} but only {} were ever written completely",
                at, got.len(), got.iter().map(|e| e.seq).collect::<Vec<_>>(), refs.len()));
            return;
        }
        let n = refs.len() - got.len();
        for (g, (r, _)) in got.iter().zip(refs[n..].iter()) {
            if g.seq != r.seq || g.payload != self.pool.payloads[r.pidx] {
                self.or.failures.push(format!(
                    "op {}: recovered entries {:?} are not a suffix of the completely written entries {:?} (partial, corrupted, duplicated or reordered entry)",
                    at, got.iter().map(|e| e.seq).collect::<Vec<_>>(), refs.iter().map(|e| e.0.seq).collect::<Vec<_>>()));
                return;
            }
            match g.batches() {
                Ok(bs) if bs.len() == 1 && bs[0] == self.pool.batches[r.pidx] => {}
                _ => {
                    self.or.failures.push(format!("op {}: recovered entry {} does not decode to the batch that was appended", at, g.seq));
                    return;
                }
            }
        }
        for (r, _) in refs[..n].iter() {
            if r.seq >= self.or.max_bound {
                self.or.failures.push(format!(
                    "op {}: completely written entry seq {} is missing after reopen (recovered {:?}; largest truncation bound so far {})",
                    at, r.seq, got.iter().map(|e| e.seq).collect::<Vec<_>>(), self.or.max_bound));
                return;
            }
        }
        // what was legitimately removed stays removed
        self.or.entries.drain(..n);
    }

    fn check_new_seq(&mut self, at: usize, s: u64, fl_before: u64) {
        // unconditional: above the mark that was on disk when this handle was opened
        if s <= self.or.mark_at_open {
            self.or.failures.push(format!(
                "op {}: append was given sequence number {} although the flushed_seq file recorded {} as flushed when the log was opened",
                at, s, self.or.mark_at_open));
        }
        if !self.or.disciplined {
            return;
        }
        let floor = self.or.max_acked.max(self.or.max_mark).max(fl_before);
        if s <= floor {
            self.or.failures.push(format!(
                "op {}: append was given sequence number {} although {} was already acknowledged / recorded as flushed (acked {}, persisted mark {}, mark on disk {})",
                at, s, floor, self.or.max_acked, self.or.max_mark, fl_before));
        }
        if let Some((last, _)) = self.or.entries.last() {
            if s <= last.seq {
                self.or.failures.push(format!("op {}: sequence number {} is not above the completely written entry {}", at, s, last.seq));
            }
        }
    }

    fn newest_seg_path(&self) -> Option<PathBuf> {
        seg_files(self.dir.path()).last().map(|x| x.1.clone())
    }

    fn exec(&mut self, at: usize, op: &Op) -> String {
        let dirp = self.dir.path().to_path_buf();
        match op {
            Op::O(max) => {
                self.wal = None;
                let cfg = self.cfg(*max);
                let rt = self.rt;
                let r = catch(AssertUnwindSafe(|| rt.block_on(WriteAheadLog::open(cfg))));
                match r {
                    Ok(Ok(w)) => {
                        let next = w.next_seq();
                        self.wal = Some(w);
                        self.or.sync_newest(&dirp);
                        self.check_recovery(at);
                        // unconditional: open never starts at or below the mark that is on disk,
                        // nor at or below an entry it has just recovered
                        let mark_now = flushed_on_disk(&dirp);
                        self.or.mark_at_open = mark_now;
                        if next <= mark_now {
                            self.or.failures.push(format!("op {}: next_seq after open is {} although the flushed_seq file on disk records {} as flushed", at, next, mark_now));
                        }
                        if self.or.exact {
                            if let Some((last, _)) = self.or.entries.last() {
                                if next <= last.seq {
                                    self.or.failures.push(format!("op {}: next_seq after open is {} although the completely written entry {} was just recovered", at, next, last.seq));
                                }
                            }
                        }
                        if self.or.disciplined {
                            let floor = self.or.max_acked.max(self.or.max_mark).max(flushed_on_disk(&dirp));
                            if next <= floor {
                                self.or.failures.push(format!("op {}: next_seq after open is {} although {} was already acknowledged / recorded as flushed", at, next, floor));
                            }
                        }
                        format!("o:{}", next)
                    }
                    Ok(Err(e)) => format!("o:ERR {}", e),
                    Err(_) => "o:PANIC".into(),
                }
            }
            Op::A(i) | Op::X(i, _) => {
                let tag = if matches!(op, Op::A(_)) { "a" } else { "x" };
                let Some(mut w) = self.wal.take() else { return format!("{}:-", tag) };
                let fl_before = flushed_on_disk(&dirp);
                let batch = self.pool.batches[*i].clone();
                let rt = self.rt;
                let r = catch(AssertUnwindSafe(|| rt.block_on(w.append(&batch))));
                let full = HEADER_LEN + self.pool.payloads[*i].len() as u64;
                let out = match r {
                    Ok(Ok(seq)) => {
                        self.check_new_seq(at, seq, fl_before);
                        self.or.sync_newest(&dirp);
                        let complete = match op {
                            Op::X(_, keep) => {
                                // the write is cut: only `keep` bytes of it stay in the file
                                let keep = (*keep).min(full);
                                if let Some(p) = self.newest_seg_path() {
                                    let len = std::fs::metadata(&p).map(|m| m.len()).unwrap_or(0);
                                    let f = std::fs::OpenOptions::new().write(true).open(&p).unwrap();
                                    f.set_len(len.saturating_sub(full - keep)).unwrap();
                                }
                                keep == full
                            }
                            _ => true,
                        };
                        if complete {
                            self.or.entries.push((RefEntry { seq, pidx: *i, size: full }, true));
                        }
                        if matches!(op, Op::A(_)) {
                            self.or.max_acked = self.or.max_acked.max(seq);
                        }
                        format!("{}:{}", tag, seq)
                    }
                    Ok(Err(e)) => format!("{}:ERR {}", tag, e),
                    Err(_) => format!("{}:PANIC", tag),
                };
                if matches!(op, Op::A(_)) {
                    self.wal = Some(w);
                }
                out
            }
            Op::T(b) => {
                let fl = flushed_on_disk(&dirp);
                let ok = self.or.sure_top().map_or(false, |t| *b <= t) || *b <= fl.saturating_add(1);
                if !ok {
                    self.or.disciplined = false;
                }
                let Some(w) = self.wal.as_mut() else { return "t:-".into() };
                self.or.max_bound = self.or.max_bound.max(*b);
                let rt = self.rt;
                match catch(AssertUnwindSafe(|| rt.block_on(w.truncate_before(*b)))) {
                    Ok(Ok(())) => "t".into(),
                    Ok(Err(e)) => format!("t:ERR {}", e),
                    Err(_) => "t:PANIC".into(),
                }
            }
            Op::FN => {
                let Some(w) = self.wal.as_ref() else { return "f:-".into() };
                let x = w.next_seq();
                self.or.disciplined = false; // the mark names an entry that is not in the log yet
                match persist_flushed_seq(&dirp, x) {
                    Ok(()) => "f".into(),
                    Err(_) => "f:ERR".into(),
                }
            }
            Op::F(x) | Op::G(x, _) => {
                let fl = flushed_on_disk(&dirp);
                let ok = fl <= *x && self.or.sure_top().map_or(*x == 0, |t| *x <= t);
                if !ok {
                    self.or.disciplined = false;
                }
                let r = persist_flushed_seq(&dirp, *x);
                match op {
                    Op::G(_, keep) => {
                        let keep = (*keep).min(8);
                        let f = std::fs::OpenOptions::new().write(true).open(dirp.join("flushed_seq")).unwrap();
                        f.set_len(keep).unwrap();
                        self.wal = None;
                        if keep == 8 {
                            self.or.max_mark = self.or.max_mark.max(*x);
                        }
                        "g".into()
                    }
                    _ => {
                        self.or.max_mark = self.or.max_mark.max(*x);
                        if r.is_ok() { "f".into() } else { "f:ERR".into() }
                    }
                }
            }
            Op::C => {
                self.wal = None;
                "c".into()
            }
            Op::K(n) => {
                self.wal = None;
                self.or.disciplined = false;
                self.or.sync_newest(&dirp);
                if let Some(p) = self.newest_seg_path() {
                    let len = std::fs::metadata(&p).map(|m| m.len()).unwrap_or(0);
                    if *n < len {
                        std::fs::OpenOptions::new().write(true).open(&p).unwrap().set_len(*n).unwrap();
                        self.drop_newest_from(*n);
                    }
                }
                "k".into()
            }
            Op::B(off, v) => {
                self.wal = None;
                self.or.disciplined = false;
                self.or.sync_newest(&dirp);
                if let Some(p) = self.newest_seg_path() {
                    let mut bytes = std::fs::read(&p).unwrap_or_default();
                    if (*off as usize) < bytes.len() {
                        bytes[*off as usize] ^= *v;
                        std::fs::write(&p, &bytes).unwrap();
                        // which field of which complete entry was hit?
                        let mut start = 0u64;
                        let mut hit: Option<u64> = None;
                        for (e, newest) in self.or.entries.iter() {
                            if *newest {
                                if *off >= start && *off < start + e.size {
                                    hit = Some(*off - start);
                                }
                                start += e.size;
                            }
                        }
                        match hit {
                            // magic, version, compression flag, stored CRC, payload: the entry must vanish
                            Some(r) if r < 5 || (r == 5 && *v & 1 == 1) || r >= 18 => self.drop_newest_from(*off),
                            // sequence number, length, other flag bits: not protected by the format
                            Some(_) => self.or.exact = false,
                            None => {}
                        }
                    }
                }
                "b".into()
            }
            Op::R => {
                if self.wal.is_none() {
                    return "r:-".into();
                }
                match self.read_all() {
                    Some(v) => format!("r:{}", show_entries_impl(&v)),
                    None => "r:ERR".into(),
                }
            }
            Op::E(a) => match self.wal.as_ref() {
                None => "e:-".into(),
                Some(w) => match w.read_entries_after(*a) {
                    Ok(es) => {
                        let v: Vec<(u64, u8, Vec<u8>)> = es.into_iter().map(|e| (e.seq, e.flags, e.payload)).collect();
                        if v.iter().any(|e| e.0 <= *a) {
                            self.or.failures.push(format!("op {}: read_entries_after({}) returned an entry at or below the bound", at, a));
                        }
                        format!("e:{}", show_entries_impl(&v))
                    }
                    Err(_) => "e:ERR".into(),
                },
            },
            Op::N => match self.wal.as_ref() {
                Some(w) => format!("n:{}", w.next_seq()),
                None => "n:-".into(),
            },
            Op::S => {
                let v: Vec<String> = seg_files(&dirp)
                    .iter()
                    .map(|(id, p)| {
                        let b = std::fs::read(p).unwrap_or_default();
                        format!("{}/{}/{}", id, b.len(), crc32fast::hash(&b))
                    })
                    .collect();
                format!("s:{}", v.join(","))
            }
            Op::L => match load_flushed_seq(&dirp) {
                Ok(v) => format!("l:{}", v),
                Err(_) => "l:ERR".into(),
            },
        }
    }

    /// reference update for the two faults outside the crash model: complete
    /// entries of the newest segment file that end at or before byte `pos`
    /// survive; the entry that contains `pos` and everything behind it is gone
    fn drop_newest_from(&mut self, pos: u64) {
        let mut end = 0u64;
        let mut keep = Vec::new();
        let mut cutting = false;
        for (e, newest) in self.or.entries.iter() {
            if !*newest {
                keep.push((e.clone(), false));
                continue;
            }
            end += e.size;
            if !cutting && end <= pos {
                keep.push((e.clone(), true));
            } else {
                cutting = true;
            }
        }
        self.or.entries = keep;
    }
}

/// Runs one history on the real code; returns the canonical output line and
/// the oracle failures.
fn run_impl(rt: &tokio::runtime::Runtime, pool: &Pool, ops: &[Op]) -> (String, Vec<String>, bool) {
    let mut im = Impl::new(rt, pool);
    let mut toks: Vec<String> = pool.payloads.iter().take(pool.n_model).map(|_| "p".to_string()).collect();
    for (i, op) in ops.iter().enumerate() {
        toks.push(im.exec(i, op));
    }
    let disciplined = im.or.disciplined;
    (toks.join(";"), std::mem::take(&mut im.or.failures), disciplined)
}

/// the harness's own verdict "this op respects the caller discipline", per
/// state-changing op, in the format of the model's `?` answer ("." for
/// observations); used to cross-check the classifier against op_ok
fn discipline_flags(rt: &tokio::runtime::Runtime, pool: &Pool, ops: &[Op]) -> Vec<Option<bool>> {
    let mut im = Impl::new(rt, pool);
    let mut v = Vec::new();
    for (i, op) in ops.iter().enumerate() {
        let before = im.or.disciplined;
        im.or.disciplined = true;
        im.exec(i, op);
        let this = im.or.disciplined;
        im.or.disciplined = before && this;
        v.push(match op {
            Op::R | Op::E(_) | Op::N | Op::S | Op::L => None,
            _ => Some(this),
        });
    }
    v
}

// ------------------------------------------------------------ generator ----
fn entry_size(pool: &Pool, i: usize) -> u64 {
    HEADER_LEN + pool.payloads[i].len() as u64
}

fn gen_keep(rng: &mut Rng, report: &mut Report, full: u64, rotates_hint: bool) -> u64 {
    let class = rng.below(6);
    let k = match class {
        0 => 0,
        1 => rng.range_i64(1, HEADER_LEN as i64 - 1) as u64,
        2 => HEADER_LEN,
        3 => rng.range_i64(HEADER_LEN as i64 + 1, full as i64 - 1) as u64,
        4 => full - 1,
        _ => full,
    };
    report.bump(match k {
        0 if rotates_hint => "cut.nothing_written_maybe_new_empty_segment",
        0 => "cut.nothing_written",
        x if x < HEADER_LEN => "cut.inside_header",
        x if x == HEADER_LEN => "cut.header_payload_seam",
        x if x < full => "cut.inside_payload",
        _ => "cut.complete_but_unacknowledged",
    });
    k
}

/// ingester-shaped random history with crash points of every class
fn gen_case(rng: &mut Rng, pool: &Pool, report: &mut Report) -> Vec<Op> {
    let np = pool.n_model - 1; // the zero-row batch is used rarely
    let e0 = entry_size(pool, 1);
    let max = match rng.below(6) {
        0 => 0,                                   // never rotate
        1 => 1,                                   // every append rotates
        2 => e0 + 1,                              // about one entry per segment
        3 => 2 * e0 + rng.below(40),              // about two
        4 => 3 * e0 + rng.below(600),
        _ => 1 << 20,
    };
    report.bump(&format!("segment_limit.{}", match max { 0 => "unlimited", 1 => "one_byte", m if m < 2 * e0 => "one_entry", m if m < (1 << 20) => "few_entries", _ => "large" }));
    let mut ops = vec![Op::O(max)];
    let nops = rng.range_usize(4, 22);
    let mut up = true;
    let mut last_seq_guess: u64 = 0; // what an ingester would hold in last_wal_seq
    let mut fl_guess: u64 = 0;
    let mut crash_rounds = 0;
    for _ in 0..nops {
        if !up {
            // restart the way ensure_wal does, sometimes crash again immediately
            ops.push(Op::L);
            ops.push(Op::O(max));
            ops.push(Op::N);
            if rng.chance(2, 3) {
                ops.push(Op::E(fl_guess));
            } else {
                ops.push(Op::R);
            }
            if fl_guess > 0 && rng.chance(3, 4) {
                ops.push(Op::T(fl_guess + 1));
            }
            up = true;
            crash_rounds += 1;
            if rng.chance(1, 5) {
                ops.push(Op::C);
                up = false;
                report.bump("crash.immediately_after_reopen");
            }
            continue;
        }
        let r = rng.below(100);
        if r < 42 {
            let i = if rng.chance(1, 25) { np } else { rng.below(np as u64) as usize };
            ops.push(Op::A(i));
            last_seq_guess += 1;
            report.bump("op.append");
        } else if r < 56 {
            let i = rng.below(np as u64) as usize;
            let full = entry_size(pool, i);
            let keep = gen_keep(rng, report, full, max > 0 && max < 3 * e0);
            ops.push(Op::X(i, keep));
            if keep == full {
                last_seq_guess += 1;
            }
            up = false;
            report.bump("op.crash_inside_append");
        } else if r < 66 {
            // the tail of flush_batches
            if last_seq_guess > 0 {
                ops.push(Op::T(last_seq_guess));
                ops.push(Op::F(last_seq_guess));
                fl_guess = last_seq_guess;
                report.bump("op.flush");
            }
        } else if r < 72 {
            if last_seq_guess > 0 {
                ops.push(Op::T(last_seq_guess));
                let keep = rng.below(9);
                ops.push(Op::G(last_seq_guess, keep));
                report.bump(if keep == 8 { "flushed_file.new_then_crash" } else if keep == 0 { "flushed_file.torn_empty" } else { "flushed_file.torn_partial" });
                if keep == 8 {
                    fl_guess = last_seq_guess;
                } else {
                    fl_guess = 0;
                }
                up = false;
            }
        } else if r < 76 {
            // crash between truncate and persist: the mark on disk stays old
            if last_seq_guess > 0 {
                ops.push(Op::T(last_seq_guess));
                report.bump("flushed_file.old_crash_before_persist");
            }
            ops.push(Op::C);
            up = false;
        } else if r < 80 {
            // the mark is persisted for the entry whose write is then torn (flushed file new, log old)
            let i = rng.below(np as u64) as usize;
            let full = entry_size(pool, i);
            ops.push(Op::FN);
            ops.push(Op::X(i, rng.below(full)));
            fl_guess = last_seq_guess + 1;
            up = false;
            report.bump("flushed_file.new_while_log_old");
        } else if r < 82 {
            ops.push(Op::C);
            up = false;
            report.bump("op.crash_at_boundary");
        } else if r < 85 {
            // outside the caller discipline: arbitrary bound / mark
            if rng.chance(1, 2) {
                ops.push(Op::T(rng.below(last_seq_guess + 4)));
            } else {
                ops.push(Op::F(rng.below(last_seq_guess + 4)));
            }
            report.bump("op.wild_truncate_or_persist");
        } else if r < 88 {
            // faults outside the crash model (correspondence of the reader's other branches)
            if rng.chance(1, 2) {
                ops.push(Op::K(rng.below(3 * e0)));
                report.bump("fault.cut_anywhere");
            } else {
                let (off, v) = gen_flip(rng, pool, report);
                ops.push(Op::B(off, v));
            }
            up = false;
        } else if r < 92 {
            ops.push(Op::R);
        } else if r < 95 {
            ops.push(Op::E(rng.below(last_seq_guess + 2)));
        } else if r < 97 {
            ops.push(Op::S);
        } else {
            ops.push(Op::N);
        }
    }
    if !up {
        crash_rounds += 1;
    }
    report.bump(&format!("crash_reopen_rounds.{}", crash_rounds.min(6)));
    // always finish with a reopening and a full observation
    ops.push(Op::C);
    ops.push(Op::O(max));
    ops.push(Op::N);
    ops.push(Op::R);
    ops.push(Op::S);
    ops.push(Op::L);
    ops
}

/// a byte the format protects: magic, version, flag bit 0, stored CRC, payload
fn gen_flip(rng: &mut Rng, pool: &Pool, report: &mut Report) -> (u64, u8) {
    let e = entry_size(pool, 1);
    let base = rng.below(2) * e; // first or second entry if they have the common size
    let any = 1 + rng.below(255) as u8;
    match rng.below(5) {
        0 => { report.bump("fault.flip_magic"); (base + rng.below(4), any) }
        1 => { report.bump("fault.flip_version"); (base + 4, any) }
        2 => { report.bump("fault.flip_compressed_flag"); (base + 5, any | 1) }
        3 => { report.bump("fault.flip_stored_crc"); (base + 18 + rng.below(4), any) }
        _ => { report.bump("fault.flip_payload_byte"); (base + HEADER_LEN + rng.below(e - HEADER_LEN), any) }
    }
}

/// every cut offset of the last write, for several layouts
fn sweep_cases(pool: &Pool, report: &mut Report, thorough: bool) -> Vec<(String, Vec<Op>)> {
    let mut v = Vec::new();
    let mut layouts: Vec<(u64, Vec<usize>, usize, usize)> = vec![
        // (segment limit, entries before, entry that is cut, entry appended after the reopening)
        (1 << 20, vec![1, 3], 1, 0),                       // one segment
        (2 * entry_size(pool, 1) + 1, vec![1, 1], 1, 1),   // the cut write rotates into a new segment
    ];
    if thorough {
        layouts.push((1 << 20, vec![], 4, 1));
        layouts.push((1, vec![0, 0], 3, 0));
        layouts.push((0, vec![2, 4, 0], 2, 2));
    }
    for (max, before, cut, after) in layouts {
        let full = entry_size(pool, cut);
        for keep in 0..=full {
            let mut ops = vec![Op::O(max)];
            ops.extend(before.iter().map(|i| Op::A(*i)));
            ops.push(Op::X(cut, keep));
            ops.extend([Op::O(max), Op::N, Op::R, Op::S, Op::A(after), Op::C, Op::O(max), Op::R, Op::N, Op::A(after), Op::C, Op::O(max), Op::R, Op::S]);
            report.bump(match keep {
                0 => "sweep.cut.nothing_written",
                k if k < HEADER_LEN => "sweep.cut.inside_header",
                k if k == HEADER_LEN => "sweep.cut.header_payload_seam",
                k if k < full => "sweep.cut.inside_payload",
                _ => "sweep.cut.complete_but_unacknowledged",
            });
            v.push(("sweep-last-write".to_string(), ops));
        }
    }
    // every state of the flushed-sequence file, with and without an empty active segment
    for keep in 0..=8u64 {
        let e = entry_size(pool, 1);
        for empty_tail in [false, true] {
            let max = 2 * e + 1;
            let mut ops = vec![Op::O(max), Op::A(1), Op::A(1)];
            if empty_tail {
                ops.push(Op::X(1, 0)); // rotates, nothing written
                ops.push(Op::O(max));
            }
            ops.extend([Op::T(2), Op::F(2), Op::C, Op::L, Op::O(max), Op::T(3), Op::S, Op::A(0)]);
            // seq 3 acknowledged; flush it, the flushed-file write is cut
            ops.extend([Op::T(3), Op::G(3, keep), Op::L, Op::O(max), Op::N, Op::R, Op::A(0), Op::C, Op::O(max), Op::R, Op::N, Op::S]);
            report.bump(if keep == 8 { "sweep.flushed_file.new" } else { "sweep.flushed_file.torn" });
            v.push(("sweep-flushed-file".to_string(), ops));
        }
    }
    // every cut offset of a 3-entry, 2-segment log (outside the last-write crash model)
    let e = entry_size(pool, 1);
    let step = if thorough { 1 } else { 1 };
    let mut n = 0;
    while n <= 2 * e {
        let ops = vec![Op::O(2 * e + 1), Op::A(1), Op::A(1), Op::A(1), Op::A(1), Op::K(n), Op::O(2 * e + 1), Op::R, Op::N, Op::S, Op::A(0), Op::C, Op::O(2 * e + 1), Op::R];
        report.bump("sweep.cut_anywhere");
        v.push(("sweep-cut-anywhere".to_string(), ops));
        n += step;
    }
    v
}

/// one entry of tens of megabytes between small ones (oracle only): reader and
/// writer must agree on what a complete entry is for every size the writer
/// acknowledges
fn large_cases(pool: &Pool, thorough: bool) -> Vec<Vec<Op>> {
    let big = pool.n_model; // 17.6 MB
    let huge = pool.n_model + 1; // 33.6 MB
    let full = entry_size(pool, big);
    let dflt: u64 = 64 * 1024 * 1024; // WalConfig::default().max_segment_size
    let mut v = vec![
        // default segment limit: small, large, small; crash; reopen twice
        vec![Op::O(dflt), Op::A(1), Op::A(big), Op::A(1), Op::C, Op::O(dflt), Op::R, Op::N, Op::A(1), Op::C, Op::O(dflt), Op::R, Op::N],
        // the large entry exceeds the segment limit: it gets a segment of its own
        vec![Op::O(1 << 20), Op::A(1), Op::A(big), Op::A(1), Op::C, Op::O(1 << 20), Op::R, Op::N, Op::A(1), Op::C, Op::O(1 << 20), Op::R],
        // the write of the large entry is cut inside its payload
        vec![Op::O(dflt), Op::A(1), Op::X(big, 10_000_000), Op::O(dflt), Op::R, Op::N, Op::A(1), Op::C, Op::O(dflt), Op::R, Op::N],
        // ... one byte before its end, and complete but unacknowledged
        vec![Op::O(dflt), Op::A(1), Op::X(big, full - 1), Op::O(dflt), Op::R, Op::N, Op::X(big, full), Op::O(dflt), Op::R, Op::N, Op::A(1), Op::R],
        // enlarged limit, a 33 MB entry followed by a 17 MB one, flush + restart as the ingester does
        vec![Op::O(4 * dflt), Op::A(1), Op::A(huge), Op::A(big), Op::A(1), Op::T(3), Op::F(3), Op::C, Op::L, Op::O(4 * dflt), Op::E(3), Op::T(4), Op::R, Op::N, Op::A(1), Op::C, Op::O(4 * dflt), Op::R],
    ];
    if thorough {
        v.push(vec![Op::O(dflt), Op::A(huge), Op::A(huge), Op::C, Op::O(dflt), Op::R, Op::N, Op::A(big), Op::C, Op::O(dflt), Op::R, Op::N]);
        v.push(vec![Op::O(0), Op::A(big), Op::X(huge, 22), Op::O(0), Op::R, Op::A(huge), Op::C, Op::O(0), Op::R, Op::N]);
    }
    v
}

/// regression cases: the two defects that were repaired, and proof-derived corners
fn corpus(pool: &Pool) -> Vec<Vec<Op>> {
    let e = entry_size(pool, 1);
    vec![
        // append after a torn tail was lost at the next reopening and its number re-issued
        vec![Op::O(1 << 20), Op::A(1), Op::A(1), Op::C, Op::K(e + 10), Op::O(1 << 20), Op::R, Op::A(1), Op::C, Op::O(1 << 20), Op::R, Op::N],
        vec![Op::O(1 << 20), Op::A(1), Op::X(1, 10), Op::O(1 << 20), Op::N, Op::A(1), Op::C, Op::O(1 << 20), Op::R, Op::N, Op::S],
        // empty active segment after the flushed segments were removed: numbering restarted at 1
        vec![Op::O(2 * e), Op::A(1), Op::A(1), Op::X(1, 0), Op::O(2 * e), Op::N, Op::F(2), Op::C, Op::L, Op::O(2 * e), Op::T(3), Op::S, Op::C, Op::O(2 * e), Op::N, Op::A(1), Op::E(2), Op::R],
        // same with the flushed file torn afterwards (mark reads 0; the log must still carry the numbering)
        vec![Op::O(2 * e), Op::A(1), Op::A(1), Op::A(1), Op::T(3), Op::G(3, 5), Op::L, Op::O(2 * e), Op::N, Op::R, Op::A(1), Op::R],
        // truncation: bound equal to / one above a segment's last number
        vec![Op::O(e + 1), Op::A(1), Op::A(1), Op::A(1), Op::T(2), Op::S, Op::T(3), Op::S, Op::R, Op::C, Op::O(e + 1), Op::R, Op::N],
        // truncation skips an empty older segment and goes on
        vec![Op::O(e + 1), Op::A(1), Op::X(1, 0), Op::O(e + 1), Op::A(1), Op::A(1), Op::S, Op::T(3), Op::S, Op::R],
        // complete but unacknowledged write: the number is not re-used
        vec![Op::O(1 << 20), Op::A(0), Op::X(0, entry_size(pool, 0)), Op::O(1 << 20), Op::N, Op::R, Op::A(0), Op::R],
        // zero-row batch, unlimited segment size, reopen twice in a row
        vec![Op::O(0), Op::A(5), Op::A(2), Op::C, Op::O(0), Op::C, Op::O(0), Op::R, Op::N, Op::S, Op::L],
        // every reader branch: magic, version, compression flag, stored crc, payload byte
        vec![Op::O(1 << 20), Op::A(1), Op::A(1), Op::B(e + 2, 0x20), Op::O(1 << 20), Op::R, Op::N, Op::S],
        vec![Op::O(1 << 20), Op::A(1), Op::A(1), Op::B(e + 4, 3), Op::O(1 << 20), Op::R, Op::N],
        vec![Op::O(1 << 20), Op::A(1), Op::A(1), Op::B(5, 1), Op::O(1 << 20), Op::R, Op::N, Op::A(1), Op::R],
        vec![Op::O(1 << 20), Op::A(1), Op::A(1), Op::B(e + 19, 0x80), Op::O(1 << 20), Op::R, Op::N],
        vec![Op::O(1 << 20), Op::A(1), Op::A(1), Op::B(e + HEADER_LEN + 7, 0xff), Op::O(1 << 20), Op::R, Op::N, Op::A(1), Op::C, Op::O(1 << 20), Op::R],
        // the flushed file already names entry N while the write of entry N was torn:
        // the log ends BELOW the mark, numbering must continue above the mark
        vec![Op::O(1 << 20), Op::A(1), Op::A(1), Op::FN, Op::X(1, 10), Op::L, Op::O(1 << 20), Op::N, Op::R, Op::A(1), Op::C, Op::O(1 << 20), Op::R, Op::N],
        vec![Op::O(1 << 20), Op::A(1), Op::A(1), Op::A(1), Op::T(3), Op::F(3), Op::C, Op::K(2 * e + 300), Op::L, Op::O(1 << 20), Op::N, Op::R, Op::A(1), Op::R],
        vec![Op::O(e + 1), Op::A(1), Op::A(1), Op::FN, Op::X(1, 0), Op::O(e + 1), Op::N, Op::T(4), Op::S, Op::A(1), Op::C, Op::O(e + 1), Op::N, Op::R],
        // the u64 end of the sequence space (debug build: arithmetic overflow panics, nothing is written)
        vec![Op::F(u64::MAX), Op::O(1 << 20), Op::N, Op::S, Op::L],
        vec![Op::F(u64::MAX - 1), Op::O(1 << 20), Op::N, Op::A(1), Op::N, Op::R, Op::S],
    ]
}

fn nontrivial(ops: &[Op]) -> bool {
    // a crash (of any kind) followed by a reopening and an observation
    let crash = ops.iter().position(|o| matches!(o, Op::X(..) | Op::G(..) | Op::C | Op::K(_) | Op::B(..)));
    match crash {
        Some(c) => {
            let open = ops[c..].iter().position(|o| matches!(o, Op::O(_))).map(|p| p + c);
            match open {
                Some(o) => ops[o..].iter().any(|x| matches!(x, Op::R | Op::E(_) | Op::N | Op::A(_))),
                None => false,
            }
        }
        None => false,
    }
}

fn main() {
    let args = Args::parse();
    csv_common::quiet_panics();
    let rt = tokio::runtime::Builder::new_current_thread().enable_all().build().unwrap();
    let pool = make_pool();
    let mut model = Model::spawn(&args.model);
    let mut report = Report::new("C05");
    report.max_samples = 14;

    if let Some(path) = &args.replay {
        let txt = std::fs::read_to_string(path).expect("replay file");
        let v: serde_json::Value = serde_json::from_str(&txt).expect("replay json");
        let c = &v["case"];
        let line = c.as_str().or_else(|| c["case"].as_str()).or_else(|| v["shrunk"].as_str()).unwrap_or("").to_string();
        if let Some(rest) = line.strip_prefix("ING ") {
            let (max, ops) = ingleg::dec_iops(rest);
            let out = ingleg::run(&rt, max, &ops);
            let m = ingleg::canon_model(&model.ask(&out.model_line));
            let i = ingleg::canon_impl(&out.impl_line, &m);
            println!("case : ING {}\nimpl : {}\nmodel: {}\noracle failures: {:?}", ingleg::enc_iops(max, &ops), i, m, out.failures);
            std::process::exit(if out.failures.is_empty() && (model.is_null() || i == m) { 0 } else { 1 });
        }
        let ops = decode_ops(&line);
        let (impl_out, bad, disciplined) = run_impl(&rt, &pool, &ops);
        let model_out = model.ask(&model_line(&pool, &ops));
        println!("case : {}\nimpl : {}\nmodel: {}\ncaller discipline respected: {}\noracle failures: {:?}", encode_ops(&ops), impl_out, model_out, disciplined, bad);
        std::process::exit(if bad.is_empty() && (model.is_null() || impl_out == model_out) { 0 } else { 1 });
    }

    let mut cases: Vec<(String, Vec<Op>)> = corpus(&pool).into_iter().map(|c| ("corpus".to_string(), c)).collect();
    cases.extend(sweep_cases(&pool, &mut report, args.thorough()));
    cases.extend(large_cases(&pool, args.thorough()).into_iter().map(|c| ("large-entry-oracle-only".to_string(), c)));
    let n_random = if args.thorough() { 10_000 } else { 400 };
    let mut rng = Rng::new(args.seed);
    for _ in 0..n_random {
        let mut r = rng.fork();
        cases.push(("random".to_string(), gen_case(&mut r, &pool, &mut report)));
    }
    report.notes.push(format!(
        "payload pool: {} real record batches, Arrow IPC payload sizes {:?}; the payloads behind the first {} are used by the large-entry family only, which is ORACLE-ONLY (no model comparison: the bit-by-bit Gallina CRC-32 is too slow for tens of megabytes)",
        pool.payloads.len(), pool.payloads.iter().map(|p| p.len()).collect::<Vec<_>>(), pool.n_model));

    let mut limits = Limits::new(&args);
    // the ingester leg's regression cases first: they are few and must not be starved by the budget
    for (k, (max, ops)) in ingleg::corpus().into_iter().enumerate() {
        ingleg::check_case(&rt, &mut model, &mut report, &mut limits, "ingester-corpus", max, &ops, k < 2);
    }
    let mut discipline_checked = 0u64;
    let mut stopped: Option<String> = None;
    for (idx, (origin, ops)) in cases.iter().enumerate() {
        if let Some(why) = limits.stop() {
            stopped = Some(format!("{} ({} of {} WAL-level cases run)", why, idx, cases.len()));
            break;
        }
        let key = encode_ops(ops);
        report.case(if nontrivial(ops) { Some(&key) } else { None });
        report.bump(&format!("origin.{}", origin));
        let (impl_out, bad, disciplined) = run_impl(&rt, &pool, ops);
        report.impl_runs += 1;
        report.bump(if disciplined { "history.caller_discipline_respected" } else { "history.outside_discipline_or_crash_model" });
        let oracle_only = origin == "large-entry-oracle-only";
        let line = model_line(&pool, ops);
        let (differs, model_out) = if oracle_only { (false, "not run (oracle-only family)".to_string()) } else { model.differs(&line, &impl_out) };
        if idx % 97 == 0 || origin == "corpus" || oracle_only {
            report.sample(json!({"history": key, "impl": impl_out.split(';').skip(pool.n_model).collect::<Vec<_>>().join(";"),
                                 "model": model_out.split(';').skip(pool.n_model).collect::<Vec<_>>().join(";")}));
        }
        if differs {
            let cut = first_diff(&impl_out, &model_out).saturating_sub(pool.n_model);
            let prefix: Vec<Op> = ops.iter().take(cut + 1).cloned().collect();
            let shrunk = limits.shrink(ops, prefix, &mut |cand: &[Op]| {
                let (i, _, _) = run_impl(&rt, &pool, cand);
                model.differs(&model_line(&pool, cand), &i).0
            });
            let (si, sbad, _) = run_impl(&rt, &pool, &shrunk);
            let sm = model.ask(&model_line(&pool, &shrunk));
            report.disagreement(json!({
                "correspondence": "WAL model (Model/Wal.v: open/append/rotate/truncate_before/read_entries/persist+load flushed seq, byte level) vs cardinalsin::ingester::WriteAheadLog in a temp directory",
                "case": key, "impl": impl_out, "model": model_out,
                "shrunk": encode_ops(&shrunk), "shrunk_impl": si, "shrunk_model": sm,
                "oracle_failed": !sbad.is_empty() || !bad.is_empty(),
            }));
        }
        if !bad.is_empty() {
            let prefix: Vec<Op> = match failing_op(&bad) {
                Some(at) => ops.iter().take(at + 1).cloned().collect(),
                None => ops.clone(),
            };
            let shrunk = limits.shrink(ops, prefix, &mut |cand: &[Op]| !run_impl(&rt, &pool, cand).1.is_empty());
            let (_, sbad, _) = run_impl(&rt, &pool, &shrunk);
            let what = if sbad.is_empty() { bad.join("; ") } else { sbad.join("; ") };
            let case = if sbad.is_empty() { key.clone() } else { encode_ops(&shrunk) };
            report.oracle_violation("", &what, json!({"case": case, "original": key}));
        }
        if differs || !bad.is_empty() {
            limits.finding(&report);
        }
        limits.case_done(&report);
        // the classifier used by the oracle must not be more generous than op_ok of the model
        if !model.is_null() && !oracle_only && (origin == "corpus" || idx % 7 == 0) {
            let mine = discipline_flags(&rt, &pool, ops);
            let theirs = model.ask(&format!("?{}", line));
            let theirs: Vec<&str> = theirs.split(';').skip(pool.n_model).collect();
            discipline_checked += 1;
            for (i, (m, t)) in mine.iter().zip(theirs.iter()).enumerate() {
                if *m == Some(true) && *t == "0" {
                    report.disagreement(json!({
                        "correspondence": "harness discipline classifier vs op_ok of the model",
                        "case": key, "impl": format!("op {} classified as disciplined", i), "model": theirs.join(";"),
                        "shrunk": key, "oracle_failed": false,
                    }));
                    break;
                }
            }
        }
    }
    // the ingester leg: the real Ingester drives the WAL
    let n_ing = if args.thorough() { 2_000 } else { 150 };
    for k in 0..n_ing {
        if let Some(why) = limits.stop() {
            stopped.get_or_insert(format!("{} ({} of {} random ingester cases run)", why, k, n_ing));
            break;
        }
        let mut r = rng.fork();
        let (max, ops) = ingleg::gen(&mut r, &mut report);
        ingleg::check_case(&rt, &mut model, &mut report, &mut limits, "ingester-random", max, &ops, k == 0);
    }
    if let Some(why) = stopped {
        report.notes.push(format!("run cut short: {}", why));
    }
    report.notes.push(format!("model calls: {}; discipline classifier cross-checked on {} histories", model.calls, discipline_checked));
    report.write(&args.out);
}
