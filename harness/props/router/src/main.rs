//! csv-router — correspondence + oracle for C19 (write routing always
//! terminates on a node that can accept writes).
//!
//! The real `DistributedWriteRouter` (with the `ShardAssignment` and
//! `NodeRegistry` it uses) executes generated membership histories: register,
//! status changes standing for heartbeat loss, heartbeat, drain, load change,
//! remove, rebalance, and `route_write` of shard ids in between, under all three
//! assignment strategies.  A `route_write` that does not come back ends in a
//! stack overflow (SIGABRT) that no `catch_unwind` catches, so every history is
//! executed by a child process (`current_exe() worker`) under a wall-clock
//! watchdog; a dead or silent child is mapped to the outcome `noreturn`.
//!
//! The extracted Coq model (modelrun-router) executes the same history.  What
//! the model cannot know is supplied from the implementation run: the SipHash
//! values of the ring keys / shard ids (computed here exactly as
//! `ConsistentHashRing::hash_key` does) and the iteration order of the
//! registry's `HashMap` observed (through `get_all_nodes`) right before every
//! route / rebalance.
//!
//! Some routes run while "another task" mutates the registry at the
//! `verif_hooks` pause point between `assign_shard` and the node lookup
//! (`RTI`): this is what exercises the retry loop and its bound.
//!
//! Oracle (independent of the model; evaluated on a shadow registry kept by
//! this harness): every route returns within the budget; an `Ok(node)` is
//! healthy, of an ingesting type and below the 95 % load threshold at the
//! moment of its lookup; the routed shard is assigned to exactly the returned node; an
//! assignment only changes by a rebalance or by routing that very shard while
//! its node is not eligible.
use cardinalsin::cluster::{
    AssignmentStrategy, DistributedWriteRouter, NodeInfo, NodeRegistry, NodeStatus, NodeType, ShardAssignment,
};
use csv_common::{ddmin, Args, Model, Report, Rng};
use serde_json::json;
use std::collections::BTreeMap;
use std::hash::{Hash, Hasher};
use std::io::{BufRead, BufReader, Write};
use std::process::{Child, ChildStdin, Command, Stdio};
use std::sync::mpsc::{channel, Receiver, RecvTimeoutError};
use std::sync::Arc;
use std::time::{Duration, Instant};

/// "not overloaded" in the sense of the property: the documented threshold of
/// `NodeInfo::can_accept_writes` (a node at 96 % must not accept writes, one at
/// 75 % must — tests/cluster_tests.rs).  Deliberately NOT read from the code.
const OVERLOAD_AT: u8 = 95;
/// wall-clock budget of one history in a worker (a healthy history takes milliseconds)
const WATCHDOG: Duration = Duration::from_secs(6);
/// ... and while shrinking a history whose route did not return
const SHRINK_WATCHDOG: Duration = Duration::from_secs(3);
/// pause point of the verif_hooks feature inside route_write (between assign_shard and get_node)
/// timeout (seconds) of the NodeRegistry under test: Suspected after 15 s, Failed after 30 s
const HC_TIMEOUT: u64 = 30;
const PAUSE: &str = "cluster.route_write.after_assign";

// ------------------------------------------------------------------ cases ----
#[derive(Clone, Debug, PartialEq)]
enum Op {
    /// register_node with EVERY public field of NodeInfo chosen by the generator: routing may
    /// consult only type / status / load (and the shard count for round robin)
    Reg { n: u32, ty: u8, st: u8, load: u8, cap: u32, shards: Vec<u32>, addr: u8, hb_age: u32 },
    St { n: u32, st: u8 },
    Hb { n: u32 },
    Dr { n: u32 },
    Ld { n: u32, load: u8 },
    Rm { n: u32 },
    /// the node's last heartbeat is moved `age` seconds into the past (get_node + register_node)
    Ag { n: u32, age: u32 },
    /// one sweep of the real NodeRegistry::run_health_checks (registry timeout HC_TIMEOUT seconds)
    Hc,
    Rb,
    Rt { s: u32 },
    /// route_write while "another task" mutates the registry at the pause point between the
    /// assignment and the node lookup: per attempt a list of mutations, used cyclically
    Rti { s: u32, spec: Vec<Vec<RegOp>> },
    Ob,
}

#[derive(Clone, Debug, PartialEq)]
enum RegOp {
    St { n: u32, st: u8 },
    Ld { n: u32, load: u8 },
    Rm { n: u32 },
}

fn spec_text(spec: &[Vec<RegOp>]) -> String {
    spec.iter()
        .map(|att| {
            if att.is_empty() {
                "_".to_string()
            } else {
                att.iter()
                    .map(|o| match o {
                        RegOp::St { n, st } => format!("ST.{}.{}", n, st),
                        RegOp::Ld { n, load } => format!("LD.{}.{}", n, load),
                        RegOp::Rm { n } => format!("RM.{}", n),
                    })
                    .collect::<Vec<_>>()
                    .join("+")
            }
        })
        .collect::<Vec<_>>()
        .join("/")
}

fn parse_spec(t: &str) -> Vec<Vec<RegOp>> {
    t.split('/')
        .map(|att| {
            att.split('+')
                .filter_map(|o| {
                    let f: Vec<&str> = o.split('.').collect();
                    let p = |i: usize| -> u32 { f.get(i).and_then(|x| x.parse().ok()).unwrap_or(0) };
                    match f[0] {
                        "ST" => Some(RegOp::St { n: p(1), st: p(2) as u8 }),
                        "LD" => Some(RegOp::Ld { n: p(1), load: p(2) as u8 }),
                        "RM" => Some(RegOp::Rm { n: p(1) }),
                        _ => None,
                    }
                })
                .collect()
        })
        .collect()
}

#[derive(Clone, Debug, PartialEq)]
struct Case {
    strat: u8, // 0 ConsistentHash, 1 RoundRobin, 2 LoadBased
    salt: u32, // goes into the node / shard names, i.e. into the ring layout
    ops: Vec<Op>,
}

fn op_text(o: &Op) -> String {
    match o {
        Op::Reg { n, ty, st, load, cap, shards, addr, hb_age } => format!(
            "REG {} {} {} {} {} {} {} {}",
            n,
            ty,
            st,
            load,
            cap,
            if shards.is_empty() { "-".to_string() } else { shards.iter().map(|x| x.to_string()).collect::<Vec<_>>().join("+") },
            addr,
            hb_age
        ),
        Op::St { n, st } => format!("ST {} {}", n, st),
        Op::Hb { n } => format!("HB {}", n),
        Op::Dr { n } => format!("DR {}", n),
        Op::Ld { n, load } => format!("LD {} {}", n, load),
        Op::Rm { n } => format!("RM {}", n),
        Op::Ag { n, age } => format!("AG {} {}", n, age),
        Op::Hc => "HC".to_string(),
        Op::Rb => "RB".to_string(),
        Op::Rt { s } => format!("RT {}", s),
        Op::Rti { s, spec } => format!("RTI {} {}", s, spec_text(spec)),
        Op::Ob => "OB".to_string(),
    }
}

fn case_text(c: &Case) -> String {
    let mut v = vec![format!("S {}", c.strat), format!("N {}", c.salt)];
    v.extend(c.ops.iter().map(op_text));
    v.join(";")
}

fn parse_case(line: &str) -> Case {
    let mut c = Case { strat: 0, salt: 0, ops: Vec::new() };
    for t in line.split(';') {
        let f: Vec<&str> = t.trim().split(' ').filter(|x| !x.is_empty()).collect();
        if f.is_empty() {
            continue;
        }
        let p = |i: usize| -> u32 { f.get(i).and_then(|x| x.parse().ok()).unwrap_or(0) };
        match f[0] {
            "S" => c.strat = p(1) as u8,
            "N" => c.salt = p(1),
            "REG" => c.ops.push(Op::Reg {
                n: p(1),
                ty: p(2) as u8,
                st: p(3) as u8,
                load: p(4) as u8,
                cap: if f.len() > 5 { p(5) } else { 100 },
                shards: match f.get(6) {
                    Some(&"-") | None => Vec::new(),
                    Some(x) => x.split('+').filter_map(|y| y.parse().ok()).collect(),
                },
                addr: p(7) as u8,
                hb_age: p(8),
            }),
            "ST" => c.ops.push(Op::St { n: p(1), st: p(2) as u8 }),
            "HB" => c.ops.push(Op::Hb { n: p(1) }),
            "DR" => c.ops.push(Op::Dr { n: p(1) }),
            "LD" => c.ops.push(Op::Ld { n: p(1), load: p(2) as u8 }),
            "RM" => c.ops.push(Op::Rm { n: p(1) }),
            "AG" => c.ops.push(Op::Ag { n: p(1), age: p(2) }),
            "HC" => c.ops.push(Op::Hc),
            "RB" => c.ops.push(Op::Rb),
            "RT" => c.ops.push(Op::Rt { s: p(1) }),
            "RTI" => c.ops.push(Op::Rti { s: p(1), spec: parse_spec(f.get(2).copied().unwrap_or("_")) }),
            "OB" => c.ops.push(Op::Ob),
            _ => {}
        }
    }
    c
}

fn node_name(salt: u32, n: u32) -> String {
    format!("node-{}-{}", salt, n)
}
fn shard_name(salt: u32, s: u32) -> String {
    format!("shard-{}-{}", salt, s)
}
fn id_of(name: &str) -> u32 {
    name.rsplit('-').next().and_then(|x| x.parse().ok()).unwrap_or(999_999)
}

/// `ConsistentHashRing::hash_key`: `DefaultHasher::new()` over the `str`.
fn hash_key(key: &str) -> u64 {
    let mut h = std::collections::hash_map::DefaultHasher::new();
    key.hash(&mut h);
    h.finish()
}

// ---------------------------------------------------------------- worker ----
fn strategy(s: u8) -> AssignmentStrategy {
    match s {
        0 => AssignmentStrategy::ConsistentHash,
        1 => AssignmentStrategy::RoundRobin,
        _ => AssignmentStrategy::LoadBased,
    }
}
fn status(s: u8) -> NodeStatus {
    match s {
        0 => NodeStatus::Healthy,
        1 => NodeStatus::Suspected,
        2 => NodeStatus::Failed,
        _ => NodeStatus::Draining,
    }
}
fn status_code(s: NodeStatus) -> u8 {
    match s {
        NodeStatus::Healthy => 0,
        NodeStatus::Suspected => 1,
        NodeStatus::Failed => 2,
        NodeStatus::Draining => 3,
    }
}
fn ntype(t: u8) -> NodeType {
    match t {
        0 => NodeType::Ingester,
        1 => NodeType::Query,
        _ => NodeType::Combined,
    }
}
fn ntype_code(t: NodeType) -> u8 {
    match t {
        NodeType::Ingester => 0,
        NodeType::Query => 1,
        NodeType::Combined => 2,
    }
}
fn err_code(e: &cardinalsin::Error) -> u8 {
    let m = e.to_string();
    if m.contains("No healthy ingester nodes") {
        1
    } else if m.contains("No healthy node available") {
        2
    } else if m.contains("Failed to assign shard") {
        3
    } else {
        9
    }
}

struct Cluster {
    registry: Arc<NodeRegistry>,
    assignments: Arc<ShardAssignment>,
    router: DistributedWriteRouter,
}

async fn observe(c: &Cluster) -> String {
    let a: BTreeMap<u32, u32> = c.assignments.get_all_assignments().await.iter().map(|(s, n)| (id_of(s), id_of(n))).collect();
    let mut l: BTreeMap<u32, Vec<u32>> = BTreeMap::new();
    for n in c.registry.get_all_nodes().await {
        let mut sh: Vec<u32> = n.shards.iter().map(|s| id_of(s)).collect();
        sh.sort();
        l.insert(id_of(&n.id), sh);
    }
    format!(
        "A={}|L={}",
        a.iter().map(|(s, n)| format!("{}:{}", s, n)).collect::<Vec<_>>().join(","),
        l.iter()
            .map(|(n, sh)| format!("{}:{}", n, sh.iter().map(|x| x.to_string()).collect::<Vec<_>>().join("+")))
            .collect::<Vec<_>>()
            .join(",")
    )
}

async fn order_of(c: &Cluster) -> String {
    let v: Vec<String> = c.registry.get_all_nodes().await.iter().map(|n| id_of(&n.id).to_string()).collect();
    if v.is_empty() {
        "-".to_string()
    } else {
        v.join(",")
    }
}

/// Executes one history on the real code, printing `B <i> <order>` before and
/// `E <i> <result>` after every operation (flushed, so the parent knows where
/// a crash happened), then `DONE`.
fn worker_history(rt: &tokio::runtime::Runtime, case: &Case) {
    let out = std::io::stdout();
    let say = |s: String| {
        let mut o = out.lock();
        let _ = writeln!(o, "{}", s);
        let _ = o.flush();
    };
    let registry = Arc::new(NodeRegistry::new(HC_TIMEOUT));
    let assignments = Arc::new(ShardAssignment::new(registry.clone(), strategy(case.strat)));
    let router = DistributedWriteRouter::new(assignments.clone(), registry.clone());
    let c = Cluster { registry, assignments, router };
    let salt = case.salt;
    for (i, op) in case.ops.iter().enumerate() {
        let order = match op {
            Op::Rb | Op::Rt { .. } | Op::Rti { .. } => rt.block_on(order_of(&c)),
            _ => "-".to_string(),
        };
        say(format!("B {} {}", i, order));
        let res: String = csv_common::catch(std::panic::AssertUnwindSafe(|| rt.block_on(async {
            match op {
                Op::Reg { n, ty, st, load, cap, shards, addr, hb_age } => {
                    let a = match addr % 4 {
                        0 => "127.0.0.1:8000".to_string(),
                        1 => format!("10.0.{}.{}:8081", addr, n),
                        2 => "[::1]:9".to_string(),
                        _ => format!("192.168.1.{}:{}", addr, 1000 + *n),
                    };
                    let mut info = NodeInfo::new(node_name(salt, *n), a.parse().unwrap(), ntype(*ty));
                    info.status = status(*st);
                    info.load_percent = *load;
                    info.capacity = *cap;
                    info.shards = shards.iter().map(|x| shard_name(salt, *x)).collect();
                    if *hb_age > 0 {
                        if let Some(t) = std::time::Instant::now().checked_sub(Duration::from_secs(*hb_age as u64)) {
                            info.last_heartbeat = t;
                        }
                    }
                    c.registry.register_node(info).await;
                    "-".to_string()
                }
                Op::St { n, st } => {
                    // a status change as `run_health_checks` would make it (timing is not modelled):
                    // same node, same shards / load, new status
                    if let Some(mut info) = c.registry.get_node(&node_name(salt, *n)).await {
                        info.status = status(*st);
                        c.registry.register_node(info).await;
                    }
                    "-".to_string()
                }
                Op::Hb { n } => format!("hb:{}", c.registry.heartbeat(&node_name(salt, *n)).await as u8),
                Op::Dr { n } => {
                    c.registry.drain_node(&node_name(salt, *n)).await;
                    "-".to_string()
                }
                Op::Ld { n, load } => {
                    c.registry.update_load(&node_name(salt, *n), *load).await;
                    "-".to_string()
                }
                Op::Rm { n } => {
                    c.registry.remove_node(&node_name(salt, *n)).await;
                    "-".to_string()
                }
                Op::Ag { n, age } => {
                    if let Some(mut info) = c.registry.get_node(&node_name(salt, *n)).await {
                        if let Some(t) = std::time::Instant::now().checked_sub(Duration::from_secs(*age as u64)) {
                            info.last_heartbeat = t;
                            c.registry.register_node(info).await;
                        }
                    }
                    "-".to_string()
                }
                Op::Hc => {
                    // run_health_checks loops for ever on a 5 s tokio interval whose first tick is
                    // immediate: with the tokio clock paused, a 10 ms timeout lets exactly one sweep
                    // happen (the sweep itself compares std::time::Instant, i.e. real heartbeat ages)
                    tokio::time::pause();
                    let _ = tokio::time::timeout(Duration::from_millis(10), c.registry.run_health_checks()).await;
                    tokio::time::resume();
                    "-".to_string()
                }
                Op::Rb => match c.assignments.rebalance().await {
                    Ok(moves) => {
                        let mut m: Vec<(u32, u32, u32)> = moves.iter().map(|(s, o, n)| (id_of(s), id_of(o), id_of(n))).collect();
                        m.sort();
                        format!("moves={}", m.iter().map(|(s, o, n)| format!("{}:{}:{}", s, o, n)).collect::<Vec<_>>().join(","))
                    }
                    Err(e) => format!("err:{}", err_code(&e)),
                },
                Op::Rt { s } => match c.router.route_write(&shard_name(salt, *s)).await {
                    Ok(Some(node)) => format!("ok:{}", id_of(&node.id)),
                    Ok(None) => "ok:none".to_string(),
                    Err(e) => format!("err:{}", err_code(&e)),
                },
                Op::Rti { s, spec } => {
                    // the route future and "the other task" run on this one thread; the other
                    // task acts exactly when route_write sits at its pause point
                    let mut gate = cardinalsin::verif_hooks::register_gate(PAUSE);
                    let shard = shard_name(salt, *s);
                    let route = c.router.route_write(&shard);
                    tokio::pin!(route);
                    let mut k = 0usize;
                    let r = loop {
                        tokio::select! {
                            biased;
                            r = &mut route => break r,
                            Some((_, resume)) = gate.recv() => {
                                if !spec.is_empty() {
                                    for o in &spec[k % spec.len()] {
                                        match o {
                                            RegOp::St { n, st } => {
                                                if let Some(mut info) = c.registry.get_node(&node_name(salt, *n)).await {
                                                    info.status = status(*st);
                                                    c.registry.register_node(info).await;
                                                }
                                            }
                                            RegOp::Ld { n, load } => c.registry.update_load(&node_name(salt, *n), *load).await,
                                            RegOp::Rm { n } => c.registry.remove_node(&node_name(salt, *n)).await,
                                        }
                                    }
                                }
                                k += 1;
                                // the other task's register_node may have rehashed the map: the next
                                // attempt iterates in the order as it is now
                                say(format!("P {} {}", i, order_of(&c).await));
                                let _ = resume.send(());
                            }
                        }
                    };
                    cardinalsin::verif_hooks::clear_gate(PAUSE);
                    let txt = match r {
                        Ok(Some(node)) => format!("ok:{}", id_of(&node.id)),
                        Ok(None) => "ok:none".to_string(),
                        Err(e) => format!("err:{}", err_code(&e)),
                    };
                    format!("{}#{}", txt, k)
                }
                Op::Ob => {
                    let mut r: Vec<(u32, u8, u8, u8)> = c
                        .registry
                        .get_all_nodes()
                        .await
                        .iter()
                        .map(|n| (id_of(&n.id), ntype_code(n.node_type), status_code(n.status), n.load_percent))
                        .collect();
                    r.sort();
                    format!("reg={}", r.iter().map(|(n, t, s, l)| format!("{}:{}:{}:{}", n, t, s, l)).collect::<Vec<_>>().join(","))
                }
            }
        })))
        .unwrap_or_else(|_| "panic".to_string());
        let obs = rt.block_on(observe(&c));
        say(format!("E {} {}|{}", i, res, obs));
    }
    say("DONE".to_string());
}

fn worker_main() {
    std::panic::set_hook(Box::new(|_| {}));
    let rt = tokio::runtime::Builder::new_current_thread().enable_all().build().unwrap();
    let stdin = std::io::stdin();
    for line in stdin.lock().lines() {
        let Ok(line) = line else { break };
        let case = parse_case(&line);
        worker_history(&rt, &case);
    }
}

// ------------------------------------------------------- parent side ----
struct Worker {
    child: Child,
    stdin: ChildStdin,
    rx: Receiver<Option<String>>,
}

impl Worker {
    fn spawn() -> Worker {
        let exe = std::env::current_exe().expect("current_exe");
        let mut child = Command::new(exe)
            .arg("worker")
            .stdin(Stdio::piped())
            .stdout(Stdio::piped())
            .stderr(Stdio::null())
            .spawn()
            .expect("spawn worker");
        let stdin = child.stdin.take().unwrap();
        let stdout = child.stdout.take().unwrap();
        let (tx, rx) = channel();
        std::thread::spawn(move || {
            for l in BufReader::new(stdout).lines() {
                match l {
                    Ok(l) => {
                        if tx.send(Some(l)).is_err() {
                            return;
                        }
                    }
                    Err(_) => break,
                }
            }
            let _ = tx.send(None);
        });
        Worker { child, stdin, rx }
    }
    fn kill(&mut self) {
        let _ = self.child.kill();
        let _ = self.child.wait();
    }
}

/// What the implementation did on one history.
#[derive(Clone, Debug)]
struct ImplRun {
    /// per executed op: result token (`res|A=..|L=..`, or `noreturn`)
    tokens: Vec<String>,
    /// per executed op: registry iteration order observed before it ("-" when not needed); for a
    /// route with interference also the order at every pause point, separated by '|'
    orders: Vec<String>,
    /// "abort" (child died, e.g. stack overflow -> SIGABRT) or "hang" (watchdog)
    died: Option<String>,
    /// per executed op: how many times route_write reached its pause point (RTI only)
    pauses: Vec<usize>,
}

struct Impl {
    w: Option<Worker>,
    runs: u64,
    restarts: u64,
}

impl Impl {
    fn new() -> Impl {
        Impl { w: None, runs: 0, restarts: 0 }
    }
    fn run(&mut self, case: &Case) -> ImplRun {
        self.run_with(case, WATCHDOG)
    }
    fn run_with(&mut self, case: &Case, watchdog: Duration) -> ImplRun {
        self.runs += 1;
        if self.w.is_none() {
            self.w = Some(Worker::spawn());
        }
        let w = self.w.as_mut().unwrap();
        let mut run = ImplRun { tokens: Vec::new(), orders: Vec::new(), died: None, pauses: Vec::new() };
        let sent = writeln!(w.stdin, "{}", case_text(case)).is_ok() && w.stdin.flush().is_ok();
        let deadline = Instant::now() + watchdog;
        let mut open: Option<usize> = None; // op begun, not yet finished
        let mut done = false;
        while sent && !done {
            let left = deadline.saturating_duration_since(Instant::now());
            match w.rx.recv_timeout(left) {
                Ok(Some(l)) => {
                    if l == "DONE" {
                        done = true;
                    } else if let Some(rest) = l.strip_prefix("B ") {
                        let mut it = rest.splitn(2, ' ');
                        let i: usize = it.next().unwrap_or("0").parse().unwrap_or(0);
                        run.orders.push(it.next().unwrap_or("-").to_string());
                        open = Some(i);
                    } else if let Some(rest) = l.strip_prefix("P ") {
                        let mut it = rest.splitn(2, ' ');
                        let _ = it.next();
                        if let Some(last) = run.orders.last_mut() {
                            last.push('|');
                            last.push_str(it.next().unwrap_or("-"));
                        }
                    } else if let Some(rest) = l.strip_prefix("E ") {
                        let mut it = rest.splitn(2, ' ');
                        let _ = it.next();
                        // `res#k|A=..|L=..`: k (pause points reached) is for the oracle only
                        let tok = it.next().unwrap_or("").to_string();
                        let (res, rest) = match tok.find('|') {
                            Some(i) => (tok[..i].to_string(), tok[i..].to_string()),
                            None => (tok.clone(), String::new()),
                        };
                        let (res, k) = match res.find('#') {
                            Some(i) => (res[..i].to_string(), res[i + 1..].parse().unwrap_or(0)),
                            None => (res, 0),
                        };
                        run.pauses.push(k);
                        run.tokens.push(format!("{}{}", res, rest));
                        open = None;
                    }
                }
                Ok(None) | Err(RecvTimeoutError::Disconnected) => {
                    run.died = Some("abort".to_string());
                    break;
                }
                Err(RecvTimeoutError::Timeout) => {
                    run.died = Some("hang".to_string());
                    break;
                }
            }
        }
        if !sent && run.died.is_none() {
            run.died = Some("abort".to_string());
        }
        if run.died.is_some() {
            if open.is_some() {
                run.tokens.push("noreturn".to_string());
            }
            if let Some(mut w) = self.w.take() {
                w.kill();
            }
            self.restarts += 1;
        }
        run
    }
}

impl Drop for Impl {
    fn drop(&mut self) {
        if let Some(mut w) = self.w.take() {
            w.kill();
        }
    }
}

/// The model's input line: strategy, the hash values the history needs, and the
/// executed operations with the observed iteration orders.
fn model_line(case: &Case, run: &ImplRun, vnodes: usize) -> String {
    let n_exec = run.tokens.len().min(case.ops.len());
    let mut nodes: Vec<u32> = Vec::new();
    let mut shards: Vec<u32> = Vec::new();
    for o in &case.ops[..n_exec] {
        match o {
            Op::Reg { n, .. } => {
                if !nodes.contains(n) {
                    nodes.push(*n)
                }
            }
            Op::Rt { s } | Op::Rti { s, .. } => {
                if !shards.contains(s) {
                    shards.push(*s)
                }
            }
            _ => {}
        }
    }
    let mut v = vec![format!("S {}", case.strat)];
    for n in &nodes {
        let name = node_name(case.salt, *n);
        let hs: Vec<String> = (0..vnodes).map(|i| hash_key(&format!("{}:{}", name, i)).to_string()).collect();
        v.push(format!("VH {} {}", n, hs.join(",")));
    }
    for s in &shards {
        v.push(format!("SH {} {}", s, hash_key(&shard_name(case.salt, *s))));
    }
    let mut ages: BTreeMap<u32, u32> = BTreeMap::new(); // seconds since last heartbeat, as set by the history
    for (i, o) in case.ops[..n_exec].iter().enumerate() {
        match o {
            Op::Reg { n, hb_age, .. } => {
                ages.insert(*n, *hb_age);
            }
            Op::Ag { n, age } => {
                if let Some(a) = ages.get_mut(n) {
                    *a = *age
                }
            }
            Op::Hb { n } => {
                if let Some(a) = ages.get_mut(n) {
                    *a = 0
                }
            }
            Op::Rm { n } => {
                ages.remove(n);
            }
            _ => {}
        }
        match o {
            Op::Hc => v.push(format!(
                "HC {} {}",
                HC_TIMEOUT,
                if ages.is_empty() { "-".to_string() } else { ages.iter().map(|(n, a)| format!("{}:{}", n, a)).collect::<Vec<_>>().join(",") }
            )),
            Op::Rb => v.push(format!("RB {}", run.orders.get(i).map(|s| s.as_str()).unwrap_or("-"))),
            Op::Rt { s } => v.push(format!("RT {} {}", s, run.orders.get(i).map(|s| s.as_str()).unwrap_or("-"))),
            Op::Rti { s, spec } => v.push(format!("RTI {} {} {}", s, run.orders.get(i).map(|s| s.as_str()).unwrap_or("-"), spec_text(spec))),
            _ => v.push(op_text(o)),
        }
    }
    v.join(";")
}

// ----------------------------------------------------------------- oracle ----
#[derive(Clone, Copy)]
struct Shadow {
    ty: u8,
    st: u8,
    load: u8,
    /// seconds since the last heartbeat as set by the history (REG / AG / HB)
    age: u32,
}
fn shadow_eligible(reg: &BTreeMap<u32, Shadow>, n: u32) -> bool {
    match reg.get(&n) {
        Some(x) => x.st == 0 && (x.ty == 0 || x.ty == 2) && x.load < OVERLOAD_AT,
        None => false,
    }
}
fn parse_assign(tok: &str) -> Option<BTreeMap<u32, u32>> {
    let a = tok.split('|').find(|p| p.starts_with("A="))?;
    let mut m = BTreeMap::new();
    for kv in a[2..].split(',').filter(|x| !x.is_empty()) {
        let mut it = kv.split(':');
        let s: u32 = it.next()?.parse().ok()?;
        let n: u32 = it.next()?.parse().ok()?;
        m.insert(s, n);
    }
    Some(m)
}

/// The property's own observable predicate, on the implementation run alone.
fn oracle(case: &Case, run: &ImplRun) -> Vec<String> {
    let mut bad = Vec::new();
    let mut reg: BTreeMap<u32, Shadow> = BTreeMap::new();
    let mut prev: BTreeMap<u32, u32> = BTreeMap::new();
    for (i, op) in case.ops.iter().enumerate() {
        let Some(tok) = run.tokens.get(i) else { break };
        if tok == "noreturn" {
            let how = run.died.clone().unwrap_or_default();
            match op {
                Op::Rt { s } | Op::Rti { s, .. } => bad.push(format!(
                    "op {}: route_write(shard {}) did not return ({}: {})",
                    i,
                    s,
                    how,
                    if how == "abort" { "the worker process died: stack overflow / abort, as unbounded recursion ends" } else { "watchdog expired: the call spins or blocks for ever" }
                )),
                _ => bad.push(format!("op {}: {} did not return ({})", i, op_text(op), how)),
            }
            break;
        }
        let res = tok.split('|').next().unwrap_or("");
        let before = reg.clone();
        // shadow registry (semantics of NodeRegistry's public mutators)
        match op {
            Op::Reg { n, ty, st, load, hb_age, .. } => {
                reg.insert(*n, Shadow { ty: *ty, st: *st, load: *load, age: *hb_age });
            }
            Op::St { n, st } => {
                if let Some(x) = reg.get_mut(n) {
                    x.st = *st
                }
            }
            Op::Hb { n } => {
                // a heartbeat revives a Suspected node only; Draining / Failed stay what they are
                if let Some(x) = reg.get_mut(n) {
                    x.age = 0;
                    if x.st == 1 {
                        x.st = 0
                    }
                }
            }
            Op::Ag { n, age } => {
                if let Some(x) = reg.get_mut(n) {
                    x.age = *age
                }
            }
            Op::Hc => {
                // contract of the sweep: Healthy -> Suspected after timeout/2, Healthy|Suspected -> Failed
                // after timeout; a Draining or Failed node is never touched (so never revived later)
                for x in reg.values_mut() {
                    let a = x.age as u64;
                    if a >= HC_TIMEOUT {
                        if x.st == 0 || x.st == 1 {
                            x.st = 2
                        }
                    } else if 2 * a >= HC_TIMEOUT && x.st == 0 {
                        x.st = 1
                    }
                }
            }
            Op::Dr { n } => {
                if let Some(x) = reg.get_mut(n) {
                    x.st = 3
                }
            }
            Op::Ld { n, load } => {
                if let Some(x) = reg.get_mut(n) {
                    x.load = *load
                }
            }
            Op::Rm { n } => {
                reg.remove(n);
            }
            _ => {}
        }
        // registry as it was at the node lookup of every attempt of this route
        let mut during: Vec<BTreeMap<u32, Shadow>> = Vec::new();
        if let Op::Rti { spec, .. } = op {
            let k = run.pauses.get(i).copied().unwrap_or(0);
            for j in 0..k {
                if !spec.is_empty() {
                    for o in &spec[j % spec.len()] {
                        match o {
                            RegOp::St { n, st } => {
                                if let Some(x) = reg.get_mut(n) {
                                    x.st = *st
                                }
                            }
                            RegOp::Ld { n, load } => {
                                if let Some(x) = reg.get_mut(n) {
                                    x.load = *load
                                }
                            }
                            RegOp::Rm { n } => {
                                reg.remove(n);
                            }
                        }
                    }
                }
                during.push(reg.clone());
            }
        }
        if during.is_empty() {
            during.push(before.clone());
        }
        let at_lookup = during.last().unwrap().clone();
        let Some(now) = parse_assign(tok) else {
            bad.push(format!("op {}: unreadable observation {}", i, tok));
            break;
        };
        if res == "panic" {
            bad.push(format!("op {}: {} panicked", i, op_text(op)));
        }
        if let Op::Rt { s } | Op::Rti { s, .. } = op {
            if let Some(nid) = res.strip_prefix("ok:") {
                match nid.parse::<u32>() {
                    Ok(n) => {
                        if !shadow_eligible(&at_lookup, n) {
                            let d = at_lookup.get(&n).map(|x| format!("type {} status {} load {}", x.ty, x.st, x.load)).unwrap_or("not registered".into());
                            bad.push(format!("op {}: route_write(shard {}) returned node {} which cannot accept writes ({})", i, s, n, d));
                        }
                        if now.get(s) != Some(&n) {
                            bad.push(format!("op {}: route_write(shard {}) returned node {} but the shard is assigned to {:?}", i, s, n, now.get(s)));
                        }
                    }
                    Err(_) => bad.push(format!("op {}: route_write(shard {}) returned Ok without a node", i, s)),
                }
            } else if !res.starts_with("err:") {
                bad.push(format!("op {}: unexpected route result {}", i, res));
            }
        }
        // a shard moves only when its node stopped being eligible (and it is routed) or on rebalance
        if !matches!(op, Op::Rb) {
            for (s, n_old) in &prev {
                if now.get(s) != Some(n_old) {
                    let ok = matches!(op, Op::Rt { s: rs } | Op::Rti { s: rs, .. } if rs == s)
                        && (!shadow_eligible(&before, *n_old) || during.iter().any(|r| !shadow_eligible(r, *n_old)));
                    if !ok {
                        bad.push(format!(
                            "op {} ({}): shard {} moved from node {} to {:?} although {}",
                            i,
                            op_text(op),
                            s,
                            n_old,
                            now.get(s),
                            if shadow_eligible(&before, *n_old) { "its node was still eligible" } else { "it was not being routed" }
                        ));
                    }
                }
            }
            for s in now.keys() {
                if !prev.contains_key(s) && !matches!(op, Op::Rt { s: rs } | Op::Rti { s: rs, .. } if rs == s) {
                    bad.push(format!("op {} ({}): shard {} became assigned without being routed", i, op_text(op), s));
                }
            }
        }
        prev = now;
    }
    bad
}

// -------------------------------------------------------------- generator ----
/// heartbeat ages (s) around the 15 s / 30 s marks, 3 s away from them (a history runs in milliseconds)
const HB_AGES: [u32; 6] = [1, 12, 18, 27, 33, 3600];

fn gen_load(rng: &mut Rng) -> u8 {
    match rng.below(10) {
        0 => 94,
        1 => 95,
        2 => 96,
        3 => 100,
        4 => 255,
        5 => 0,
        _ => rng.below(101) as u8,
    }
}

/// capacity far from the default 100 in both directions, pre-populated shard lists, other
/// addresses, old heartbeats: none of these may influence where a write is routed
fn gen_reg(rng: &mut Rng, n: u32, ty: u8, st: u8, load: u8, ns: u32) -> Op {
    let cap = match rng.below(12) {
        0 => 0,
        1 => 1,
        2 => 10,
        3 => 50,
        4 => 99,
        5 => 101,
        6 => 200,
        7 => 400,
        8 => 100_000,
        9 => u32::MAX,
        _ => 100,
    };
    let shards: Vec<u32> = if rng.chance(1, 4) { (0..rng.range_usize(1, 4)).map(|_| rng.below(ns as u64 + 2) as u32).collect() } else { Vec::new() };
    let addr = if rng.chance(1, 3) { rng.below(200) as u8 } else { 0 };
    let hb_age = if rng.chance(1, 5) { *rng.pick(&HB_AGES) } else { 0 };
    Op::Reg { n, ty, st, load, cap, shards, addr, hb_age }
}

fn gen_case(rng: &mut Rng, report: &mut Report) -> Case {
    let strat = rng.below(3) as u8;
    let salt = rng.below(1000) as u32;
    let k = rng.range_usize(1, 5) as u32; // node universe
    let ns = rng.range_usize(1, 8) as u32; // shard universe
    let mut ops = Vec::new();
    let gen_type = |rng: &mut Rng| -> u8 {
        match rng.below(20) {
            0..=11 => 0,
            12..=16 => 2,
            _ => 1,
        }
    };
    // start-up: some registrations, mostly healthy
    for _ in 0..rng.range_usize(1, k as usize) {
        let n = rng.below(k as u64) as u32;
        let st = if rng.chance(1, 8) { rng.below(4) as u8 } else { 0 };
        let load = if rng.chance(1, 4) { gen_load(rng) } else { rng.below(60) as u8 };
        let ty = gen_type(rng);
        ops.push(gen_reg(rng, n, ty, st, load, ns));
    }
    let len = rng.range_usize(4, 26);
    for _ in 0..len {
        let r = rng.below(100);
        let extra = if rng.chance(1, 15) { 1 } else { 0 };
        let n = rng.below(k as u64 + extra) as u32;
        let op = if r < 5 {
            // a route during which another task changes the registry
            let natt = rng.range_usize(1, 3);
            let spec: Vec<Vec<RegOp>> = (0..natt)
                .map(|_| {
                    (0..rng.range_usize(0, 2))
                        .map(|_| {
                            let m = rng.below(k as u64) as u32;
                            match rng.below(10) {
                                0..=4 => RegOp::St { n: m, st: rng.below(4) as u8 },
                                5..=7 => RegOp::Ld { n: m, load: gen_load(rng) },
                                _ => RegOp::Rm { n: m },
                            }
                        })
                        .collect()
                })
                .collect();
            Op::Rti { s: rng.below(ns as u64) as u32, spec }
        } else if r < 38 {
            Op::Rt { s: rng.below(ns as u64) as u32 }
        } else if r < 50 {
            let ty = gen_type(rng);
            let st = if rng.chance(1, 6) { rng.below(4) as u8 } else { 0 };
            let load = if rng.chance(1, 3) { gen_load(rng) } else { rng.below(60) as u8 };
            gen_reg(rng, n, ty, st, load, ns)
        } else if r < 59 {
            Op::St { n, st: rng.below(4) as u8 }
        } else if r < 67 {
            Op::Dr { n }
        } else if r < 77 {
            Op::Ld { n, load: gen_load(rng) }
        } else if r < 83 {
            Op::Rm { n }
        } else if r < 91 {
            Op::Rb
        } else if r < 94 {
            Op::Hb { n }
        } else if r < 96 {
            Op::Ag { n, age: *rng.pick(&HB_AGES) }
        } else if r < 98 {
            Op::Hc
        } else {
            Op::Ob
        };
        ops.push(op);
    }
    // every history ends by routing every shard once more and an observation
    if rng.chance(2, 3) {
        for s in 0..ns {
            ops.push(Op::Rt { s });
        }
    }
    ops.push(Op::Ob);
    for o in &ops {
        report.bump(match o {
            Op::Reg { cap, .. } if *cap != 100 => "op.register.capacity_not_100",
            Op::Reg { .. } => "op.register",
            Op::St { .. } => "op.set_status",
            Op::Hb { .. } => "op.heartbeat",
            Op::Dr { .. } => "op.drain",
            Op::Ld { .. } => "op.load",
            Op::Rm { .. } => "op.remove",
            Op::Ag { .. } => "op.heartbeat_age",
            Op::Hc => "op.health_check_sweep",
            Op::Rb => "op.rebalance",
            Op::Rt { .. } => "op.route",
            Op::Rti { .. } => "op.route_with_interference",
            Op::Ob => "op.observe",
        });
    }
    report.bump(&format!("strategy.{}", ["consistent_hash", "round_robin", "load_based"][strat as usize]));
    Case { strat, salt, ops }
}

fn reg(n: u32) -> Op {
    regc(n, 0, 0, 100)
}
fn regc(n: u32, ty: u8, load: u8, cap: u32) -> Op {
    Op::Reg { n, ty, st: 0, load, cap, shards: Vec::new(), addr: 0, hb_age: 0 }
}

/// Witnesses and proof-derived corner cases that always run first.
fn corpus() -> Vec<(String, Case)> {
    let mut v: Vec<(String, Case)> = Vec::new();
    let routes = |ns: u32| -> Vec<Op> { (0..ns).map(|s| Op::Rt { s }).collect() };
    for strat in 0..3u8 {
        // THE pre-fix witness (DESIGN §6): two ingesters, route shards, drain a node, route again.
        // With consistent hashing the stale ring re-picked the drained node for ever.
        for victim in 0..2u32 {
            let mut ops = vec![reg(0), reg(1)];
            ops.extend(routes(8));
            ops.push(Op::Dr { n: victim });
            ops.extend(routes(8));
            ops.push(Op::Ob);
            v.push((format!("witness.drain.s{}", strat), Case { strat, salt: 0, ops }));
        }
        // same with the node failing / overloaded / removed / re-registered as a query node
        for (name, change) in [
            ("failed", Op::St { n: 0, st: 2 }),
            ("suspected", Op::St { n: 0, st: 1 }),
            ("overload95", Op::Ld { n: 0, load: 95 }),
            ("load94", Op::Ld { n: 0, load: 94 }),
            ("removed", Op::Rm { n: 0 }),
            ("now_query", regc(0, 1, 0, 100)),
        ] {
            let mut ops = vec![reg(0), reg(1), reg(2)];
            ops.extend(routes(8));
            ops.push(change.clone());
            ops.extend(routes(8));
            ops.push(Op::Rb);
            ops.extend(routes(8));
            ops.push(Op::Ob);
            v.push((format!("witness.{}.s{}", name, strat), Case { strat, salt: 1, ops }));
        }
        // every node ineligible: an error, not a loop; recovery afterwards
        let mut ops = vec![reg(0), reg(1)];
        ops.extend(routes(4));
        ops.extend([Op::Dr { n: 0 }, Op::Ld { n: 1, load: 100 }]);
        ops.extend(routes(4));
        ops.extend([Op::Ld { n: 1, load: 10 }]);
        ops.extend(routes(4));
        ops.extend([Op::St { n: 1, st: 1 }, Op::Rt { s: 0 }, Op::Hb { n: 1 }, Op::Rt { s: 0 }, Op::Ob]);
        v.push((format!("all_ineligible.s{}", strat), Case { strat, salt: 2, ops }));
        // node registered after the ring was built; empty cluster; rebalance on an empty cluster
        let mut ops = vec![Op::Rt { s: 0 }, Op::Rb, reg(0)];
        ops.extend(routes(6));
        ops.push(reg(1));
        ops.extend(routes(6));
        ops.push(Op::Rb);
        ops.extend(routes(6));
        ops.extend([Op::Rm { n: 0 }, Op::Rm { n: 1 }, Op::Rb, Op::Rt { s: 0 }, Op::Ob]);
        v.push((format!("late_node.s{}", strat), Case { strat, salt: 3, ops }));
        // ties for round robin / load based: equal shard counts and equal loads
        let mut ops = vec![reg(0), reg(1), reg(2), reg(3)];
        ops.extend(routes(8));
        ops.extend([Op::Ld { n: 2, load: 50 }, Op::Ld { n: 3, load: 50 }, Op::Dr { n: 0 }, Op::Dr { n: 1 }]);
        ops.extend(routes(8));
        ops.push(Op::Ob);
        v.push((format!("ties.s{}", strat), Case { strat, salt: 4, ops }));
    }
    // capacity must not enter eligibility: a big node at 97 % is overloaded, a small node at 50 % is not;
    // pre-populated shard lists only matter for the round-robin count
    for strat in 0..3u8 {
        let mut ops = vec![regc(0, 0, 97, 400), regc(1, 0, 50, 10), regc(2, 2, 94, 1), regc(3, 0, 95, 100_000)];
        ops.extend(routes(8));
        ops.extend([Op::Ld { n: 1, load: 96 }, Op::Ld { n: 2, load: 95 }]);
        ops.extend(routes(8));
        ops.extend([Op::Ld { n: 0, load: 20 }, Op::Rb]);
        ops.extend(routes(8));
        ops.push(Op::Reg { n: 4, ty: 0, st: 0, load: 0, cap: 0, shards: vec![0, 1, 2, 9], addr: 7, hb_age: 3600 });
        ops.extend(routes(8));
        ops.push(Op::Ob);
        v.push((format!("capacity.s{}", strat), Case { strat, salt: 7, ops }));
        // extreme capacities (arithmetic on them must not overflow either)
        let mut ops = vec![regc(0, 0, 95, u32::MAX), regc(1, 0, 94, 0), regc(2, 0, 255, u32::MAX)];
        ops.extend(routes(4));
        ops.push(Op::Ob);
        v.push((format!("capacity_extreme.s{}", strat), Case { strat, salt: 7, ops }));
    }
    // a node the ring does not know joins, then every ring member becomes ineligible / is removed
    for strat in 0..3u8 {
        for (name, kill) in [("drain", vec![Op::Dr { n: 0 }, Op::Dr { n: 1 }]), ("remove", vec![Op::Rm { n: 0 }, Op::Rm { n: 1 }]), ("fail", vec![Op::St { n: 0, st: 2 }, Op::Ld { n: 1, load: 99 }])] {
            let mut ops = vec![reg(0), reg(1)];
            ops.extend(routes(3));
            ops.push(reg(2));
            ops.extend(kill);
            ops.extend(routes(4));
            ops.push(Op::Ob);
            v.push((format!("ring_members_gone.{}.s{}", name, strat), Case { strat, salt: 8, ops }));
        }
    }
    // another task keeps taking away the node that was just assigned and giving back the other
    // one: without the bound on the retry this route never returns
    for strat in 0..3u8 {
        for (a, b) in [(0u32, 1u32), (1, 0)] {
            let adversary = vec![
                vec![RegOp::St { n: a, st: 3 }, RegOp::St { n: b, st: 0 }],
                vec![RegOp::St { n: b, st: 3 }, RegOp::St { n: a, st: 0 }],
            ];
            let mut ops = vec![reg(0), reg(1)];
            for s in 0..4 {
                ops.push(Op::Rti { s, spec: adversary.clone() });
                ops.push(Op::St { n: 0, st: 0 });
                ops.push(Op::St { n: 1, st: 0 });
            }
            // overload instead of drain; removal of the assigned node; nothing at all
            ops.push(Op::Rti { s: 5, spec: vec![vec![RegOp::Ld { n: a, load: 95 }, RegOp::Ld { n: b, load: 94 }], vec![RegOp::Ld { n: b, load: 95 }, RegOp::Ld { n: a, load: 94 }]] });
            ops.push(Op::Rti { s: 6, spec: vec![vec![]] });
            ops.push(Op::Rti { s: 7, spec: vec![vec![RegOp::Rm { n: a }], vec![RegOp::Rm { n: b }]] });
            ops.extend(routes(8));
            ops.push(Op::Ob);
            v.push((format!("interference.s{}", strat), Case { strat, salt: 6, ops }));
        }
    }
    // the real health-check sweep: missed heartbeats of healthy / suspected / draining / failed nodes,
    // a heartbeat afterwards, routing in between.  A drained or failed node must never come back.
    for strat in 0..3u8 {
        for age in [1u32, 12, 18, 27, 33, 3600] {
            // the only node is drained, misses heartbeats, is swept, heartbeats again: still no target
            let mut ops = vec![reg(0), Op::Rt { s: 0 }, Op::Dr { n: 0 }, Op::Ag { n: 0, age }, Op::Hc, Op::Rt { s: 0 }, Op::Hb { n: 0 }, Op::Rt { s: 0 }, Op::Hc, Op::Hb { n: 0 }, Op::Rt { s: 1 }, Op::Ob];
            v.push((format!("health.drained.s{}", strat), Case { strat, salt: 9, ops: ops.clone() }));
            // a healthy node: suspected after 15 s (revived by a heartbeat), failed after 30 s (not revived)
            ops = vec![reg(0), reg(1), Op::Rt { s: 0 }, Op::Rt { s: 1 }, Op::Ag { n: 0, age }, Op::Hc, Op::Rt { s: 0 }, Op::Rt { s: 1 }, Op::Ob, Op::Hb { n: 0 }, Op::Rt { s: 0 }, Op::Rt { s: 2 }, Op::Ag { n: 1, age }, Op::St { n: 1, st: 2 }, Op::Hc, Op::Hb { n: 1 }, Op::Rt { s: 1 }, Op::Ob];
            v.push((format!("health.healthy.s{}", strat), Case { strat, salt: 9, ops }));
        }
    }
    // minimised cases kept as files (one case per line, '#' comments)
    if let Ok(rd) = std::fs::read_dir("corpus/C19") {
        let mut files: Vec<_> = rd.filter_map(|e| e.ok()).map(|e| e.path()).collect();
        files.sort();
        for f in files {
            if let Ok(txt) = std::fs::read_to_string(&f) {
                for (k, l) in txt.lines().enumerate() {
                    let l = l.trim();
                    if l.is_empty() || l.starts_with('#') {
                        continue;
                    }
                    v.push((format!("file.{}.{}", f.file_name().unwrap().to_string_lossy(), k), parse_case(l)));
                }
            }
        }
    }
    v
}

/// non-trivial: some node is registered and some shard is routed after an
/// operation that can change eligibility or the ring
fn nontrivial(c: &Case) -> bool {
    let mut seen_reg = false;
    let mut seen_change = false;
    let mut routed = false;
    for o in &c.ops {
        match o {
            Op::Reg { .. } => seen_reg = true,
            Op::Rt { .. } | Op::Rti { .. } if seen_reg && !routed => routed = true,
            Op::St { .. } | Op::Dr { .. } | Op::Ld { .. } | Op::Rm { .. } | Op::Rb | Op::Hc if routed => seen_change = true,
            Op::Rt { .. } | Op::Rti { .. } if seen_change => return true,
            _ => {}
        }
    }
    false
}

fn main() {
    if std::env::args().nth(1).as_deref() == Some("worker") {
        worker_main();
        return;
    }
    let args = Args::parse();
    csv_common::quiet_panics();
    let mut model = Model::spawn(&args.model);
    let mut imp = Impl::new();
    let mut report = Report::new("C19");

    // constants of the code as the model sees them (regenerated from the Rust sources)
    let mut vnodes = 100usize;
    if !model.is_null() {
        let c = model.ask("consts");
        report.notes.push(format!("model constants: {}", c));
        for kv in c.split(' ') {
            if let Some(x) = kv.strip_prefix("vnodes=") {
                vnodes = x.parse().unwrap_or(100);
            }
        }
    }

    if let Some(path) = &args.replay {
        let txt = std::fs::read_to_string(path).expect("replay file");
        let v: serde_json::Value = serde_json::from_str(&txt).expect("replay json");
        let line = v["case"].as_str().or_else(|| v["shrunk"].as_str()).unwrap_or("").to_string();
        let case = parse_case(&line);
        let run = imp.run(&case);
        let bad = oracle(&case, &run);
        let ml = model_line(&case, &run, vnodes);
        let impl_out = run.tokens.join(";");
        let model_out = model.ask(&ml);
        println!("case : {}\nimpl : {}\nmodel: {}\noracle failures: {:?}", line, impl_out, model_out, bad);
        std::process::exit(if bad.is_empty() && (model.is_null() || impl_out == model_out) { 0 } else { 1 });
    }

    let n_random = if args.thorough() { 30_000 } else { 3_000 };
    // bounds on the work, so that a tree on which routing hangs or crashes still yields a report
    // (with the hang as an oracle violation and a shrunk replay) well inside the check's timeout
    let wall_budget = Duration::from_secs(if args.thorough() { 17 * 60 } else { 8 * 60 });
    const MAX_FAILING: u32 = 10; // stop generating after this many failing histories
    const MAX_SHRUNK: u32 = 3; // only the first few are delta-debugged (the others are only cut at the failing op)
    const SHRINK_RUNS: u32 = 100; // candidate runs per shrink
    const SHRINK_SECS: u64 = 60; // wall time per shrink
    let t0 = Instant::now();
    let mut rng = Rng::new(args.seed);
    let corpus_cases = corpus();
    let n_corpus = corpus_cases.len();
    let mut corpus_iter = corpus_cases.into_iter();
    let mut failing = 0u32;
    let mut shrunk_done = 0u32;
    let mut idx = 0usize;
    loop {
        if idx >= n_corpus + n_random {
            break;
        }
        if failing >= MAX_FAILING {
            report.notes.push(format!("stopped after {} failing histories ({} histories run)", failing, idx));
            break;
        }
        if t0.elapsed() > wall_budget {
            report.notes.push(format!("stopped at the wall budget of {} s ({} histories run)", wall_budget.as_secs(), idx));
            break;
        }
        let (origin, case) = match corpus_iter.next() {
            Some((o, c)) => {
                report.bump(&format!("strategy.{}", ["consistent_hash", "round_robin", "load_based"][c.strat.min(2) as usize]));
                (o, c)
            }
            None => {
                let mut r = rng.fork();
                ("random".to_string(), gen_case(&mut r, &mut report))
            }
        };
        idx += 1;
        if idx % 1000 == 0 {
            report.write(&args.out);
        }
        let text = case_text(&case);
        report.case(if nontrivial(&case) { Some(&text) } else { None });
        report.bump(&format!("origin.{}", origin.split('.').next().unwrap_or("corpus")));
        let run = imp.run(&case);
        report.impl_runs += 1;
        let impl_out = run.tokens.join(";");
        for t in &run.tokens {
            let r = t.split('|').next().unwrap_or("");
            if r.starts_with("ok:") {
                report.bump("route.ok");
            } else if r.starts_with("err:") {
                report.bump(&format!("route_or_rebalance.{}", r.replace(':', "_")));
            } else if r.starts_with("moves=") && r.len() > 6 {
                report.bump("rebalance.moved_something");
            } else if r == "noreturn" {
                report.bump(&format!("route.noreturn.{}", run.died.clone().unwrap_or_default()));
            }
        }
        let ml = model_line(&case, &run, vnodes);
        let (differs, model_out) = model.differs(&ml, &impl_out);
        if case.ops.len() <= 12 && origin == "random" {
            report.sample(json!({"history": text, "impl": impl_out, "model": model_out}));
        }
        let bad = oracle(&case, &run);
        if !differs && bad.is_empty() {
            continue;
        }
        failing += 1;
        // ---- shrink (bounded): first cut the history right after the operation that did not
        // return, then delta-debug with a short watchdog, a cap on candidate runs and on time
        let strat = case.strat;
        let salt = case.salt;
        let hung = run.died.is_some();
        let mut ops = case.ops.clone();
        if hung {
            ops.truncate(run.tokens.len().max(1));
        }
        let watchdog = if hung { SHRINK_WATCHDOG } else { WATCHDOG };
        let by_oracle = !bad.is_empty(); // a failing input is worth more than a disagreement
        if shrunk_done < MAX_SHRUNK {
            shrunk_done += 1;
            let ts = Instant::now();
            let mut runs = 0u32;
            ops = ddmin(&ops, &mut |cand: &[Op]| {
                if runs >= SHRINK_RUNS || ts.elapsed().as_secs() >= SHRINK_SECS || t0.elapsed() > wall_budget + Duration::from_secs(60) {
                    return false;
                }
                runs += 1;
                let c = Case { strat, salt, ops: cand.to_vec() };
                let r = imp.run_with(&c, watchdog);
                if by_oracle {
                    !oracle(&c, &r).is_empty()
                } else {
                    model.differs(&model_line(&c, &r, vnodes), &r.tokens.join(";")).0
                }
            });
            report.bump_by("shrink.candidate_runs", runs as u64);
        }
        let sc = Case { strat, salt, ops };
        let sr = imp.run_with(&sc, watchdog);
        let sbad = oracle(&sc, &sr);
        let sm = model.ask(&model_line(&sc, &sr, vnodes));
        let s_impl = sr.tokens.join(";");
        let s_differs = !model.is_null() && sm != s_impl;
        // if the shrunk history does not fail any more (flaky timing), fall back to the original
        let (rc, rimpl, rmodel, rbad) = if (by_oracle && sbad.is_empty()) || (!by_oracle && !s_differs) {
            (case.clone(), impl_out.clone(), model_out.clone(), bad.clone())
        } else {
            (sc, s_impl, sm, sbad)
        };
        if differs {
            report.disagreement(json!({
                "correspondence": "router model (Model/Router.v: route_write / assign_shard / rebalance) vs DistributedWriteRouter + ShardAssignment + NodeRegistry",
                "case": text, "impl": impl_out, "model": model_out,
                "shrunk": case_text(&rc), "shrunk_impl": rimpl, "shrunk_model": rmodel,
                "oracle_failed": !rbad.is_empty() || !bad.is_empty(),
            }));
        }
        if !bad.is_empty() {
            let what = if rbad.is_empty() { bad.join("; ") } else { rbad.join("; ") };
            report.oracle_violation("", &what, json!({"case": case_text(&rc), "original": text, "impl": rimpl}));
        }
        report.write(&args.out); // incremental: what was found so far survives a kill
    }
    report.notes.push(format!(
        "model calls: {}; implementation histories run in worker processes: {} (worker restarts after a crash/hang: {}); wall {} s",
        model.calls,
        imp.runs,
        imp.restarts,
        t0.elapsed().as_secs()
    ));
    report.write(&args.out);
}
