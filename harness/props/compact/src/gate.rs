//! MetaGate — a `MetadataClient` wrapper that turns every metadata operation
//! of the compaction procedure into a schedulable, faultable request.
//!
//! Before the wrapped operation runs, the wrapper records what is about to be
//! called (operation, arguments) and issues a pseudo request
//! `PUT __gate__/<op>` on its `SchedStore` handle: the harness's controller
//! sees it like any other object-store request of that compactor, and answers
//! Proceed / FailBefore (error returned, inner operation not called) /
//! FailAfter (inner operation performed, error returned all the same).
//! `renew_lease` is called by the renewal tasks, concurrently with the main
//! flow of the same compactor, so every such call gets a pseudo client of its
//! own.
use async_trait::async_trait;
use cardinalsin::ingester::ChunkMetadata;
use cardinalsin::metadata::{
    CompactionJob, CompactionLease, CompactionLeases, CompactionStatus, MetadataClient, SplitState,
    TimeIndexEntry, TimeRange,
};
use cardinalsin::sharding::{ShardMetadata, SplitPhase};
use cardinalsin::{Error, Result};
use csv_common::sched::{Hub, SchedStore};
use object_store::path::Path;
use object_store::{ObjectStore, PutOptions, PutPayload};
use std::sync::atomic::{AtomicBool, AtomicUsize, Ordering};
use std::sync::{Arc, Mutex};

#[derive(Clone, Debug, Default)]
pub struct CallRec {
    pub client: usize,
    pub op: &'static str,
    pub paths: Vec<String>,
    pub target: String,
    pub lease: String,
    pub failed_status: bool,
    /// filled once the call returned: did the inner operation run, and its outcome
    pub done: bool,
    pub inner_ran: bool,
    pub inner_ok: bool,
    pub returned_ok: bool,
    pub lease_out: String,
    pub error: String,
}

#[derive(Default)]
pub struct Shared {
    pub calls: Mutex<Vec<CallRec>>,
    /// renewal calls parked at their gate: (pseudo client, compactor incarnation, lease id)
    pub renew_waiting: Mutex<Vec<(usize, usize, String)>>,
    pub next_pseudo: AtomicUsize,
}

#[derive(Clone, Copy, PartialEq, Eq)]
enum Verdict {
    Proceed,
    Before,
    After,
}

pub struct MetaGate {
    pub inner: Arc<dyn MetadataClient>,
    pub hub: Arc<Hub>,
    pub store: Arc<SchedStore>,
    pub shared: Arc<Shared>,
    pub client: usize,
    pub dead: AtomicBool,
    /// false = raw mode: operations are only recorded; the metadata client's own
    /// object-store requests are what the controller schedules
    pub gated: bool,
    /// raw mode: the client the renewal task uses (its requests carry another client id)
    pub renew_inner: Option<Arc<dyn MetadataClient>>,
}

impl MetaGate {
    pub fn new(inner: Arc<dyn MetadataClient>, hub: Arc<Hub>, client: usize, shared: Arc<Shared>) -> MetaGate {
        let store = hub.client(client);
        MetaGate { inner, hub, store, shared, client, dead: AtomicBool::new(false), gated: true, renew_inner: None }
    }
    pub fn raw(inner: Arc<dyn MetadataClient>, renew_inner: Arc<dyn MetadataClient>, hub: Arc<Hub>, client: usize, shared: Arc<Shared>) -> MetaGate {
        let store = hub.client(client);
        MetaGate { inner, hub, store, shared, client, dead: AtomicBool::new(false), gated: false, renew_inner: Some(renew_inner) }
    }

    fn begin(&self, rec: CallRec) -> usize {
        let mut c = self.shared.calls.lock().unwrap();
        c.push(rec);
        c.len() - 1
    }

    async fn ask(&self, store: &SchedStore, op: &str) -> Verdict {
        let path = Path::from(format!("__gate__/{}", op));
        match store.put_opts(&path, PutPayload::from_static(b"g"), PutOptions::default()).await {
            Ok(_) => Verdict::Proceed,
            Err(e) => {
                let s = e.to_string();
                if s.contains("after effect") {
                    Verdict::After
                } else {
                    Verdict::Before
                }
            }
        }
    }

    fn finish(&self, idx: usize, inner_ran: bool, inner_ok: bool, returned_ok: bool, lease_out: String) {
        let mut c = self.shared.calls.lock().unwrap();
        let r = &mut c[idx];
        r.done = true;
        r.inner_ran = inner_ran;
        r.inner_ok = inner_ok;
        r.returned_ok = returned_ok;
        r.lease_out = lease_out;
    }

    /// gate + run an operation returning `Result<T>`
    async fn gated<T, F, Fut>(&self, rec: CallRec, f: F, lease_of: impl Fn(&T) -> String) -> Result<T>
    where
        F: FnOnce() -> Fut,
        Fut: std::future::Future<Output = Result<T>>,
    {
        let op = rec.op;
        let idx = self.begin(rec);
        if !self.gated {
            let r = f().await;
            let l = r.as_ref().map(|v| lease_of(v)).unwrap_or_default();
            if let Err(e) = &r {
                self.shared.calls.lock().unwrap()[idx].error = e.to_string();
            }
            self.finish(idx, true, r.is_ok(), r.is_ok(), l);
            return r;
        }
        match self.ask(&self.store, op).await {
            Verdict::Before => {
                self.finish(idx, false, false, false, String::new());
                Err(Error::Internal(format!("injected fault before {}", op)))
            }
            Verdict::After => {
                let r = f().await;
                let l = r.as_ref().map(|v| lease_of(v)).unwrap_or_default();
                self.finish(idx, true, r.is_ok(), false, l);
                Err(Error::Internal(format!("injected fault after {}", op)))
            }
            Verdict::Proceed => {
                let r = f().await;
                let l = r.as_ref().map(|v| lease_of(v)).unwrap_or_default();
                self.finish(idx, true, r.is_ok(), r.is_ok(), l);
                r
            }
        }
    }
}

fn rec(client: usize, op: &'static str) -> CallRec {
    CallRec { client, op, ..Default::default() }
}

#[async_trait]
impl MetadataClient for MetaGate {
    async fn register_chunk(&self, path: &str, metadata: &ChunkMetadata) -> Result<()> {
        let mut r = rec(self.client, "register");
        r.target = path.to_string();
        self.gated(r, || self.inner.register_chunk(path, metadata), |_| String::new()).await
    }
    async fn get_chunks(&self, range: TimeRange) -> Result<Vec<TimeIndexEntry>> {
        self.inner.get_chunks(range).await
    }
    async fn get_chunk(&self, path: &str) -> Result<Option<ChunkMetadata>> {
        self.inner.get_chunk(path).await
    }
    async fn delete_chunk(&self, path: &str) -> Result<()> {
        self.inner.delete_chunk(path).await
    }
    async fn list_chunks(&self) -> Result<Vec<TimeIndexEntry>> {
        self.inner.list_chunks().await
    }
    async fn get_l0_candidates(&self, min_count: usize) -> Result<Vec<Vec<String>>> {
        self.gated(rec(self.client, "list"), || self.inner.get_l0_candidates(min_count), |_| String::new()).await
    }
    async fn get_level_candidates(&self, level: usize, target_size: usize) -> Result<Vec<Vec<String>>> {
        self.gated(rec(self.client, "list"), || self.inner.get_level_candidates(level, target_size), |_| String::new())
            .await
    }
    async fn create_compaction_job(&self, job: CompactionJob) -> Result<()> {
        self.gated(rec(self.client, "job"), || self.inner.create_compaction_job(job), |_| String::new()).await
    }
    async fn complete_compaction(&self, source_chunks: &[String], target_chunk: &str) -> Result<()> {
        let mut r = rec(self.client, "complete");
        r.paths = source_chunks.to_vec();
        r.target = target_chunk.to_string();
        self.gated(r, || self.inner.complete_compaction(source_chunks, target_chunk), |_| String::new()).await
    }
    async fn update_compaction_status(&self, job_id: &str, status: CompactionStatus) -> Result<()> {
        let mut r = rec(self.client, "status");
        r.failed_status = status == CompactionStatus::Failed;
        self.gated(r, || self.inner.update_compaction_status(job_id, status), |_| String::new()).await
    }
    async fn get_pending_compaction_jobs(&self) -> Result<Vec<CompactionJob>> {
        self.inner.get_pending_compaction_jobs().await
    }
    async fn cleanup_completed_jobs(&self, max_age_secs: i64) -> Result<usize> {
        self.inner.cleanup_completed_jobs(max_age_secs).await
    }
    async fn start_split(&self, old_shard: &str, new_shards: Vec<String>, split_point: Vec<u8>) -> Result<()> {
        self.inner.start_split(old_shard, new_shards, split_point).await
    }
    async fn get_split_state(&self, shard_id: &str) -> Result<Option<SplitState>> {
        self.inner.get_split_state(shard_id).await
    }
    async fn update_split_progress(&self, shard_id: &str, progress: f64, phase: SplitPhase) -> Result<()> {
        self.inner.update_split_progress(shard_id, progress, phase).await
    }
    async fn complete_split(&self, old_shard: &str) -> Result<()> {
        self.inner.complete_split(old_shard).await
    }
    async fn get_chunks_for_shard(&self, shard_id: &str) -> Result<Vec<TimeIndexEntry>> {
        self.inner.get_chunks_for_shard(shard_id).await
    }
    async fn get_shard_metadata(&self, shard_id: &str) -> Result<Option<ShardMetadata>> {
        self.inner.get_shard_metadata(shard_id).await
    }
    async fn update_shard_metadata(&self, shard_id: &str, metadata: &ShardMetadata, expected_generation: u64) -> Result<()> {
        self.inner.update_shard_metadata(shard_id, metadata, expected_generation).await
    }
    async fn acquire_lease(&self, node_id: &str, chunks: &[String], level: u32) -> Result<CompactionLease> {
        let mut r = rec(self.client, "acquire");
        r.paths = chunks.to_vec();
        self.gated(r, || self.inner.acquire_lease(node_id, chunks, level), |l: &CompactionLease| l.lease_id.clone()).await
    }
    async fn complete_lease(&self, lease_id: &str) -> Result<()> {
        let mut r = rec(self.client, "complete_lease");
        r.lease = lease_id.to_string();
        self.gated(r, || self.inner.complete_lease(lease_id), |_| String::new()).await
    }
    async fn fail_lease(&self, lease_id: &str) -> Result<()> {
        let mut r = rec(self.client, "fail_lease");
        r.lease = lease_id.to_string();
        self.gated(r, || self.inner.fail_lease(lease_id), |_| String::new()).await
    }
    async fn renew_lease(&self, lease_id: &str) -> Result<()> {
        // a renewal task of a crashed incarnation dies with its process
        if self.dead.load(Ordering::SeqCst) {
            return Err(Error::Internal("process gone".into()));
        }
        if let Some(ri) = &self.renew_inner {
            let mut r = rec(16 + self.client, "renew");
            r.lease = lease_id.to_string();
            let idx = self.begin(r);
            let res = ri.renew_lease(lease_id).await;
            self.finish(idx, true, res.is_ok(), res.is_ok(), String::new());
            return res;
        }
        let pseudo = self.shared.next_pseudo.fetch_add(1, Ordering::SeqCst);
        self.shared.renew_waiting.lock().unwrap().push((pseudo, self.client, lease_id.to_string()));
        let store = self.hub.client(pseudo);
        let mut r = rec(pseudo, "renew");
        r.lease = lease_id.to_string();
        let idx = self.begin(r);
        let _ = self.ask(&store, "renew").await;
        if self.dead.load(Ordering::SeqCst) {
            self.finish(idx, false, false, false, String::new());
            self.hub.note(pseudo, "ret".into());
            return Err(Error::Internal("process gone".into()));
        }
        let res = self.inner.renew_lease(lease_id).await;
        self.finish(idx, true, res.is_ok(), res.is_ok(), String::new());
        self.hub.note(pseudo, "ret".into());
        res
    }
    async fn load_leases(&self) -> Result<CompactionLeases> {
        self.inner.load_leases().await
    }
    async fn scavenge_leases(&self) -> Result<usize> {
        self.gated(rec(self.client, "scavenge"), || self.inner.scavenge_leases(), |_| String::new()).await
    }
    async fn has_active_split(&self) -> Result<bool> {
        self.inner.has_active_split().await
    }
}
