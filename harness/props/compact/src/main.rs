//! csv-compact — correspondence + oracle for C03 (compaction never loses or
//! duplicates stored rows).
//!
//! One to two real `Compactor`s run `run_compaction_cycle` over one InMemory
//! object store (each through its own `SchedStore` handle) and one catalog
//! (LocalMetadataClient, or one ObjectStoreMetadataClient per compactor — each
//! with its own catalog cache).  Every metadata operation of the procedure
//! (through `MetaGate`) and every data-object request parks at the controller;
//! the harness decides who moves next, where a fault (before / after effect)
//! lands, where a compactor crashes and is restarted, when leases age
//! (object-store backend: the lease file is shifted into the past) and when
//! the renewal tasks fire.  After every request the catalog (paths, levels),
//! the rows readable through it (object GET + Parquet decode) and the lease
//! table are read back and compared with the extracted Coq model, which is
//! driven by the observed request sequence.  Independently the oracle checks,
//! on the store alone: no initial row ever unreachable; the reachable multiset
//! equals the initial one whenever no compactor is inside a group; a swapped-in
//! target is one level above the highest source it replaced.
mod gate;

use arrow_array::{Float64Array, Int64Array, RecordBatch, TimestampNanosecondArray};
use arrow_schema::{DataType, Field, Schema, TimeUnit};
use bytes::Bytes;
use cardinalsin::compactor::{Compactor, CompactorConfig};
use cardinalsin::ingester::ChunkMetadata;
use cardinalsin::metadata::{
    CompactionLeases, LeaseStatus, LocalMetadataClient, MetadataCatalog, MetadataClient,
    ObjectStoreMetadataClient, ObjectStoreMetadataConfig, TimeRange,
};
use cardinalsin::sharding::{HotShardConfig, ShardMonitor};
use cardinalsin::StorageConfig;
use csv_common::sched::{Action, Controller, Hub};
use csv_common::{Args, Model, Report, Rng};
use gate::{MetaGate, Shared};
use object_store::memory::InMemory;
use object_store::path::Path;
use object_store::ObjectStore;
use parquet::arrow::arrow_reader::ParquetRecordBatchReaderBuilder;
use parquet::arrow::ArrowWriter;
use serde_json::{json, Value};
use std::collections::{BTreeMap, HashMap};
use std::sync::atomic::Ordering;
use std::sync::Arc;
use std::time::Duration;

const H_NS: i64 = 3_600_000_000_000;
const ROWS_PER_HOUR: u64 = 3_600_000_000; // row id r has timestamp T0 + r * 1000 ns
const META_PREFIX: &str = "metadata/";

// ------------------------------------------------------------------ plan --
#[derive(Clone, Debug)]
struct ChunkSpec {
    level: u32,
    rows: Vec<u64>,
    size: u64,
}

#[derive(Clone, Debug)]
struct Plan {
    local: bool,
    threshold: usize,
    l1_target: usize,
    l2_target: usize,
    max_levels: usize,
    grace_secs: u64,
    chunks: Vec<ChunkSpec>,
    ncomp: usize,
    cycles: usize,
    restart_cycles: usize,
    sched_seed: u64,
    /// 0 random interleaving, 1 compactor 0 first as long as it can move, 2 alternate
    policy: u8,
    /// scripted prefix of the schedule: (compactor, number of modelled requests it performs next)
    script: Vec<(usize, usize)>,
    /// fault at the n-th faultable request: (index, 1 before | 2 after)
    fault: Option<(usize, u8)>,
    /// crash the compactor that is about to perform the n-th modelled request
    crash: Option<usize>,
    /// before the n-th modelled request all leases age by d seconds (object-store backend)
    tick: Option<(usize, i64)>,
    /// before the n-th modelled request the renewal tasks fire
    renew: Option<usize>,
    /// after everything ended: this many further rounds of (renewal tasks fire)
    tail_renewals: usize,
    /// object-store backend only: schedule the metadata client's own GET/PUT requests one by one
    /// (CAS loops of the two compactors interleave, conflict and retry) instead of whole operations
    raw: bool,
    /// fault at the n-th complete_compaction request (the swap itself): (n, 1 before | 2 after)
    fault_swap: Option<(usize, u8)>,
    /// row id r carries the timestamp T0 + r microseconds; T0 = this many hours before the current hour
    /// (sparse datasets reach weeks back, always inside the 90-day retention window)
    t0_hours: i64,
}

impl Plan {
    fn to_json(&self) -> Value {
        json!({
            "local": self.local, "threshold": self.threshold, "l1_target": self.l1_target,
            "l2_target": self.l2_target, "max_levels": self.max_levels, "grace_secs": self.grace_secs,
            "chunks": self.chunks.iter().map(|c| json!({"level": c.level, "rows": c.rows, "size": c.size})).collect::<Vec<_>>(),
            "ncomp": self.ncomp, "cycles": self.cycles, "restart_cycles": self.restart_cycles,
            "sched_seed": self.sched_seed, "policy": self.policy,
            "script": self.script.iter().map(|(c, n)| json!([c, n])).collect::<Vec<_>>(),
            "fault": self.fault.map(|(i, k)| json!([i, k])), "crash": self.crash,
            "tick": self.tick.map(|(i, d)| json!([i, d])), "renew": self.renew,
            "tail_renewals": self.tail_renewals, "raw": self.raw,
            "fault_swap": self.fault_swap.map(|(i, k)| json!([i, k])), "t0_hours": self.t0_hours,
        })
    }
    fn from_json(v: &Value) -> Plan {
        let u = |k: &str| v[k].as_u64().unwrap_or(0);
        let pair = |k: &str| v[k].as_array().map(|a| (a[0].as_u64().unwrap_or(0), a[1].as_i64().unwrap_or(0)));
        Plan {
            local: v["local"].as_bool().unwrap_or(true),
            threshold: u("threshold") as usize,
            l1_target: u("l1_target") as usize,
            l2_target: u("l2_target") as usize,
            max_levels: u("max_levels") as usize,
            grace_secs: u("grace_secs"),
            chunks: v["chunks"].as_array().map(|a| a.iter().map(|c| ChunkSpec {
                level: c["level"].as_u64().unwrap_or(0) as u32,
                rows: c["rows"].as_array().map(|r| r.iter().filter_map(|x| x.as_u64()).collect()).unwrap_or_default(),
                size: c["size"].as_u64().unwrap_or(100),
            }).collect()).unwrap_or_default(),
            ncomp: u("ncomp") as usize,
            cycles: u("cycles") as usize,
            restart_cycles: u("restart_cycles") as usize,
            sched_seed: u("sched_seed"),
            policy: u("policy") as u8,
            script: v["script"].as_array().map(|a| a.iter().filter_map(|e| e.as_array().map(|p| (p[0].as_u64().unwrap_or(0) as usize, p[1].as_u64().unwrap_or(0) as usize))).collect()).unwrap_or_default(),
            fault: pair("fault").map(|(i, k)| (i as usize, k as u8)),
            crash: v["crash"].as_u64().map(|x| x as usize),
            tick: pair("tick").map(|(i, d)| (i as usize, d)),
            renew: v["renew"].as_u64().map(|x| x as usize),
            tail_renewals: u("tail_renewals") as usize,
            raw: v["raw"].as_bool().unwrap_or(false),
            fault_swap: pair("fault_swap").map(|(i, k)| (i as usize, k as u8)),
            t0_hours: v["t0_hours"].as_i64().unwrap_or(8),
        }
    }
}

// --------------------------------------------------------------- parquet --
fn t0(hours_back: i64) -> i64 {
    let now = chrono::Utc::now().timestamp_nanos_opt().unwrap();
    (now / H_NS) * H_NS - hours_back.max(8) * H_NS
}

fn make_chunk(rows: &[u64], base: i64) -> (Bytes, i64, i64) {
    let schema = Arc::new(Schema::new(vec![
        Field::new("timestamp", DataType::Timestamp(TimeUnit::Nanosecond, Some("UTC".into())), false),
        Field::new("row_id", DataType::Int64, false),
        Field::new("value_f64", DataType::Float64, true),
    ]));
    let ts: Vec<i64> = rows.iter().map(|r| base + (*r as i64) * 1000).collect();
    let ids: Vec<i64> = rows.iter().map(|r| *r as i64).collect();
    let vals: Vec<f64> = rows.iter().map(|r| *r as f64 * 0.5).collect();
    let mn = ts.iter().copied().min().unwrap_or(base);
    let mx = ts.iter().copied().max().unwrap_or(base);
    let batch = RecordBatch::try_new(
        schema.clone(),
        vec![
            Arc::new(TimestampNanosecondArray::from(ts).with_timezone("UTC")),
            Arc::new(Int64Array::from(ids)),
            Arc::new(Float64Array::from(vals)),
        ],
    )
    .unwrap();
    let mut buf = Vec::new();
    {
        let mut w = ArrowWriter::try_new(&mut buf, schema, None).unwrap();
        w.write(&batch).unwrap();
        w.close().unwrap();
    }
    (Bytes::from(buf), mn, mx)
}

fn decode_rows(data: Bytes) -> Option<Vec<u64>> {
    let reader = ParquetRecordBatchReaderBuilder::try_new(data).ok()?.build().ok()?;
    let mut out = Vec::new();
    for b in reader {
        let b = b.ok()?;
        let col = b.column_by_name("row_id")?;
        let a = col.as_any().downcast_ref::<Int64Array>()?;
        for i in 0..a.len() {
            out.push(a.value(i) as u64);
        }
    }
    Some(out)
}

// ------------------------------------------------------------ observation --
struct Obs {
    /// path -> (level, rows in object order | None when the object is gone)
    cat: BTreeMap<String, (u32, Option<Vec<u64>>)>,
    /// lease id -> (status 0/1/2, live, chunks)
    leases: BTreeMap<String, (u8, bool, Vec<String>)>,
}

impl Obs {
    fn visible(&self) -> Vec<u64> {
        let mut v: Vec<u64> = self.cat.values().filter_map(|(_, r)| r.clone()).flatten().collect();
        v.sort();
        v
    }
}

struct Env {
    hub: Arc<Hub>,
    raw: Arc<InMemory>,
    local: Option<Arc<LocalMetadataClient>>,
    shared: Arc<Shared>,
    paths: HashMap<String, u64>,
    next_path: u64,
    lease_ids: HashMap<String, u64>,
    next_lease: u64,
    /// objects are write-once: decoded rows per path (with the object's length as a guard)
    decoded: std::sync::Mutex<HashMap<String, (usize, Option<Vec<u64>>)>>,
}

fn s3cfg() -> ObjectStoreMetadataConfig {
    ObjectStoreMetadataConfig { bucket: "b".into(), metadata_prefix: META_PREFIX.into(), enable_cache: true, allow_unsafe_overwrite: false }
}

impl Env {
    fn pid(&mut self, p: &str) -> u64 {
        if let Some(i) = self.paths.get(p) {
            return *i;
        }
        let i = self.next_path;
        self.next_path += 1;
        self.paths.insert(p.to_string(), i);
        i
    }
    fn pid_known(&self, p: &str) -> u64 {
        self.paths.get(p).copied().unwrap_or(999_999)
    }
    fn lid(&mut self, l: &str) -> u64 {
        if let Some(i) = self.lease_ids.get(l) {
            return *i;
        }
        let i = self.next_lease;
        self.next_lease += 1;
        self.lease_ids.insert(l.to_string(), i);
        i
    }

    async fn read_leases(&self) -> CompactionLeases {
        if let Some(l) = &self.local {
            l.load_leases().await.unwrap_or_default()
        } else {
            let p = Path::from_iter([META_PREFIX, "compaction-leases.json"]);
            match self.raw.get(&p).await {
                Ok(r) => serde_json::from_slice(&r.bytes().await.unwrap()).unwrap_or_default(),
                Err(_) => CompactionLeases::default(),
            }
        }
    }

    async fn observe(&self) -> Obs {
        let mut cat = BTreeMap::new();
        let mut entries: Vec<(String, u32)> = Vec::new();
        if let Some(l) = &self.local {
            for e in l.list_chunks().await.unwrap_or_default() {
                let lv = l.verif_chunk_level(&e.chunk_path).unwrap_or(9999);
                entries.push((e.chunk_path.clone(), lv));
            }
        } else {
            let p = Path::from_iter([META_PREFIX, "catalog.json"]);
            if let Ok(r) = self.raw.get(&p).await {
                let c: MetadataCatalog = serde_json::from_slice(&r.bytes().await.unwrap()).expect("catalog json");
                for (k, v) in c.chunks.iter() {
                    entries.push((k.clone(), v.level));
                }
            }
        }
        for (path, lv) in entries {
            let rows = match self.raw.get(&Path::from(path.clone())).await {
                Ok(r) => {
                    let b = r.bytes().await.unwrap();
                    let hit = self.decoded.lock().unwrap().get(&path).filter(|(n, _)| *n == b.len()).map(|(_, v)| v.clone());
                    match hit {
                        Some(v) => v,
                        None => {
                            let v = decode_rows(b.clone());
                            self.decoded.lock().unwrap().insert(path.clone(), (b.len(), v.clone()));
                            v
                        }
                    }
                }
                Err(_) => None,
            };
            cat.insert(path, (lv, rows));
        }
        let now = chrono::Utc::now() + cardinalsin::verif_hooks::clock_offset();
        let mut leases = BTreeMap::new();
        for (id, l) in self.read_leases().await.leases.iter() {
            let st = match l.status {
                LeaseStatus::Active => 0u8,
                LeaseStatus::Completed => 1,
                LeaseStatus::Failed => 2,
            };
            leases.insert(id.clone(), (st, st == 0 && l.expires_at > now, l.chunks.clone()));
        }
        Obs { cat, leases }
    }

    fn show(&self, o: &Obs) -> String {
        let mut items: Vec<(u64, String)> = o
            .cat
            .iter()
            .map(|(p, (lv, rows))| {
                let id = self.pid_known(p);
                let r = match rows {
                    Some(v) => v.iter().map(|x| x.to_string()).collect::<Vec<_>>().join("."),
                    None => "-".to_string(),
                };
                (id, format!("{}:{}:{}", id, lv, r))
            })
            .collect();
        items.sort();
        let cat = items.into_iter().map(|x| x.1).collect::<Vec<_>>().join(",");
        let mut ls: Vec<(u64, String)> = o
            .leases
            .iter()
            .map(|(id, (st, live, chunks))| {
                let i = self.lease_ids.get(id).copied().unwrap_or(999_999);
                let mut ch: Vec<u64> = chunks.iter().map(|c| self.pid_known(c)).collect();
                ch.sort();
                (i, format!("{}:{}:{}:{}", i, st, if *live { 1 } else { 0 }, ch.iter().map(|x| x.to_string()).collect::<Vec<_>>().join(".")))
            })
            .collect();
        ls.sort();
        format!("{}@{}", cat, ls.into_iter().map(|x| x.1).collect::<Vec<_>>().join(","))
    }

    /// the clock every node reads moves forward by `secs` (hook at the wall-clock reads of the
    /// lease methods, of GC and of BoundedClock): leases age, pending deletions become due
    async fn age_leases(&self, secs: i64) {
        cardinalsin::verif_hooks::advance_clock_nanos(secs * 1_000_000_000);
    }
}

// ------------------------------------------------------------------- run --
#[derive(Default)]
struct RunOut {
    chunks_line: String,
    labels: Vec<String>,
    tokens: Vec<String>,
    quiescent_end: bool,
    oracle: Vec<String>,
    cycle_results: Vec<String>,
    faultable: usize,
    modelled: usize,
    merges: usize,
    notes: Vec<String>,
    renew_calls_after_end: usize,
    /// levels in the previous catalog version (for: no live path's level ever decreases)
    last_levels: BTreeMap<String, u32>,
    /// target -> 1 + max level of the sources it replaced (over every swap that took effect)
    expected_level: BTreeMap<String, u32>,
}

struct Incarnation {
    comp: usize,   // model compactor id
    client: usize, // SchedStore client id of this incarnation
    gate: Arc<MetaGate>,
    handle: tokio::task::JoinHandle<()>,
    finished: bool,
    in_group: bool,
}

fn spawn_compactor(env: &Env, plan: &Plan, comp: usize, client: usize, cycles: usize) -> Incarnation {
    let inner: Arc<dyn MetadataClient> = match &env.local {
        Some(l) => l.clone(),
        // the metadata client's own requests are not scheduled one by one: a
        // metadata operation is one atomic step of the schedule
        None => Arc::new(ObjectStoreMetadataClient::new(env.hub.client(100 + client), s3cfg())),
    };
    let gate = if plan.raw && env.local.is_none() {
        // raw mode: the metadata client's requests go through the compactor's own scheduled handle
        let inner: Arc<dyn MetadataClient> = Arc::new(ObjectStoreMetadataClient::new(env.hub.client(client), s3cfg()));
        let renew: Arc<dyn MetadataClient> = Arc::new(ObjectStoreMetadataClient::new(env.hub.client(16 + client), s3cfg()));
        Arc::new(MetaGate::raw(inner, renew, env.hub.clone(), client, env.shared.clone()))
    } else {
        Arc::new(MetaGate::new(inner, env.hub.clone(), client, env.shared.clone()))
    };
    let cfg = CompactorConfig {
        l0_merge_threshold: plan.threshold,
        l0_target_size: 1 << 20,
        l1_target_size: plan.l1_target,
        l2_target_size: plan.l2_target,
        max_levels: plan.max_levels,
        retention_days: 90,
        downsample_after_days: 7,
        downsample_resolution: Duration::from_secs(60),
        check_interval: Duration::from_secs(60),
        gc_grace_period: Duration::from_secs(plan.grace_secs),
        sharding_enabled: false,
    };
    let meta: Arc<dyn MetadataClient> = gate.clone();
    let compactor = Compactor::new(
        cfg,
        env.hub.client(client),
        meta,
        StorageConfig::default(),
        Arc::new(ShardMonitor::new(HotShardConfig::default())),
    );
    let hub = env.hub.clone();
    let handle = tokio::spawn(async move {
        for _ in 0..cycles {
            let r = compactor.run_compaction_cycle().await;
            hub.note(client, if r.is_ok() { "cycle:ok".into() } else { "cycle:err".into() });
        }
        hub.note(client, "done".into());
        // keep the compactor (and its renewal tasks' metadata handle) alive
        std::future::pending::<()>().await;
    });
    Incarnation { comp, client, gate, handle, finished: false, in_group: false }
}

fn fault_char(a: Action) -> &'static str {
    match a {
        Action::Proceed => "o",
        Action::FailBefore => "b",
        Action::FailAfter => "a",
    }
}

async fn settle() {
    for _ in 0..20 {
        tokio::task::yield_now().await;
    }
}

/// after a step of `client`: consume its notes until it is parked again or done.
/// Returns true when the first thing it did was to end a cycle with an error.
async fn drain(ctl: &mut Controller, inc: &mut Incarnation, out: &mut RunOut) -> bool {
    let mut first = true;
    let mut cycle_err_first = false;
    loop {
        if inc.finished {
            return cycle_err_first;
        }
        match ctl.wait_for(inc.client).await {
            Some(_) => return cycle_err_first,
            None => match ctl.take_note(inc.client) {
                Some(n) => {
                    if n == "done" {
                        inc.finished = true;
                    } else {
                        if first && n == "cycle:err" {
                            cycle_err_first = true;
                        }
                        inc.in_group = false;
                        out.cycle_results.push(format!("{}:{}", inc.comp, n));
                    }
                    first = false;
                }
                None => return cycle_err_first,
            },
        }
    }
}

async fn run_plan(plan: &Plan) -> RunOut {
    let mut out = RunOut::default();
    cardinalsin::verif_hooks::set_clock_offset_nanos(0);
    let raw = Arc::new(InMemory::new());
    let hub = Hub::new(raw.clone());
    let local = if plan.local { Some(Arc::new(LocalMetadataClient::new())) } else { None };
    let mut env = Env {
        hub: hub.clone(),
        raw: raw.clone(),
        local,
        shared: Arc::new(Shared::default()),
        paths: HashMap::new(),
        next_path: 1,
        lease_ids: HashMap::new(),
        next_lease: 1,
        decoded: std::sync::Mutex::new(HashMap::new()),
    };
    env.shared.next_pseudo.store(32, Ordering::SeqCst);

    // ---- dataset -------------------------------------------------------
    let base = t0(plan.t0_hours);
    let setup: Arc<dyn MetadataClient> = match &env.local {
        Some(l) => l.clone(),
        None => Arc::new(ObjectStoreMetadataClient::new(raw.clone() as Arc<dyn ObjectStore>, s3cfg())),
    };
    let mut chunk_toks = Vec::new();
    let mut row_info: Vec<(u64, i64, i64, i64)> = Vec::new();
    for (i, c) in plan.chunks.iter().enumerate() {
        let path = format!("default/data/chunk_{:03}.parquet", i + 1);
        let id = env.pid(&path);
        let (bytes, mn, mx) = make_chunk(&c.rows, base);
        for r in &c.rows {
            row_info.push((*r, base + (*r as i64) * 1000, mn, mx));
        }
        raw.put(&Path::from(path.clone()), bytes.into()).await.unwrap();
        let meta = ChunkMetadata { path: path.clone(), min_timestamp: mn, max_timestamp: mx, row_count: c.rows.len() as u64, size_bytes: c.size };
        setup.register_chunk(&path, &meta).await.unwrap();
        // levels above 0 are reached the way the code reaches them: through
        // complete_compaction (helper entries climb one level per swap and are
        // swapped out again)
        if c.level >= 1 {
            let mut prev_helper: Vec<String> = Vec::new();
            for lv in 1..c.level {
                let h = format!("default/data/helper_{}_{}.parquet", i + 1, lv);
                let hm = ChunkMetadata { path: h.clone(), min_timestamp: mn, max_timestamp: mx, row_count: 0, size_bytes: 1 };
                setup.register_chunk(&h, &hm).await.unwrap();
                setup.complete_compaction(&prev_helper, &h).await.unwrap();
                prev_helper = vec![h];
            }
            setup.complete_compaction(&prev_helper, &path).await.unwrap();
        }
        chunk_toks.push(format!("{}:{}:{}", id, c.level, c.rows.iter().map(|r| r.to_string()).collect::<Vec<_>>().join(",")));
    }
    out.chunks_line = chunk_toks.join(";");
    let mut initial: Vec<u64> = plan.chunks.iter().flat_map(|c| c.rows.clone()).collect();
    initial.sort();

    let obs0 = env.observe().await;
    for (i, c) in plan.chunks.iter().enumerate() {
        let path = format!("default/data/chunk_{:03}.parquet", i + 1);
        match obs0.cat.get(&path) {
            Some((lv, Some(rows))) if *lv == c.level && *rows == c.rows => {}
            other => out.notes.push(format!("dataset setup mismatch for chunk {}: {:?}", i + 1, other)),
        }
    }
    if obs0.cat.len() != plan.chunks.len() {
        out.notes.push(format!("dataset setup left {} catalog entries for {} chunks", obs0.cat.len(), plan.chunks.len()));
    }

    // ---- compactors ----------------------------------------------------
    let all: Vec<usize> = (0..64).collect();
    let mut ctl = hub.attach(&all);
    let mut incs: Vec<Incarnation> = Vec::new();
    for k in 0..plan.ncomp {
        incs.push(spawn_compactor(&env, plan, k, k, plan.cycles));
    }
    let mut next_client = plan.ncomp;
    let mut rng = Rng::new(plan.sched_seed);
    let mut prev = obs0;
    let mut modelled = 0usize;
    let mut faultable = 0usize;
    let mut turn = 0usize;
    let mut tick_done = false;
    let mut renew_done = false;
    let mut crash_done = false;
    let mut guard = 0usize;
    let mut script: Vec<(usize, usize)> = plan.script.clone();
    let mut op_fault: HashMap<usize, char> = HashMap::new();
    let mut swaps_seen = 0usize;
    let mut processed: HashMap<usize, usize> = HashMap::new();

    for inc in incs.iter_mut() {
        drain(&mut ctl, inc, &mut out).await;
    }

    loop {
        guard += 1;
        if guard > 4000 {
            out.notes.push("step budget exhausted".into());
            break;
        }
        let ready: Vec<usize> = (0..incs.len()).filter(|i| !incs[*i].finished && ctl.has_pending(incs[*i].client)).collect();
        if ready.is_empty() {
            break;
        }
        // scripted prefix: (compactor, modelled requests still to perform)
        while let Some((c, n)) = script.first().copied() {
            let alive = incs.iter().any(|i| i.comp == c && !i.finished);
            if n == 0 || !alive {
                script.remove(0);
            } else {
                break;
            }
        }
        let scripted = script.first().and_then(|(c, _)| ready.iter().copied().find(|i| incs[*i].comp == *c));
        let pick = match scripted {
            Some(i) => i,
            None => match plan.policy {
                1 => ready[0],
                2 => {
                    turn += 1;
                    ready[turn % ready.len()]
                }
                _ => ready[rng.below(ready.len() as u64) as usize],
            },
        };
        let client = incs[pick].client;
        let comp = incs[pick].comp;
        let req = ctl.peek(client).unwrap().clone();

        // classify the parked request
        let rec = {
            let calls = env.shared.calls.lock().unwrap();
            calls.iter().rev().find(|r| r.client == client && !r.done).cloned()
        };
        let is_gate = req.path.starts_with("__gate__/");
        let data_path = req.path.ends_with(".parquet");
        // (label prefix, kind, faultable)
        let (mut label, kind, can_fault): (Option<String>, u64, bool) = if is_gate {
            let r = rec.clone().expect("gate without call record");
            match r.op {
                "list" => (Some(format!("l {}", comp)), 1, false),
                "acquire" => (Some(format!("s {} ", comp)), 2, true),
                "job" => (Some(format!("x {} ", comp)), 3, true),
                "register" => (Some(format!("x {} ", comp)), 6, true),
                "complete" => (Some(format!("x {} ", comp)), 7, true),
                "status" => (Some(format!("x {} ", comp)), if r.failed_status { 10 } else { 8 }, true),
                "complete_lease" => (Some(format!("x {} ", comp)), 9, true),
                "fail_lease" => (Some(format!("x {} ", comp)), 11, true),
                "scavenge" => (Some(format!("v {}", comp)), 14, false),
                _ => (None, 0, false),
            }
        } else if data_path && req.verb == "GET" {
            (Some(format!("x {} ", comp)), 4, true)
        } else if data_path && req.verb == "PUT" {
            (Some(format!("x {} ", comp)), 5, true)
        } else if data_path && req.verb == "DELETE" {
            (Some(format!("d {} ", comp)), 13, true)
        } else {
            (None, 0, false)
        };
        // raw mode: one GET/PUT of a metadata operation's CAS loop
        let meta_sub = plan.raw && req.path.starts_with("metadata");
        let can_fault = can_fault || meta_sub;
        let positional = label.is_some() || meta_sub;

        // scheduled events that come before this modelled request
        if positional {
            if let Some((at, d)) = plan.tick {
                // a metadata operation reads the clock right after its GET: a tick between that GET and
                // the conditional PUT is the same as a tick right after the operation, so in request-level
                // mode the tick waits until no compactor is parked at a metadata PUT
                let safe = !plan.raw
                    || incs.iter().all(|i| {
                        i.finished || ctl.peek(i.client).map(|r| !(r.verb == "PUT" && r.path.starts_with("metadata"))).unwrap_or(true)
                    });
                if !tick_done && modelled >= at && safe {
                    tick_done = true;
                    env.age_leases(d).await;
                    let o = env.observe().await;
                    out.labels.push(format!("t {}", d));
                    out.tokens.push(format!("16:0:0@{}", env.show(&o)));
                    check_levels(&o, &mut out, "after a clock tick");
                    prev = o;
                }
            }
            if let Some(at) = plan.renew {
                if !renew_done && at == modelled {
                    renew_done = true;
                    renewal_round(&mut env, &mut ctl, &incs, &mut out, &mut prev).await;
                }
            }
            if let Some(at) = plan.crash {
                if !crash_done && at == modelled {
                    crash_done = true;
                    // the process dies: its task, its volatile state and its renewal tasks
                    incs[pick].gate.dead.store(true, Ordering::SeqCst);
                    incs[pick].handle.abort();
                    incs[pick].finished = true;
                    incs[pick].in_group = false;
                    settle().await;
                    let o = env.observe().await;
                    out.labels.push(format!("k {}", comp));
                    out.tokens.push(format!("15:0:0@{}", env.show(&o)));
                    check_oracle(&initial, &o, !incs.iter().any(|i| i.in_group), &mut out, "after crash");
                    prev = o;
                    if plan.restart_cycles > 0 {
                        let mut ni = spawn_compactor(&env, plan, comp, next_client, plan.restart_cycles);
                        next_client += 1;
                        drain(&mut ctl, &mut ni, &mut out).await;
                        incs.push(ni);
                    }
                    continue;
                }
            }
        }

        let mut action = Action::Proceed;
        // the swap request itself: the complete_compaction operation, or (request-level mode) its conditional PUT
        let is_swap_req = (is_gate && kind == 7)
            || (meta_sub && req.verb == "PUT" && rec.as_ref().map(|r| r.op == "complete").unwrap_or(false));
        if is_swap_req {
            if let Some((n, k)) = plan.fault_swap {
                if n == swaps_seen {
                    action = if k == 1 { Action::FailBefore } else { Action::FailAfter };
                }
            }
            swaps_seen += 1;
        }
        if can_fault {
            if let Some((at, k)) = plan.fault {
                if at == faultable {
                    action = if k == 1 { Action::FailBefore } else { Action::FailAfter };
                }
            }
            faultable += 1;
        }
        if positional {
            modelled += 1;
            if let Some((c, n)) = script.first_mut() {
                if *c == comp && *n > 0 {
                    *n -= 1;
                }
            }
        }

        // arguments known before the step
        let mut arg: u64 = 0;
        match kind {
            2 => {
                let r = rec.as_ref().unwrap();
                let g: Vec<String> = r.paths.iter().map(|p| env.pid_known(p).to_string()).collect();
                label = Some(format!("s {} {} {}", comp, fault_char(action), g.join(",")));
            }
            4 | 5 => {
                arg = env.pid(&req.path);
                label = Some(format!("x {} {}", comp, fault_char(action)));
            }
            6 | 7 => {
                arg = env.pid_known(&rec.as_ref().unwrap().target);
                label = Some(format!("x {} {}", comp, fault_char(action)));
            }
            9 | 11 => {
                arg = env.lease_ids.get(&rec.as_ref().unwrap().lease).copied().unwrap_or(999_999);
                label = Some(format!("x {} {}", comp, fault_char(action)));
            }
            3 | 8 | 10 => label = Some(format!("x {} {}", comp, fault_char(action))),
            13 => {
                arg = env.pid_known(&req.path);
                label = Some(format!("d {} {} {}", comp, arg, fault_char(action)));
            }
            _ => {}
        }

        let levels_before: BTreeMap<String, u32> = prev.cat.iter().map(|(p, (l, _))| (p.clone(), *l)).collect();
        let log_before = hub.log.lock().unwrap().len();
        ctl.step(client, action).await;
        let cycles_before = out.cycle_results.len();
        let cycle_err = drain(&mut ctl, &mut incs[pick], &mut out).await;
        if out.cycle_results.len() > cycles_before {
            let at = format!("after cycle {}", out.cycle_results.len());
            range_oracle(&env, &row_info, &mut out, &at).await;
        }

        if meta_sub && action != Action::Proceed && rec.is_some() {
            // which kind of fault the running metadata operation suffered
            let took_effect = {
                let log = hub.log.lock().unwrap();
                log[log_before..].iter().any(|e| e.info.client == client && e.info.path == req.path && e.info.verb == "PUT" && e.ok)
            };
            op_fault.insert(client, if action == Action::FailAfter && took_effect { 'a' } else { 'b' });
        }
        if plan.raw {
            // metadata operations that completed during this step, in completion order
            let finished: Vec<gate::CallRec> = {
                let calls = env.shared.calls.lock().unwrap();
                let mine: Vec<&gate::CallRec> = calls.iter().filter(|r| r.client == client).collect();
                let from = *processed.get(&client).unwrap_or(&0);
                let mut v = Vec::new();
                for r in mine.iter().skip(from) {
                    if !r.done {
                        break;
                    }
                    v.push((*r).clone());
                }
                v
            };
            *processed.entry(client).or_insert(0) += finished.len();
            for r in finished {
                let f = if r.returned_ok {
                    op_fault.remove(&client);
                    'o'
                } else if let Some(c) = op_fault.remove(&client) {
                    c
                } else if r.error.contains("retries") {
                    'b'
                } else {
                    'o'
                };
                let effect = r.returned_ok || f == 'a';
                let status = if r.returned_ok { 0 } else if cycle_err { 1 } else { 2 };
                let mut arg: u64 = 0;
                let (lab, kind): (Option<String>, u64) = match r.op {
                    "list" => (if r.returned_ok { Some(format!("l {}", comp)) } else { None }, 1),
                    "scavenge" => (if effect { Some(format!("v {}", comp)) } else { None }, 14),
                    "acquire" => {
                        let g: Vec<String> = r.paths.iter().map(|p| env.pid_known(p).to_string()).collect();
                        if r.returned_ok {
                            arg = env.lid(&r.lease_out);
                            incs[pick].in_group = true;
                        } else if f == 'a' {
                            // the lease was stored although the caller saw an error
                            let ls = env.read_leases().await;
                            let fresh: Vec<String> = ls.leases.keys().filter(|k| !env.lease_ids.contains_key(*k)).cloned().collect();
                            if let Some(k) = fresh.first() {
                                arg = env.lid(k);
                            }
                        }
                        (Some(format!("s {} {} {}", comp, f, g.join(","))), 2)
                    }
                    "job" => (Some(format!("x {} {}", comp, f)), 3),
                    "register" => {
                        arg = env.pid_known(&r.target);
                        (Some(format!("x {} {}", comp, f)), 6)
                    }
                    "complete" => {
                        arg = env.pid_known(&r.target);
                        if effect {
                            out.merges += 1;
                        }
                        (Some(format!("x {} {}", comp, f)), 7)
                    }
                    "status" => (Some(format!("x {} {}", comp, f)), if r.failed_status { 10 } else { 8 }),
                    "complete_lease" => {
                        arg = env.lease_ids.get(&r.lease).copied().unwrap_or(999_999);
                        incs[pick].in_group = false;
                        (Some(format!("x {} {}", comp, f)), 9)
                    }
                    "fail_lease" => {
                        arg = env.lease_ids.get(&r.lease).copied().unwrap_or(999_999);
                        incs[pick].in_group = false;
                        (Some(format!("x {} {}", comp, f)), 11)
                    }
                    _ => (None, 0),
                };
                let Some(lab) = lab else { continue };
                let o = env.observe().await;
                out.labels.push(lab);
                let st = if kind == 1 || kind == 14 { 0 } else { status };
                out.tokens.push(format!("{}:{}:{}@{}", kind, arg, st, env.show(&o)));
                let quiescent = !incs.iter().any(|i| i.in_group);
                let at = format!("after request {}", out.labels.len());
                check_oracle(&initial, &o, quiescent, &mut out, &at);
                if kind == 7 && effect {
                    let want = r.paths.iter().filter_map(|p| levels_before.get(p)).max().copied().unwrap_or(0) + 1;
                    let got = o.cat.get(&r.target).map(|x| x.0);
                    if got != Some(want) {
                        out.oracle.push(format!("LEVEL: target swapped in at level {:?}, 1 + the highest source level is {}", got, want));
                    }
                    let e = out.expected_level.entry(r.target.clone()).or_insert(0);
                    *e = (*e).max(want);
                }
                prev = o;
            }
        }
        let Some(label) = label else { continue };
        // outcome of the request
        let rec_after = {
            let calls = env.shared.calls.lock().unwrap();
            calls.iter().rev().find(|r| r.client == client && r.done && Some(r.op) == rec.as_ref().map(|x| x.op)).cloned()
        };
        let returned_ok = if is_gate {
            rec_after.as_ref().map(|r| r.returned_ok).unwrap_or(false)
        } else {
            let log = hub.log.lock().unwrap();
            let e = log[log_before..].iter().find(|e| e.info.client == client && e.info.path == req.path);
            action == Action::Proceed && e.map(|e| e.ok).unwrap_or(false)
        };
        let status = if returned_ok {
            0
        } else if kind == 13 {
            // a failed GC delete is logged and forgotten
            if action == Action::FailAfter { 0 } else { 2 }
        } else if cycle_err {
            1
        } else {
            2
        };
        if kind == 2 {
            if let Some(r) = &rec_after {
                if r.inner_ok && !r.lease_out.is_empty() {
                    arg = env.lid(&r.lease_out);
                    if r.returned_ok {
                        incs[pick].in_group = true;
                    }
                }
            }
        }
        if kind == 9 || kind == 11 {
            incs[pick].in_group = false;
        }
        if kind == 7 && rec_after.as_ref().map(|r| r.inner_ok).unwrap_or(false) {
            out.merges += 1;
        }
        let o = env.observe().await;
        out.labels.push(label);
        out.tokens.push(format!("{}:{}:{}@{}", kind, arg, status, env.show(&o)));

        // ---- oracle ----
        let quiescent = !incs.iter().any(|i| i.in_group);
        let at = format!("after request {}", out.labels.len());
        check_oracle(&initial, &o, quiescent, &mut out, &at);
        if kind == 7 {
            if let Some(r) = &rec_after {
                if r.inner_ok {
                    let want = r.paths.iter().filter_map(|p| levels_before.get(p)).max().copied().unwrap_or(0) + 1;
                    let got = o.cat.get(&r.target).map(|x| x.0);
                    if got != Some(want) {
                        out.oracle.push(format!(
                            "LEVEL: target swapped in at level {:?}, sources {:?} had maximum level {}",
                            got,
                            r.paths.iter().map(|p| levels_before.get(p).copied()).collect::<Vec<_>>(),
                            want - 1
                        ));
                    }
                    let e = out.expected_level.entry(r.target.clone()).or_insert(0);
                    *e = (*e).max(want);
                }
            }
        }
        prev = o;
    }

    out.quiescent_end = !incs.iter().any(|i| i.in_group);
    // the final catalog of every scenario goes through the whole oracle once more
    {
        let o = env.observe().await;
        let q = out.quiescent_end;
        check_oracle(&initial, &o, q, &mut out, "final catalog");
        prev = o;
        range_oracle(&env, &row_info, &mut out, "final catalog").await;
    }
    // K4 probe: do renewal tasks outlive the cycles they were started in?
    for _ in 0..plan.tail_renewals {
        let before = env.shared.calls.lock().unwrap().iter().filter(|r| r.op == "renew").count();
        renewal_round(&mut env, &mut ctl, &incs, &mut out, &mut prev).await;
        let after = env.shared.calls.lock().unwrap().iter().filter(|r| r.op == "renew").count();
        out.renew_calls_after_end += after - before;
    }
    if out.renew_calls_after_end > 0 {
        // every group has ended (regularly, with an error, or by a crash): no renewal task may be left
        out.oracle.push(format!(
            "LEAK: {} lease renewal call(s) after every compaction cycle had ended: a renewal task outlived its group",
            out.renew_calls_after_end
        ));
    }
    for i in incs.iter() {
        i.gate.dead.store(true, Ordering::SeqCst);
        i.handle.abort();
    }
    out.faultable = faultable;
    out.modelled = modelled;
    out
}

/// the renewal period elapses: every running renewal task calls renew_lease
async fn renewal_round(env: &mut Env, ctl: &mut Controller, incs: &[Incarnation], out: &mut RunOut, prev: &mut Obs) {
    tokio::time::advance(Duration::from_secs(121)).await;
    settle().await;
    let waiting: Vec<(usize, usize, String)> = std::mem::take(&mut *env.shared.renew_waiting.lock().unwrap());
    for (pseudo, client, lease) in waiting {
        let comp = incs.iter().find(|i| i.client == client).map(|i| i.comp).unwrap_or(99);
        ctl.step(pseudo, Action::Proceed).await;
        let _ = ctl.take_note(pseudo);
        let ok = {
            let calls = env.shared.calls.lock().unwrap();
            calls.iter().rev().find(|r| r.client == pseudo).map(|r| r.returned_ok).unwrap_or(false)
        };
        let lid = env.lease_ids.get(&lease).copied().unwrap_or(999_999);
        let o = env.observe().await;
        out.labels.push(format!("r {} {}", comp, lid));
        out.tokens.push(format!("12:{}:{}@{}", lid, if ok { 0 } else { 2 }, env.show(&o)));
        check_levels(&o, out, "after a lease renewal");
        *prev = o;
    }
}

/// second reachability oracle: what a query does — `get_chunks(TimeRange)` through a fresh reader — must
/// lead to every initial row, for a narrow window around the row's own timestamp and for the window of
/// the chunk it originally lived in
async fn range_oracle(env: &Env, rows: &[(u64, i64, i64, i64)], out: &mut RunOut, at: &str) {
    let o = env.observe().await;
    let reader: Arc<dyn MetadataClient> = match &env.local {
        Some(l) => l.clone(),
        None => Arc::new(ObjectStoreMetadataClient::new(env.raw.clone() as Arc<dyn ObjectStore>, s3cfg())),
    };
    let mut memo: HashMap<(i64, i64), Option<Vec<String>>> = HashMap::new();
    for (r, ts, mn, mx) in rows {
        for (a, b, what) in [(*ts - 1000, *ts + 1000, "a narrow window around its timestamp"), (*mn, *mx, "the time range of its original chunk")] {
            if !memo.contains_key(&(a, b)) {
                let v = reader.get_chunks(TimeRange::new(a, b)).await.ok().map(|es| es.into_iter().map(|e| e.chunk_path).collect());
                memo.insert((a, b), v);
            }
            let Some(paths) = memo.get(&(a, b)).unwrap() else {
                out.oracle.push(format!("UNQUERYABLE: get_chunks fails for {} of row {} ({})", what, r, at));
                return;
            };
            let found = paths.iter().any(|p| o.cat.get(p).and_then(|(_, rows)| rows.as_ref()).map(|v| v.contains(r)).unwrap_or(false));
            if !found {
                out.oracle.push(format!(
                    "UNQUERYABLE: row {} is not reachable through get_chunks for {} although it was before compaction ({}; {} chunks returned)",
                    r, what, at, paths.len()
                ));
                return;
            }
        }
    }
}

fn check_oracle(initial: &[u64], o: &Obs, quiescent: bool, out: &mut RunOut, at: &str) {
    let vis = o.visible();
    for r in initial {
        if vis.binary_search(r).is_err() {
            out.oracle.push(format!("LOST: row {} is no longer reachable through the catalog ({})", r, at));
            return;
        }
    }
    if quiescent && vis != initial {
        out.oracle.push(format!(
            "DUP: no compaction in progress and the reachable rows differ from the initial ones ({} rows reachable, {} initially; {})",
            vis.len(),
            initial.len(),
            at
        ));
    }
    check_levels(o, out, at);
}

/// level oracle on every catalog version: a published target sits at 1 + the
/// highest level of the sources it replaced for as long as it is catalogued,
/// and no live path's level ever decreases from one catalog version to the next
fn check_levels(o: &Obs, out: &mut RunOut, at: &str) {
    for (p, (lv, _)) in o.cat.iter() {
        if let Some(old) = out.last_levels.get(p) {
            if lv < old {
                out.oracle.push(format!("LEVEL: the level of a catalogued chunk went down from {} to {} ({})", old, lv, at));
            }
        }
        if let Some(want) = out.expected_level.get(p) {
            if lv != want {
                out.oracle.push(format!(
                    "LEVEL: a published target is at level {} but 1 + the highest level of the sources it replaced is {} ({})",
                    lv, want, at
                ));
            }
        }
    }
    out.last_levels = o.cat.iter().map(|(p, (l, _))| (p.clone(), *l)).collect();
}

// --------------------------------------------------------------- driver --
fn class_name(n: &str) -> &'static str {
    match n {
        "1" => "register-swap-gap",
        "2" => "stale-candidates",
        "3" => "lease-lost",
        "5" => "unswapped-target-compacted",
        _ => "",
    }
}

struct Verdict {
    impl_line: String,
    model_line: String,
    differs: bool,
    class: String,
    out: RunOut,
}

fn run_case(plan: &Plan, model: &mut Model) -> Verdict {
    let rt = tokio::runtime::Builder::new_current_thread().enable_all().start_paused(true).build().unwrap();
    let out = rt.block_on(run_plan(plan));
    drop(rt);
    let line = format!("{}|{}|{}", if plan.local { "L" } else { "S" }, out.chunks_line, out.labels.join(";"));
    let impl_line = format!("{}#q={}", out.tokens.join(";"), if out.quiescent_end { 1 } else { 0 });
    let m = model.ask(&line);
    let (mtoks, mtail) = match m.split_once('#') {
        Some((a, b)) => (a.to_string(), b.to_string()),
        None => (m.clone(), String::new()),
    };
    let class = mtail.split(';').find_map(|t| t.strip_prefix("class=")).unwrap_or("0").to_string();
    let mq = mtail.split(';').find_map(|t| t.strip_prefix("q=")).unwrap_or("?").to_string();
    let model_line = format!("{}#q={}", mtoks, mq);
    let differs = !model.is_null() && model_line != impl_line;
    Verdict { impl_line, model_line, differs, class, out }
}

fn gen_plan(rng: &mut Rng, thorough: bool) -> Plan {
    let local = rng.chance(1, 2);
    let n = rng.range_usize(2, if thorough { 12 } else { 8 });
    let mut next_row = 1u64;
    let mut chunks = Vec::new();
    let hours = rng.range_usize(1, 3) as u64;
    for _ in 0..n {
        let level = match rng.below(10) {
            0..=5 => 0,
            6..=8 => 1,
            _ => 2,
        };
        let hour = rng.below(hours);
        let k = rng.range_usize(1, 3);
        let mut rows = Vec::new();
        for _ in 0..k {
            rows.push(hour * ROWS_PER_HOUR + next_row);
            next_row += 1;
        }
        if rng.chance(1, 3) {
            rows.reverse();
        }
        chunks.push(ChunkSpec { level, rows, size: *rng.pick(&[60u64, 100, 150]) });
    }
    let ncomp = if rng.chance(2, 5) { 2 } else { 1 };
    Plan {
        local,
        threshold: rng.range_usize(1, 3),
        l1_target: *rng.pick(&[120usize, 200, 260, 100_000]),
        l2_target: *rng.pick(&[120usize, 250, 100_000]),
        max_levels: rng.range_usize(2, 3),
        grace_secs: if rng.chance(1, 2) { 0 } else { 300 },
        chunks,
        ncomp,
        cycles: rng.range_usize(1, 2),
        restart_cycles: rng.range_usize(0, 1),
        sched_seed: rng.next_u64() % 1_000_000,
        policy: rng.below(3) as u8,
        script: if ncomp == 2 && rng.chance(1, 2) { vec![(1, rng.range_usize(1, 3)), (0, rng.range_usize(1, 14))] } else { vec![] },
        fault: None,
        crash: None,
        tick: None,
        renew: None,
        tail_renewals: 0,
        raw: !local && rng.chance(1, 2),
        fault_swap: None,
        t0_hours: 8,
    }
}

fn corpus() -> Vec<(&'static str, Plan)> {
    let c = |level: u32, rows: &[u64]| ChunkSpec { level, rows: rows.to_vec(), size: 100 };
    let base = Plan {
        local: true, threshold: 2, l1_target: 100_000, l2_target: 100_000, max_levels: 2, grace_secs: 300,
        chunks: vec![c(0, &[1, 2]), c(0, &[3, 4]), c(0, &[6, 5])], ncomp: 1, cycles: 1, restart_cycles: 1,
        sched_seed: 1, policy: 1, script: vec![], fault: None, crash: None, tick: None, renew: None, tail_renewals: 0, raw: false, fault_swap: None, t0_hours: 8,
    };
    let mut v = Vec::new();
    // the case of the fixed finding 4d073e9: three L0 chunks in one hour, one cycle
    v.push(("l0-merge-local", base.clone()));
    v.push(("l0-merge-s3", Plan { local: false, ..base.clone() }));
    // levelled merge of two L1 chunks
    let lvl = Plan { chunks: vec![c(1, &[1, 2]), c(1, &[3]), c(0, &[4])], l1_target: 150, threshold: 3, ..base.clone() };
    v.push(("l1-merge-local", lvl.clone()));
    v.push(("l1-merge-s3", Plan { local: false, ..lvl.clone() }));
    let two = vec![c(0, &[1, 2]), c(0, &[3, 4])];
    // K1: error after register_chunk took effect (faultable requests of the group: acquire 0, job 1, get 2, get 3,
    // put 4, register 5); the next cycle merges target and sources together
    for (name, local) in [("k1-register-fail-after-local", true), ("k1-register-fail-after-s3", false)] {
        v.push((name, Plan { local, chunks: two.clone(), fault: Some((5, 2)), cycles: 2, ..base.clone() }));
    }
    // K1: error at complete_compaction before it took effect (request 6): `?` leaves the cycle
    for (name, local) in [("k1-swap-fail-before-local", true), ("k1-swap-fail-before-s3", false)] {
        v.push((name, Plan { local, chunks: two.clone(), fault: Some((6, 1)), cycles: 1, ..base.clone() }));
    }
    // K1: crash between register and swap (modelled requests l l s job get get put register = 8)
    for (name, local) in [("k1-crash-before-swap-local", true), ("k1-crash-before-swap-s3", false)] {
        v.push((name, Plan { local, chunks: two.clone(), crash: Some(8), restart_cycles: 1, ..base.clone() }));
    }
    // ... and once the dead node's lease has expired the restarted node merges target and sources together
    v.push(("k1-crash-then-remerge-s3", Plan { local: false, chunks: two.clone(), crash: Some(8), tick: Some((10, 301)), restart_cycles: 1, ..base.clone() }));
    // K2: the second compactor got its candidate list (2 list calls) before the first one ran; it acquires
    // the lease on chunks that are gone from the catalog but whose objects are still there (grace period)
    for (name, local) in [("k2-stale-list-local", true), ("k2-stale-list-s3", false)] {
        v.push((name, Plan { local, chunks: two.clone(), ncomp: 2, script: vec![(1, 2), (0, 100), (1, 100)], ..base.clone() }));
    }
    // K2 with immediate GC: the stale compactor finds the sources gone and fails cleanly
    for (name, local) in [("k2-stale-list-gc0-local", true), ("k2-stale-list-gc0-s3", false)] {
        v.push((name, Plan { local, chunks: two.clone(), ncomp: 2, grace_secs: 0, script: vec![(1, 2), (0, 100), (1, 100)], ..base.clone() }));
    }
    // K3: the lease of a working compactor expires (l l s job get get = 6 requests in), a second one takes the same chunks
    v.push(("k3-lease-expired-s3", Plan { local: false, chunks: two.clone(), ncomp: 2, tick: Some((8, 301)), script: vec![(1, 2), (0, 6), (1, 100), (0, 100)], ..base.clone() }));
    v.push(("k3-lease-expired-local", Plan { local: true, chunks: two.clone(), ncomp: 2, tick: Some((8, 301)), script: vec![(1, 2), (0, 6), (1, 100), (0, 100)], ..base.clone() }));
    v.push(("k3-lease-renewed-local", Plan { local: true, chunks: two.clone(), ncomp: 2, tick: Some((8, 200)), renew: Some(8), script: vec![(1, 2), (0, 6), (1, 100), (0, 100)], ..base.clone() }));
    v.push(("k1-crash-then-remerge-local", Plan { local: true, chunks: two.clone(), crash: Some(8), tick: Some((10, 301)), restart_cycles: 1, ..base.clone() }));
    // the same with the renewal task firing in time: the second compactor is refused
    v.push(("k3-lease-renewed-s3", Plan { local: false, chunks: two.clone(), ncomp: 2, tick: Some((8, 200)), renew: Some(8), script: vec![(1, 2), (0, 6), (1, 100), (0, 100)], ..base.clone() }));
    // K4 (fixed by 00081bd): an error at create_compaction_job used to leak the renewal task (lease renewed for ever)
    for (name, local) in [("k4-job-error-local", true), ("k4-job-error-s3", false)] {
        v.push((name, Plan { local, chunks: two.clone(), fault: Some((1, 1)), cycles: 2, tail_renewals: 3, ..base.clone() }));
    }
    // K5: a level-1 merge registers its target at level 0 (l l l s job get get put register = 9 requests);
    // an L0 pass with threshold 1 of the other compactor picks the target up before the swap
    for (name, local) in [("k5-unswapped-target-local", true), ("k5-unswapped-target-s3", false)] {
        v.push((name, Plan { local, chunks: vec![c(1, &[1, 2]), c(1, &[3])], l1_target: 150, threshold: 1, ncomp: 2, script: vec![(0, 9), (1, 100), (0, 100)], ..base.clone() }));
    }
    // fault after effect at complete_compaction of a level-1 and of a level-2 group (faultable requests of the
    // group: acquire 0, job 1, get 2, get 3, put 4, register 5, complete 6): the swap is applied, the error
    // leaves the cycle; the published target must stay one level above its sources in every later catalog
    for (name, local) in [("swap-fail-after-l1-local", true), ("swap-fail-after-l1-s3", false)] {
        v.push((name, Plan { local, fault: Some((6, 2)), cycles: 3, ..lvl.clone() }));
    }
    for (name, local) in [("swap-fail-after-l2-local", true), ("swap-fail-after-l2-s3", false)] {
        v.push((name, Plan { local, chunks: vec![c(2, &[1, 2]), c(2, &[3]), c(0, &[4])], l1_target: 100_000, l2_target: 150, max_levels: 3, threshold: 3, fault: Some((6, 2)), cycles: 3, ..base.clone() }));
    }
    // large groups: one-row L0 chunks in one hour bucket (more files than any fan-in limit one might add),
    // and wide groups above level 0 (many small chunks below the target size)
    for n in [33u64, 40, 64, 100] {
        for (tag, local) in [("local", true), ("s3", false)] {
            let chunks: Vec<ChunkSpec> = (1..=n).map(|i| ChunkSpec { level: 0, rows: vec![i], size: 10 }).collect();
            let name: &'static str = Box::leak(format!("large-l0-group-{}-{}", n, tag).into_boxed_str());
            v.push((name, Plan { local, chunks, threshold: 10, grace_secs: if n % 2 == 1 || n == 64 { 0 } else { 300 }, cycles: 1, ..base.clone() }));
        }
    }
    for (tag, local) in [("local", true), ("s3", false)] {
        let chunks: Vec<ChunkSpec> = (1..=40u64).map(|i| ChunkSpec { level: 1, rows: vec![i], size: 10 }).collect();
        let name: &'static str = Box::leak(format!("wide-l1-group-40-{}", tag).into_boxed_str());
        v.push((name, Plan { local, chunks, l1_target: 400, threshold: 3, grace_secs: 0, cycles: 1, ..base.clone() }));
        let chunks: Vec<ChunkSpec> = (1..=36u64).map(|i| ChunkSpec { level: 2, rows: vec![i], size: 10 }).collect();
        let name: &'static str = Box::leak(format!("wide-l2-group-36-{}", tag).into_boxed_str());
        v.push((name, Plan { local, chunks, l2_target: 360, max_levels: 3, threshold: 3, cycles: 1, ..base.clone() }));
    }
    // sparse series: the merged chunk spans more than 7 / more than 30 days; every row must stay reachable
    // through get_chunks(TimeRange), not only through list_chunks
    let day = 24 * ROWS_PER_HOUR;
    for (tag, local) in [("local", true), ("s3", false)] {
        let sparse = |gap_days: u64, level: u32| -> Vec<ChunkSpec> {
            (0..4u64).map(|k| ChunkSpec { level, rows: vec![k * gap_days * day + 2 * k + 1, k * gap_days * day + 2 * k + 2], size: 100 }).collect()
        };
        let name: &'static str = Box::leak(format!("sparse-9-days-l1-{}", tag).into_boxed_str());
        v.push((name, Plan { local, chunks: sparse(3, 1), l1_target: 400, threshold: 3, cycles: 2, t0_hours: 24 * 20, ..base.clone() }));
        let name: &'static str = Box::leak(format!("sparse-33-days-l1-{}", tag).into_boxed_str());
        v.push((name, Plan { local, chunks: sparse(11, 1), l1_target: 400, threshold: 3, cycles: 2, t0_hours: 24 * 45, ..base.clone() }));
        // four 2-row L0 chunks three days apart, threshold 1: L0 -> L1 one by one, then the higher levels merge them
        let name: &'static str = Box::leak(format!("sparse-l0-threshold-1-{}", tag).into_boxed_str());
        v.push((name, Plan { local, chunks: sparse(3, 0), threshold: 1, l1_target: 2000, l2_target: 2000, max_levels: 3, cycles: 4, t0_hours: 24 * 20, ..base.clone() }));
    }
    // raw mode (object-store backend): every GET / conditional PUT of the metadata operations is a step of its own
    v.push(("raw-l0-merge-s3", Plan { local: false, raw: true, ..base.clone() }));
    v.push(("raw-two-compactors-alternating-s3", Plan { local: false, raw: true, ncomp: 2, policy: 2, chunks: vec![c(0, &[1, 2]), c(0, &[3, 4]), c(1, &[5]), c(1, &[6])], l1_target: 150, ..base.clone() }));
    v.push(("raw-two-compactors-random-s3", Plan { local: false, raw: true, ncomp: 2, policy: 0, sched_seed: 11, cycles: 2, chunks: vec![c(0, &[1, 2]), c(0, &[3, 4]), c(1, &[5]), c(1, &[6])], l1_target: 150, ..base.clone() }));
    v.push(("raw-stale-list-s3", Plan { local: false, raw: true, chunks: two.clone(), ncomp: 2, script: vec![(1, 2), (0, 100), (1, 100)], ..base.clone() }));
    v
}

fn main() {
    let args = Args::parse();
    csv_common::quiet_panics();
    let mut model = Model::spawn(&args.model);
    let mut report = Report::new("C03");

    if let Some(path) = &args.replay {
        let v: Value = serde_json::from_str(&std::fs::read_to_string(path).expect("replay file")).expect("json");
        let case = if v.get("case").is_some() { v["case"].clone() } else { v.clone() };
        let plan = Plan::from_json(&case);
        let vd = run_case(&plan, &mut model);
        println!("impl : {}", vd.impl_line);
        println!("model: {}", vd.model_line);
        println!("class: {} {}", vd.class, class_name(&vd.class));
        for o in &vd.out.oracle {
            println!("oracle: {}", o);
        }
        let bad = vd.differs || vd.out.oracle.iter().any(|_| class_name(&vd.class).is_empty());
        std::process::exit(if bad { 1 } else { 0 });
    }

    let mut rng = Rng::new(args.seed);
    let thorough = args.thorough();
    let mut plans: Vec<(String, Plan)> = corpus().into_iter().map(|(n, p)| (format!("corpus:{}", n), p)).collect();

    // fault / crash sweeps over every request index of fixed single-compactor datasets
    let sweep_bases: Vec<Plan> = {
        let c = |level: u32, rows: &[u64]| ChunkSpec { level, rows: rows.to_vec(), size: 100 };
        let b = Plan {
            local: true, threshold: 2, l1_target: 150, l2_target: 100_000, max_levels: 2, grace_secs: 0,
            chunks: vec![c(0, &[1, 2]), c(0, &[4, 3]), c(1, &[5]), c(1, &[6, 7])], ncomp: 1, cycles: 2, restart_cycles: 1,
            sched_seed: 7, policy: 1, script: vec![], fault: None, crash: None, tick: None, renew: None, tail_renewals: 0, raw: false, fault_swap: None, t0_hours: 8,
        };
        let mut v = vec![b.clone(), Plan { local: false, ..b.clone() }, Plan { local: false, raw: true, cycles: 1, ..b.clone() }];
        if thorough {
            v.push(Plan { chunks: vec![c(0, &[1]), c(0, &[2]), c(0, &[3]), c(2, &[4]), c(2, &[5])], l2_target: 150, threshold: 3, ..b.clone() });
            v.push(Plan { local: false, chunks: vec![c(0, &[1]), c(0, &[2]), c(0, &[3]), c(2, &[4]), c(2, &[5])], l2_target: 150, threshold: 3, ..b.clone() });
        }
        v
    };
    for (bi, b) in sweep_bases.iter().enumerate() {
        let probe = run_case(b, &mut model);
        let nf = probe.out.faultable;
        let nm = probe.out.modelled;
        let stride = if thorough { 1 } else { 1 };
        for i in (0..nf).step_by(stride) {
            for k in [1u8, 2u8] {
                plans.push((format!("sweep{}:fault@{}:{}", bi, i, k), Plan { fault: Some((i, k)), ..b.clone() }));
            }
        }
        for i in (0..nm).step_by(if thorough { 1 } else { 2 }) {
            plans.push((format!("sweep{}:crash@{}", bi, i), Plan { crash: Some(i), ..b.clone() }));
        }
    }

    // random scenarios
    let nrand = if thorough { 3000 } else { 400 };
    for i in 0..nrand {
        let mut p = gen_plan(&mut rng, thorough);
        let probe_len = 24 + p.chunks.len() * 3;
        if rng.chance(1, 5) {
            // aim at the swap: mostly "applied but reported as failed"
            p.fault_swap = Some((rng.below(3) as usize, if rng.chance(3, 4) { 2 } else { 1 }));
            if rng.chance(1, 2) {
                // make sure there is a group above level 0 to swap
                for c in p.chunks.iter_mut().take(3) {
                    c.level = 1 + (p.sched_seed % 2) as u32;
                    c.size = 100;
                }
                p.l1_target = 150;
                p.l2_target = 150;
                p.max_levels = 3;
                p.cycles = 2;
            }
        }
        match rng.below(10) {
            0..=2 => p.fault = Some((rng.below(probe_len as u64) as usize, 1 + rng.below(2) as u8)),
            3..=4 => p.crash = Some(rng.below(probe_len as u64) as usize),
            5 => {
                p.fault = Some((rng.below(probe_len as u64) as usize, 1 + rng.below(2) as u8));
                p.crash = Some(rng.below(probe_len as u64) as usize);
            }
            _ => {}
        }
        if rng.chance(1, 4) {
            p.tick = Some((rng.below(probe_len as u64) as usize, *rng.pick(&[100i64, 250, 301, 700])));
        }
        if !p.raw && rng.chance(1, 6) {
            p.renew = Some(rng.below(probe_len as u64) as usize);
        }
        if !p.raw && rng.chance(1, 3) {
            p.tail_renewals = 1;
        }
        if p.raw {
            // positions count single object-store requests here: roughly three per metadata operation
            let scale = |x: usize| x * 3;
            p.fault = p.fault.map(|(i, k)| (scale(i), k));
            p.crash = p.crash.map(scale);
            p.tick = p.tick.map(|(i, d)| (scale(i), d));
            p.script = p.script.iter().map(|(c, n)| (*c, scale(*n))).collect();
        }
        plans.push((format!("random:{}", i), p));
    }

    let mut unclassified: Vec<(String, Value)> = Vec::new();
    let mut classified: Vec<(String, String, Value)> = Vec::new();
    let mut per_class: BTreeMap<String, u32> = BTreeMap::new();
    let only = args.get("only").map(|s| s.to_string());
    let verbose = args.get("verbose").is_some();
    // large / wide / sparse datasets, a few per run
    for i in 0..(if thorough { 60 } else { 12 }) {
        let mut p = gen_plan(&mut rng, thorough);
        p.ncomp = 1 + (i % 3 == 2) as usize;
        p.raw = false;
        p.script = vec![];
        p.tick = None;
        let day = 24 * ROWS_PER_HOUR;
        match i % 3 {
            0 => {
                let n = rng.range_usize(33, 80) as u64;
                p.chunks = (1..=n).map(|k| ChunkSpec { level: 0, rows: vec![k], size: 10 }).collect();
                p.threshold = rng.range_usize(2, 15);
                p.cycles = 1;
            }
            1 => {
                let n = rng.range_usize(20, 50) as u64;
                let lv = rng.range_usize(1, 2) as u32;
                p.chunks = (1..=n).map(|k| ChunkSpec { level: lv, rows: vec![k], size: 10 }).collect();
                p.l1_target = (n * 10) as usize;
                p.l2_target = (n * 10) as usize;
                p.max_levels = 3;
                p.cycles = 1;
            }
            _ => {
                let gap = rng.range_usize(3, 12) as u64;
                let n = rng.range_usize(4, 6) as u64;
                let lv = rng.below(2) as u32;
                p.chunks = (0..n).map(|k| ChunkSpec { level: lv, rows: vec![k * gap * day + 2 * k + 1, k * gap * day + 2 * k + 2], size: 100 }).collect();
                p.t0_hours = (24 * (gap * n + 5)) as i64;
                p.threshold = if lv == 0 { 1 } else { 3 };
                p.l1_target = if lv == 0 { 2000 } else { (n * 100) as usize };
                p.l2_target = 2000;
                p.max_levels = 3;
                p.cycles = 3;
            }
        }
        if rng.chance(1, 3) {
            p.fault = Some((rng.below(40) as usize, 1 + rng.below(2) as u8));
        }
        plans.push((format!("special:{}", i), p));
    }

    for (name, plan) in plans.iter() {
        if let Some(o) = &only {
            if !name.contains(o.as_str()) {
                continue;
            }
        }
        let vd = run_case(plan, &mut model);
        if verbose {
            println!("== {}\n labels: {}\n impl : {}\n model: {}\n class {} cycles {:?} oracle {:?} notes {:?} renew-after-end {}", name, vd.out.labels.join(";"), vd.impl_line, vd.model_line, vd.class, vd.out.cycle_results, vd.out.oracle, vd.out.notes, vd.out.renew_calls_after_end);
        }
        report.impl_runs += 1;
        let kind = name.split(':').next().unwrap_or("");
        report.bump(&format!("kind.{}", kind));
        report.bump(if plan.local { "backend.in-memory" } else if plan.raw { "backend.object-store(request-level)" } else { "backend.object-store" });
        report.bump(&format!("compactors.{}", plan.ncomp));
        if plan.fault.is_some() || plan.fault_swap.is_some() { report.bump("with.fault"); }
        if plan.fault_swap.is_some() { report.bump("with.fault-at-swap"); }
        if plan.crash.is_some() { report.bump("with.crash"); }
        if plan.tick.is_some() { report.bump("with.lease-aging"); }
        report.bump_by("requests.modelled", vd.out.labels.len() as u64);
        report.bump_by("merges.published", vd.out.merges as u64);
        report.bump(&format!("class.{}", if class_name(&vd.class).is_empty() { "none" } else { class_name(&vd.class) }));
        if vd.out.renew_calls_after_end > 0 {
            report.bump("renewals-after-cycles-ended");
        }
        let key = format!("{}|{}", vd.out.chunks_line, vd.out.labels.join(";"));
        report.case(if vd.out.merges > 0 || plan.fault.is_some() || plan.crash.is_some() { Some(&key) } else { None });
        report.sample(json!({"name": name, "labels": vd.out.labels.join(";"), "impl": vd.impl_line.chars().take(400).collect::<String>(), "class": vd.class, "cycles": vd.out.cycle_results}));
        for n in &vd.out.notes {
            report.notes.push(format!("{}: {}", name, n));
            report.disagreement(json!({"correspondence": "harness could not set up or finish the scenario", "case": plan.to_json(), "note": n}));
        }
        if vd.differs {
            report.disagreement(json!({
                "correspondence": "modelrun-compact (Model/Compactor.v step) vs Compactor::run_compaction_cycle: request kind/argument/status, catalog (path:level:rows), lease table after every request",
                "name": name, "case": plan.to_json(), "labels": vd.out.labels.join(";"),
                "impl": vd.impl_line, "model": vd.model_line, "shrunk": Value::Null,
                "oracle_failed": !vd.out.oracle.is_empty(),
            }));
        }
        let mut seen = std::collections::HashSet::new();
        for o in &vd.out.oracle {
            let head = o.split(':').next().unwrap_or("").to_string();
            if !seen.insert(head.clone()) {
                continue;
            }
            // only the duplicate condition has known classes; a lost row, a wrong or decreasing level and a
            // leaked renewal task are never explained by a row-multiset class
            let class = if head == "DUP" { class_name(&vd.class) } else { "" };
            if class.is_empty() {
                unclassified.push((o.clone(), plan.to_json()));
            } else {
                let n = per_class.entry(class.to_string()).or_insert(0u32);
                *n += 1;
                report.bump(&format!("duplicates-in-known-class.{}", class));
                if *n <= 6 {
                    classified.push((class.to_string(), o.clone(), plan.to_json()));
                }
            }
        }
    }
    // the report keeps a bounded number of violations: unclassified ones first
    for (o, c) in unclassified {
        report.oracle_violation("", &o, c);
    }
    for (k, o, c) in classified {
        report.oracle_violation(&k, &o, c);
    }
    report.write(&args.out);
}
