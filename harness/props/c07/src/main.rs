//! csv-c07 — correspondence + oracle for C07 (time-range chunk lookup is exact
//! on both metadata backends).
//!
//! For each generated history the real LocalMetadataClient and a real
//! ObjectStoreMetadataClient (over InMemory) execute the operations; the
//! extracted Coq model (modelrun-c07) executes the same history; the canonical
//! outputs are compared token by token.  Independently, a reference interval
//! map kept by this harness (the oracle: "live chunks whose [min,max] meets
//! [s,e]") is compared with what the implementation answers.
use cardinalsin::ingester::ChunkMetadata;
use cardinalsin::metadata::{
    LocalMetadataClient, MetadataClient, ObjectStoreMetadataClient, ObjectStoreMetadataConfig,
    TimeIndexEntry, TimeRange,
};
use csv_common::{catch, ddmin, Args, Model, Report, Rng};
use object_store::memory::InMemory;
use serde_json::json;
use std::collections::BTreeMap;
use std::panic::AssertUnwindSafe;
use std::sync::Arc;

const H: i64 = 3_600_000_000_000;

#[derive(Clone, Debug, PartialEq)]
enum Op {
    R { p: u32, min: i64, max: i64, rows: u64, size: u64 },
    D { p: u32 },
    C { tgt: u32, srcs: Vec<u32> },
    Q { s: i64, e: i64 },
    L,
}

fn encode(ops: &[Op]) -> String {
    ops.iter()
        .map(|o| match o {
            Op::R { p, min, max, rows, size } => format!("R {} {} {} {} {}", p, min, max, rows, size),
            Op::D { p } => format!("D {}", p),
            Op::C { tgt, srcs } => {
                if srcs.is_empty() {
                    format!("C {}", tgt)
                } else {
                    format!("C {} {}", tgt, srcs.iter().map(|s| s.to_string()).collect::<Vec<_>>().join(","))
                }
            }
            Op::Q { s, e } => format!("Q {} {}", s, e),
            Op::L => "L".to_string(),
        })
        .collect::<Vec<_>>()
        .join(";")
}

fn decode(line: &str) -> Vec<Op> {
    line.split(';')
        .filter(|t| !t.trim().is_empty())
        .map(|t| {
            let f: Vec<&str> = t.trim().split(' ').collect();
            match f[0] {
                "R" => Op::R {
                    p: f[1].parse().unwrap(),
                    min: f[2].parse().unwrap(),
                    max: f[3].parse().unwrap(),
                    rows: f[4].parse().unwrap(),
                    size: f[5].parse().unwrap(),
                },
                "D" => Op::D { p: f[1].parse().unwrap() },
                "C" => Op::C {
                    tgt: f[1].parse().unwrap(),
                    srcs: if f.len() > 2 { f[2].split(',').map(|s| s.parse().unwrap()).collect() } else { vec![] },
                },
                "Q" => Op::Q { s: f[1].parse().unwrap(), e: f[2].parse().unwrap() },
                _ => Op::L,
            }
        })
        .collect()
}

fn pname(p: u32) -> String {
    format!("chunk_{}.parquet", p)
}
fn pid(s: &str) -> u32 {
    s.trim_start_matches("chunk_").trim_end_matches(".parquet").parse().unwrap_or(999_999)
}

fn show(entries: &[TimeIndexEntry]) -> String {
    let mut v: Vec<(u32, i64, i64)> = entries.iter().map(|e| (pid(&e.chunk_path), e.min_timestamp, e.max_timestamp)).collect();
    v.sort();
    v.iter().map(|(p, a, b)| format!("{}:{}:{}", p, a, b)).collect::<Vec<_>>().join(",")
}
fn show_ref(m: &BTreeMap<u32, (i64, i64)>, q: Option<(i64, i64)>) -> String {
    m.iter()
        .filter(|(_, (mn, mx))| match q {
            Some((s, e)) => s <= e && *mn <= e && *mx >= s,
            None => true,
        })
        .map(|(p, (a, b))| format!("{}:{}:{}", p, a, b))
        .collect::<Vec<_>>()
        .join(",")
}

/// Runs the history on both real backends; returns the canonical output line
/// (same format as modelrun-c07, with the harness's own reference in the
/// `spec=` slot) and the list of oracle failures.
fn run_impl(rt: &tokio::runtime::Runtime, ops: &[Op]) -> (String, Vec<String>) {
    let store: Arc<dyn object_store::ObjectStore> = Arc::new(InMemory::new());
    let cfg = ObjectStoreMetadataConfig {
        bucket: "b".into(),
        metadata_prefix: "metadata/".into(),
        enable_cache: true,
        allow_unsafe_overwrite: false,
    };
    let s3 = ObjectStoreMetadataClient::new(store.clone(), cfg.clone());
    let local = LocalMetadataClient::new();
    let mut reference: BTreeMap<u32, (i64, i64)> = BTreeMap::new();
    let mut toks = Vec::new();
    let mut bad = Vec::new();
    let mut qn = 0usize;
    for (i, op) in ops.iter().enumerate() {
        let tok = match op {
            Op::R { p, min, max, rows, size } => {
                let m = ChunkMetadata { path: pname(*p), min_timestamp: *min, max_timestamp: *max, row_count: *rows, size_bytes: *size };
                let a = catch(AssertUnwindSafe(|| rt.block_on(s3.register_chunk(&m.path, &m))));
                let b = catch(AssertUnwindSafe(|| rt.block_on(local.register_chunk(&m.path, &m))));
                reference.insert(*p, (*min, *max));
                format!("{},{}", rc(&a), rc(&b))
            }
            Op::D { p } => {
                let a = catch(AssertUnwindSafe(|| rt.block_on(s3.delete_chunk(&pname(*p)))));
                let b = catch(AssertUnwindSafe(|| rt.block_on(local.delete_chunk(&pname(*p)))));
                reference.remove(p);
                format!("{},{}", rc(&a), rc(&b))
            }
            Op::C { tgt, srcs } => {
                let names: Vec<String> = srcs.iter().map(|s| pname(*s)).collect();
                let a = catch(AssertUnwindSafe(|| rt.block_on(s3.complete_compaction(&names, &pname(*tgt)))));
                let b = catch(AssertUnwindSafe(|| rt.block_on(local.complete_compaction(&names, &pname(*tgt)))));
                // reference semantics: the swap happens iff the target is live and not a source
                if reference.contains_key(tgt) && !srcs.contains(tgt) {
                    for s in srcs {
                        reference.remove(s);
                    }
                }
                format!("{},{}", rc(&a), rc(&b))
            }
            Op::Q { s, e } => {
                qn += 1;
                // alternate between the long-lived client and a fresh one (persisted state)
                let a = if qn % 2 == 0 {
                    let fresh = ObjectStoreMetadataClient::new(store.clone(), cfg.clone());
                    catch(AssertUnwindSafe(|| rt.block_on(fresh.get_chunks(TimeRange::new(*s, *e)))))
                } else {
                    catch(AssertUnwindSafe(|| rt.block_on(s3.get_chunks(TimeRange::new(*s, *e)))))
                };
                let b = catch(AssertUnwindSafe(|| rt.block_on(local.get_chunks(TimeRange::new(*s, *e)))));
                let sa = out(&a);
                let sb = out(&b);
                let sr = show_ref(&reference, Some((*s, *e)));
                if sa != sr {
                    bad.push(format!("op {}: object-store answer {{{}}} != exact answer {{{}}} for range ({},{})", i, sa, sr, s, e));
                }
                if sb != sr {
                    bad.push(format!("op {}: in-memory answer {{{}}} != exact answer {{{}}} for range ({},{})", i, sb, sr, s, e));
                }
                if let Ok(Ok(v)) = &a {
                    let mut ps: Vec<&String> = v.iter().map(|e| &e.chunk_path).collect();
                    ps.sort();
                    let n = ps.len();
                    ps.dedup();
                    if ps.len() != n {
                        bad.push(format!("op {}: object-store answer lists a chunk twice", i));
                    }
                }
                if let Ok(Ok(v)) = &b {
                    let mut ps: Vec<&String> = v.iter().map(|e| &e.chunk_path).collect();
                    ps.sort();
                    let n = ps.len();
                    ps.dedup();
                    if ps.len() != n {
                        bad.push(format!("op {}: in-memory answer lists a chunk twice", i));
                    }
                }
                format!("s3={}|local={}|spec={}", sa, sb, sr)
            }
            Op::L => {
                let fresh = ObjectStoreMetadataClient::new(store.clone(), cfg.clone());
                let a = catch(AssertUnwindSafe(|| rt.block_on(fresh.list_chunks())));
                let b = catch(AssertUnwindSafe(|| rt.block_on(local.list_chunks())));
                let sa = out(&a);
                let sb = out(&b);
                let sr = show_ref(&reference, None);
                if sa != sr || sb != sr {
                    bad.push(format!("op {}: list_chunks s3={{{}}} local={{{}}} != live set {{{}}}", i, sa, sb, sr));
                }
                format!("s3={}|local={}|spec={}", sa, sb, sr)
            }
        };
        toks.push(tok);
    }
    (toks.join(";"), bad)
}

fn rc<T>(r: &Result<cardinalsin::Result<T>, String>) -> &'static str {
    match r {
        Ok(Ok(_)) => "0",
        Ok(Err(_)) => "1",
        Err(_) => "PANIC",
    }
}
fn out(r: &Result<cardinalsin::Result<Vec<TimeIndexEntry>>, String>) -> String {
    match r {
        Ok(Ok(v)) => show(v),
        Ok(Err(_)) => "ERR".into(),
        Err(_) => "PANIC".into(),
    }
}

// ------------------------------------------------------------ generator ----
fn gen_ts(rng: &mut Rng, class: u64) -> i64 {
    // boundary-biased timestamps: k*H, k*H±1, small, negative, multi-day
    if class == 3 {
        // representable extremes: the last / first hour buckets of i64
        return match rng.below(6) {
            0 => i64::MAX,
            1 => i64::MAX - rng.range_i64(0, 2 * H),
            2 => i64::MIN,
            3 => i64::MIN + rng.range_i64(0, 2 * H),
            4 => (i64::MAX / H) * H - rng.range_i64(0, 2),
            _ => (i64::MAX / H) * H + rng.range_i64(0, 2),
        };
    }
    let k = match class {
        0 => rng.range_i64(-3, 6),
        1 => rng.range_i64(-50, 50),
        _ => rng.range_i64(400_000, 400_100), // around year 2015..2016 in hours
    };
    let base = k * H;
    match rng.below(8) {
        0 => base,
        1 => base - 1,
        2 => base + 1,
        3 => base + H - 1,
        4 => base + rng.range_i64(0, H - 1),
        5 => rng.range_i64(-5, 5),
        6 => base + H / 2,
        _ => base + rng.range_i64(-2, 2),
    }
}

fn gen_case(rng: &mut Rng, report: &mut Report) -> Vec<Op> {
    let class = if rng.chance(1, 12) { 3 } else { rng.below(3) };
    if class == 3 {
        report.bump("class.i64_extremes");
    }
    let npaths = rng.range_usize(1, 5) as u32;
    let nops = rng.range_usize(3, 14);
    let mut ops = Vec::new();
    let mut registered: Vec<u32> = Vec::new();
    for _ in 0..nops {
        let r = rng.below(100);
        if r < 40 || registered.is_empty() {
            let p = 1 + rng.below(npaths as u64) as u32;
            let a = gen_ts(rng, class);
            let span = match rng.below(7) {
                0 => 0,
                1 => 1,
                2 => H,
                3 => rng.range_i64(0, 3 * H),
                4 => rng.range_i64(24 * H, 80 * H),
                // more than a week / a month: a merged chunk of a sparse series
                5 => rng.range_i64(160 * H, 800 * H),
                _ => rng.range_i64(0, H - 1),
            };
            let span = if class == 3 { span.min(3 * H) } else { span };
            let b = a.saturating_add(span);
            if registered.contains(&p) {
                report.bump("op.reregister");
            } else {
                registered.push(p);
            }
            if span >= 24 * H {
                report.bump("chunk.multiday");
            }
            if span == 0 {
                report.bump("chunk.zero_length");
            }
            ops.push(Op::R { p, min: a, max: b, rows: rng.range_i64(1, 1000) as u64, size: rng.range_i64(1, 5000) as u64 });
            report.bump("op.register");
        } else if r < 50 {
            let p = if rng.chance(4, 5) { *rng.pick(&registered) } else { 1 + rng.below(npaths as u64 + 1) as u32 };
            ops.push(Op::D { p });
            report.bump("op.delete");
        } else if r < 60 {
            let tgt = if rng.chance(4, 5) { *rng.pick(&registered) } else { 1 + rng.below(npaths as u64 + 2) as u32 };
            let ns = rng.range_usize(0, 3);
            let srcs: Vec<u32> = (0..ns).map(|_| 1 + rng.below(npaths as u64 + 1) as u32).collect();
            if srcs.contains(&tgt) {
                report.bump("op.complete.target_in_sources");
            }
            ops.push(Op::C { tgt, srcs });
            report.bump("op.complete");
        } else if r < 95 {
            let a = gen_ts(rng, class);
            // a point query near the END of some registered long chunk (beyond its first week)
            if rng.chance(1, 6) {
                if let Some(Op::R { min, max, .. }) = ops.iter().rev().find(|o| matches!(o, Op::R { min, max, .. } if max.saturating_sub(*min) > 160 * H)) {
                    let t = max.saturating_sub(rng.range_i64(0, 2 * H)).max(*min);
                    ops.push(Op::Q { s: t, e: t.saturating_add(rng.range_i64(0, H)) });
                    report.bump("query.tail_of_long_chunk");
                    report.bump("op.query");
                    continue;
                }
            }
            let (s, e) = match rng.below(8) {
                0 => (a, a),                                  // zero-length
                1 => (a, a.saturating_sub(rng.range_i64(1, 2 * H))), // inverted
                2 => (a, a.saturating_add(rng.range_i64(24 * H, 100 * H))), // multi-day
                3 => (i64::MIN, i64::MAX),
                4 => (a, a.saturating_add(H - 1)),
                _ => (a, a.saturating_add(rng.range_i64(0, 3 * H))),
            };
            if s > e {
                report.bump("query.inverted");
            }
            if s == e {
                report.bump("query.zero_length");
            }
            ops.push(Op::Q { s, e });
            report.bump("op.query");
        } else {
            ops.push(Op::L);
            report.bump("op.list");
        }
    }
    // always end with queries so every history is observed
    for _ in 0..rng.range_usize(1, 3) {
        let a = gen_ts(rng, class);
        ops.push(Op::Q { s: a.saturating_sub(rng.range_i64(0, 2 * H)), e: a.saturating_add(rng.range_i64(0, 2 * H)) });
        report.bump("op.query");
    }
    ops.push(Op::L);
    ops
}

/// Proof-derived corner cases that always run first.
fn corpus() -> Vec<Vec<Op>> {
    let r = |p, min, max| Op::R { p, min, max, rows: 1, size: 1 };
    vec![
        // inverted ranges: same bucket and across buckets (BTreeMap::range panicked before the fix)
        vec![r(1, 0, 20_000_000_000_000), Op::Q { s: 10, e: 5 }, Op::Q { s: 8_000_000_000_000, e: 5 }],
        // hour boundaries +-1
        vec![r(1, H - 1, H - 1), r(2, H, H), r(3, H + 1, 2 * H), Op::Q { s: H, e: H }, Op::Q { s: H - 1, e: H - 1 }, Op::Q { s: 0, e: H - 1 }, Op::Q { s: H + 1, e: H + 1 }],
        // negative timestamps: Rust's / truncates toward zero, so -1 and +1 share bucket 0
        vec![r(1, -H - 1, -1), r(2, -1, 1), Op::Q { s: -1, e: -1 }, Op::Q { s: -H, e: -H }, Op::Q { s: -2 * H, e: -H - 1 }, Op::Q { s: 1, e: 1 }],
        // re-registration with a different interval, then delete, then register again
        vec![r(1, 0, 10), r(1, 5 * H, 5 * H + 10), Op::Q { s: 0, e: 10 }, Op::Q { s: 5 * H, e: 5 * H }, Op::D { p: 1 }, Op::Q { s: 0, e: 6 * H }, r(1, 2 * H, 2 * H), Op::Q { s: 0, e: 10 }, Op::Q { s: 2 * H, e: 2 * H }, Op::L],
        // multi-day chunk hit from a range in the middle
        vec![r(1, 0, 72 * H), Op::Q { s: 30 * H + 5, e: 30 * H + 6 }, Op::Q { s: 72 * H, e: 73 * H }, Op::Q { s: 72 * H + 1, e: 73 * H }],
        // compaction completion: registered target, unregistered target, target among sources
        vec![r(1, 0, 10), r(2, 20, 30), r(3, 0, 30), Op::C { tgt: 3, srcs: vec![1, 2] }, Op::Q { s: 0, e: 100 }, Op::C { tgt: 9, srcs: vec![3] }, Op::Q { s: 0, e: 100 }, Op::C { tgt: 3, srcs: vec![3] }, Op::Q { s: 0, e: 100 }, Op::L],
        // last and first representable hour buckets (the bucket loop overflowed i64 before the fix)
        vec![r(1, i64::MAX - 5, i64::MAX), r(2, i64::MIN, i64::MIN + 5), Op::Q { s: i64::MAX, e: i64::MAX }, Op::Q { s: i64::MIN, e: i64::MIN }, Op::Q { s: i64::MIN, e: i64::MAX }, Op::D { p: 1 }, Op::Q { s: 0, e: i64::MAX }, Op::L],
        // a chunk spanning more than a week / a month is found from a window near its end
        vec![r(1, 0, 9 * 24 * H), r(2, 5, 40 * 24 * H), Op::Q { s: 9 * 24 * H - 10, e: 9 * 24 * H }, Op::Q { s: 39 * 24 * H, e: 39 * 24 * H + 5 }, Op::Q { s: 8 * 24 * H, e: 8 * 24 * H }],
        // end-point inclusivity
        vec![r(1, 100, 200), Op::Q { s: 200, e: 300 }, Op::Q { s: 201, e: 300 }, Op::Q { s: 0, e: 100 }, Op::Q { s: 0, e: 99 }],
    ]
}

fn nontrivial(ops: &[Op]) -> bool {
    // at least one registration and one non-inverted query that could hit something
    ops.iter().any(|o| matches!(o, Op::R { .. })) && ops.iter().any(|o| matches!(o, Op::Q { s, e } if s <= e))
}

fn main() {
    let args = Args::parse();
    csv_common::quiet_panics();
    let rt = tokio::runtime::Builder::new_current_thread().enable_all().build().unwrap();
    let mut model = Model::spawn(&args.model);
    let mut report = Report::new("C07");

    if let Some(path) = &args.replay {
        let txt = std::fs::read_to_string(path).expect("replay file");
        let v: serde_json::Value = serde_json::from_str(&txt).expect("replay json");
        let line = v["case"].as_str().or_else(|| v["shrunk"].as_str()).unwrap_or("").to_string();
        let ops = decode(&line);
        let (impl_out, bad) = run_impl(&rt, &ops);
        let model_out = model.ask(&line);
        println!("case : {}\nimpl : {}\nmodel: {}\noracle failures: {:?}", line, impl_out, model_out, bad);
        std::process::exit(if bad.is_empty() && impl_out == model_out { 0 } else { 1 });
    }

    let n_random = if args.thorough() { 20_000 } else { 1_500 };
    let mut rng = Rng::new(args.seed);
    let mut cases: Vec<(String, Vec<Op>)> = corpus().into_iter().map(|c| ("corpus".to_string(), c)).collect();
    for _ in 0..n_random {
        let mut r = rng.fork();
        cases.push(("random".to_string(), gen_case(&mut r, &mut report)));
    }

    for (origin, ops) in cases {
        let line = encode(&ops);
        report.case(if nontrivial(&ops) { Some(&line) } else { None });
        report.bump(&format!("origin.{}", origin));
        let (impl_out, bad) = run_impl(&rt, &ops);
        report.impl_runs += 1;
        let (differs, model_out) = model.differs(&line, &impl_out);
        report.sample(json!({"history": line, "impl": impl_out, "model": model_out}));
        if differs {
            // shrink: keep the disagreement
            let shrunk = ddmin(&ops, &mut |cand: &[Op]| {
                let l = encode(cand);
                let (i, _) = run_impl(&rt, cand);
                model.differs(&l, &i).0
            });
            let sl = encode(&shrunk);
            let (si, sbad) = run_impl(&rt, &shrunk);
            let sm = model.ask(&sl);
            report.disagreement(json!({
                "correspondence": "catalog model (Model/Catalog.v) vs LocalMetadataClient / ObjectStoreMetadataClient",
                "case": line, "impl": impl_out, "model": model_out,
                "shrunk": sl, "shrunk_impl": si, "shrunk_model": sm,
                "oracle_failed": !sbad.is_empty() || !bad.is_empty(),
            }));
        }
        if !bad.is_empty() {
            let shrunk = ddmin(&ops, &mut |cand: &[Op]| !run_impl(&rt, cand).1.is_empty());
            let (_, sbad) = run_impl(&rt, &shrunk);
            report.oracle_violation("", &sbad.join("; "), json!({"case": encode(&shrunk), "original": line}));
        }
    }
    report.notes.push(format!("model calls: {}", model.calls));
    report.write(&args.out);
}
