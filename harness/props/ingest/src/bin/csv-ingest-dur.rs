//! csv-ingest-dur — correspondence + oracle for C01 (acknowledged writes
//! survive crashes and storage faults).
//!
//! A real `Ingester` with the WAL enabled (sync mode EveryWrite, temp WAL dir)
//! runs over task-routed `SchedStore` handles and a gated `LocalMetadataClient`
//! (the catalog service: survives ingester crashes).  Writer tasks, the flush
//! timer task (shutdown path) and the recovery task (`ensure_wal`) park before
//! every write, after the WAL append, after the sequence store, at the chunk
//! PUT, at `register_chunk`, and after register / load-seq / truncate / persist
//! inside `flush_batches` (pause points of the `verif_hooks` feature).  A
//! generated schedule releases one parked task at a time, makes the PUT or the
//! registration fail before / after its effect, and crashes the process (all
//! tasks dropped at their park points, Ingester dropped) followed by a restart
//! on the same WAL dir.  The extracted Coq model (Model/IngestDur.v) runs the
//! same schedule.  Oracle, evaluated on the durable state after every step:
//! every row of every acknowledged write is in a decoded catalog chunk or in a
//! WAL entry newer than the persisted flushed mark (= what `ensure_wal`
//! replays).  Violating runs are classified by the model's extracted classifier.
use arrow_array::RecordBatch;
use async_trait::async_trait;
use cardinalsin::ingester::{ChunkMetadata, Ingester, IngesterConfig, WalConfig, WalSyncMode};
use cardinalsin::metadata::{
    CompactionJob, CompactionStatus, LocalMetadataClient, MetadataClient, SplitState, TimeIndexEntry, TimeRange,
};
use cardinalsin::sharding::{ShardMetadata, SplitPhase};
use csv_common::sched::{Action, Controller, Hub};
use csv_common::{ddmin, Args, Model, Report, Rng};
use csv_ingest::*;
use object_store::memory::InMemory;
use object_store::path::Path;
use object_store::{ObjectStore, PutPayload};
use serde::{Deserialize, Serialize};
use serde_json::json;
use std::collections::BTreeSet;
use std::sync::atomic::{AtomicUsize, Ordering};
use std::sync::{Arc, Mutex};
use std::time::Duration;
use tokio::task::JoinHandle;

const PAUSES: [&str; 6] = [
    "ingest.write.after_wal_append",
    "ingest.write.after_seq_store",
    "ingest.flush.after_register",
    "ingest.flush.after_load_seq",
    "ingest.flush.after_truncate",
    "ingest.flush.after_persist",
];
const WAL_HEADER_LEN: usize = 22;

// ------------------------------------------------------------ gated catalog ----
/// The catalog service seen by the ingester: LocalMetadataClient behind a gate
/// at `register_chunk` (a scheduling point that can fail before / after effect).
struct GateMeta {
    inner: Arc<LocalMetadataClient>,
    gate: Arc<dyn ObjectStore>,
}

#[async_trait]
impl MetadataClient for GateMeta {
    async fn register_chunk(&self, path: &str, metadata: &ChunkMetadata) -> cardinalsin::Result<()> {
        let r = self.gate.put(&Path::from("__gate/register"), PutPayload::from_static(b"")).await;
        match r {
            Ok(_) => self.inner.register_chunk(path, metadata).await,
            Err(e) => {
                let msg = e.to_string();
                if msg.contains("after effect") {
                    self.inner.register_chunk(path, metadata).await?;
                }
                Err(cardinalsin::Error::Metadata(format!("injected catalog fault: {}", msg)))
            }
        }
    }
    async fn get_chunks(&self, range: TimeRange) -> cardinalsin::Result<Vec<TimeIndexEntry>> {
        self.inner.get_chunks(range).await
    }
    async fn get_chunk(&self, path: &str) -> cardinalsin::Result<Option<ChunkMetadata>> {
        self.inner.get_chunk(path).await
    }
    async fn delete_chunk(&self, path: &str) -> cardinalsin::Result<()> {
        self.inner.delete_chunk(path).await
    }
    async fn list_chunks(&self) -> cardinalsin::Result<Vec<TimeIndexEntry>> {
        self.inner.list_chunks().await
    }
    async fn get_l0_candidates(&self, min_count: usize) -> cardinalsin::Result<Vec<Vec<String>>> {
        self.inner.get_l0_candidates(min_count).await
    }
    async fn get_level_candidates(&self, level: usize, target_size: usize) -> cardinalsin::Result<Vec<Vec<String>>> {
        self.inner.get_level_candidates(level, target_size).await
    }
    async fn create_compaction_job(&self, job: CompactionJob) -> cardinalsin::Result<()> {
        self.inner.create_compaction_job(job).await
    }
    async fn complete_compaction(&self, source_chunks: &[String], target_chunk: &str) -> cardinalsin::Result<()> {
        self.inner.complete_compaction(source_chunks, target_chunk).await
    }
    async fn update_compaction_status(&self, job_id: &str, status: CompactionStatus) -> cardinalsin::Result<()> {
        self.inner.update_compaction_status(job_id, status).await
    }
    async fn get_pending_compaction_jobs(&self) -> cardinalsin::Result<Vec<CompactionJob>> {
        self.inner.get_pending_compaction_jobs().await
    }
    async fn start_split(&self, old_shard: &str, new_shards: Vec<String>, split_point: Vec<u8>) -> cardinalsin::Result<()> {
        self.inner.start_split(old_shard, new_shards, split_point).await
    }
    async fn get_split_state(&self, shard_id: &str) -> cardinalsin::Result<Option<SplitState>> {
        self.inner.get_split_state(shard_id).await
    }
    async fn update_split_progress(&self, shard_id: &str, progress: f64, phase: SplitPhase) -> cardinalsin::Result<()> {
        self.inner.update_split_progress(shard_id, progress, phase).await
    }
    async fn complete_split(&self, old_shard: &str) -> cardinalsin::Result<()> {
        self.inner.complete_split(old_shard).await
    }
    async fn get_chunks_for_shard(&self, shard_id: &str) -> cardinalsin::Result<Vec<TimeIndexEntry>> {
        self.inner.get_chunks_for_shard(shard_id).await
    }
    async fn get_shard_metadata(&self, shard_id: &str) -> cardinalsin::Result<Option<ShardMetadata>> {
        self.inner.get_shard_metadata(shard_id).await
    }
    async fn update_shard_metadata(&self, shard_id: &str, metadata: &ShardMetadata, expected_generation: u64) -> cardinalsin::Result<()> {
        self.inner.update_shard_metadata(shard_id, metadata, expected_generation).await
    }
}

// ------------------------------------------------------------------ cases ----
#[derive(Clone, Debug, Serialize, Deserialize, PartialEq)]
struct Scenario {
    flush_rows: usize,
    flush_bytes: usize,
    max_bytes: usize,
    max_segment: usize,
    writers: Vec<Vec<BatchSpec>>,
}

#[derive(Clone, Copy, Debug, PartialEq)]
enum Fault {
    N,
    B,
    A,
}
#[derive(Clone, Copy, Debug, PartialEq)]
enum Label {
    W(usize, Fault),
    T(Fault),
    R(Fault),
    X,
    K,
    /// crash while an append is rotating: a new empty tail segment is left behind
    KR,
}

fn fch(f: Fault) -> &'static str {
    match f {
        Fault::N => "",
        Fault::B => "b",
        Fault::A => "a",
    }
}
fn show_sched(s: &[Label]) -> String {
    s.iter()
        .map(|l| match l {
            Label::W(i, f) => format!("W{}{}", i, fch(*f)),
            Label::T(f) => format!("T{}", fch(*f)),
            Label::R(f) => format!("R{}", fch(*f)),
            Label::X => "X".to_string(),
            Label::K => "K".to_string(),
            Label::KR => "Kr".to_string(),
        })
        .collect::<Vec<_>>()
        .join(" ")
}
fn parse_sched(s: &str) -> Vec<Label> {
    s.split_whitespace()
        .map(|t| {
            if t == "Kr" {
                return Label::KR;
            }
            let (body, f) = if t.len() > 1 && t.ends_with('b') {
                (&t[..t.len() - 1], Fault::B)
            } else if t.len() > 1 && t.ends_with('a') {
                (&t[..t.len() - 1], Fault::A)
            } else {
                (t, Fault::N)
            };
            match &body[..1] {
                "W" => Label::W(body[1..].parse().unwrap(), f),
                "T" => Label::T(f),
                "R" => Label::R(f),
                "X" => Label::X,
                _ => Label::K,
            }
        })
        .collect()
}
fn action(f: Fault) -> Action {
    match f {
        Fault::N => Action::Proceed,
        Fault::B => Action::FailBefore,
        Fault::A => Action::FailAfter,
    }
}

enum Plan {
    Generate(Rng),
    Replay(Vec<Label>),
}

struct Prepared {
    /// per writer, per write: batch, schema id, memory size, (WAL payload length, memory size of the
    /// batch decoded back from the payload), (row id, ts)
    batches: Vec<Vec<(RecordBatch, u64, usize, (usize, usize), Vec<(u64, i64)>)>>,
    interner: Interner,
}

/// (length of the WAL payload of `b`, get_array_memory_size of the batch ensure_wal decodes from it)
fn ipc_len(b: &RecordBatch) -> (usize, usize) {
    let mut buffer = Vec::new();
    {
        let mut w = arrow::ipc::writer::StreamWriter::try_new(&mut buffer, &b.schema()).unwrap();
        w.write(b).unwrap();
        w.finish().unwrap();
    }
    let len = buffer.len();
    let mut rsize = 0;
    if let Ok(reader) = arrow::ipc::reader::StreamReader::try_new(std::io::Cursor::new(buffer), None) {
        for x in reader.flatten() {
            rsize += x.get_array_memory_size();
        }
    }
    (len, rsize)
}

fn prepare(scn: &Scenario) -> Prepared {
    let mut interner = Interner::default();
    let mut schemas = SchemaInterner::default();
    let batches = scn
        .writers
        .iter()
        .map(|w| {
            w.iter()
                .map(|spec| {
                    let b = build_batch(spec);
                    let sid = schemas.id(&b.schema());
                    let size = b.get_array_memory_size();
                    let plen = ipc_len(&b);
                    let rows = row_keys(&b).into_iter().map(|(k, ts)| (interner.intern(&k), ts)).collect();
                    (b, sid, size, plen, rows)
                })
                .collect()
        })
        .collect();
    Prepared { batches, interner }
}

fn model_head(scn: &Scenario, p: &Prepared) -> String {
    let mut f = vec![format!("C {} {} {} {}", scn.flush_rows, scn.flush_bytes, scn.max_bytes, scn.max_segment)];
    for w in &p.batches {
        let bs: Vec<String> = w
            .iter()
            .map(|(_, sid, size, (plen, rsize), rows)| {
                format!("{}:{}:{}:{}:{}", sid, size, plen, rsize, rows.iter().map(|(id, ts)| format!("{},{}", id, ts)).collect::<Vec<_>>().join(","))
            })
            .collect();
        f.push(format!("W {}", bs.join(";")));
    }
    f.join("|")
}

// ------------------------------------------------------- durable state view ----
/// (segments in id order, each the list of complete entries (seq, payload)), flushed mark
fn read_wal_ids(dir: &std::path::Path) -> (Vec<(u64, Vec<(u64, Vec<u8>)>)>, u64) {
    let mut segs: Vec<(u64, std::path::PathBuf)> = Vec::new();
    if let Ok(rd) = std::fs::read_dir(dir) {
        for e in rd.flatten() {
            let name = e.file_name().to_string_lossy().to_string();
            if name.starts_with("segment-") && name.ends_with(".wal") {
                if let Ok(id) = name["segment-".len()..name.len() - 4].parse::<u64>() {
                    segs.push((id, e.path()));
                }
            }
        }
    }
    segs.sort();
    let mut out = Vec::new();
    for (sid, p) in segs {
        let bytes = std::fs::read(&p).unwrap_or_default();
        let mut es = Vec::new();
        let mut pos = 0usize;
        while pos + WAL_HEADER_LEN <= bytes.len() {
            let h = &bytes[pos..pos + WAL_HEADER_LEN];
            if &h[0..4] != b"CSWA" {
                break;
            }
            let seq = u64::from_le_bytes(h[6..14].try_into().unwrap());
            let len = u32::from_le_bytes(h[14..18].try_into().unwrap()) as usize;
            if pos + WAL_HEADER_LEN + len > bytes.len() {
                break;
            }
            es.push((seq, bytes[pos + WAL_HEADER_LEN..pos + WAL_HEADER_LEN + len].to_vec()));
            pos += WAL_HEADER_LEN + len;
        }
        out.push((sid, es));
    }
    let flushed = match std::fs::read(dir.join("flushed_seq")) {
        Ok(b) if b.len() == 8 => u64::from_le_bytes(b.try_into().unwrap()),
        _ => 0,
    };
    (out, flushed)
}

fn read_wal(dir: &std::path::Path) -> (Vec<Vec<(u64, Vec<u8>)>>, u64) {
    let (segs, fl) = read_wal_ids(dir);
    (segs.into_iter().map(|s| s.1).collect(), fl)
}

fn payload_rows(payload: &[u8], interner: &mut Interner) -> Vec<u64> {
    let mut ids = Vec::new();
    if let Ok(reader) = arrow::ipc::reader::StreamReader::try_new(std::io::Cursor::new(payload.to_vec()), None) {
        for b in reader.flatten() {
            for (k, _) in row_keys(&b) {
                ids.push(interner.lookup(&k));
            }
        }
    }
    ids
}

// -------------------------------------------------------------- the run ----
struct ImplOut {
    sched: Vec<Label>,
    line_tail: String,
    /// first step index at which an acknowledged row was neither in the catalog nor replayable
    first_violation: Option<(usize, String)>,
    /// first step at which the WAL handed out a sequence number that is not above every earlier one
    seq_regress: Option<(usize, String)>,
    stats: Vec<(&'static str, u64)>,
}

enum Mode {
    Down,
    Recovering(JoinHandle<(Ingester, Result<(), String>)>),
    Up(Arc<Ingester>),
}

struct Shared {
    /// per writer: index of the next write to issue
    next: Vec<usize>,
    /// per writer: write currently in progress
    in_progress: Vec<Option<usize>>,
    /// per writer: results in issue order: o (Ok) f (BufferFull) e (other error) l (lost in a crash)
    results: Vec<Vec<char>>,
}

async fn run_impl_async(scn: &Scenario, prep: &mut Prepared, plan: Plan) -> ImplOut {
    let k = scn.writers.len();
    let rid = k + 1; // recovery task
    let inner: Arc<dyn ObjectStore> = Arc::new(InMemory::new());
    let hub = Hub::new(inner.clone());
    let clients: Vec<usize> = (0..=rid).collect();
    let mut ctl = hub.attach(&clients);
    let store: Arc<dyn ObjectStore> = Arc::new(RoutedStore { handles: (0..=rid).map(|i| hub.client(i)).collect() });
    let catalog = Arc::new(LocalMetadataClient::new());
    let meta: Arc<dyn MetadataClient> = Arc::new(GateMeta { inner: catalog.clone(), gate: store.clone() });
    let wal_dir = tempfile::tempdir().expect("tempdir");
    let config = IngesterConfig {
        flush_interval: Duration::from_secs(3600),
        flush_row_count: scn.flush_rows,
        flush_size_bytes: scn.flush_bytes,
        max_buffer_size_bytes: scn.max_bytes,
        wal: WalConfig {
            wal_dir: wal_dir.path().to_path_buf(),
            max_segment_size: scn.max_segment,
            sync_mode: WalSyncMode::EveryWrite,
            enabled: true,
        },
        ..IngesterConfig::default()
    };
    // pause points -> scheduling points of the task that is currently running
    let cur = Arc::new(AtomicUsize::new(0));
    let mut aux: Vec<JoinHandle<()>> = Vec::new();
    let subs: Arc<Mutex<Vec<JoinHandle<()>>>> = Arc::new(Mutex::new(Vec::new()));
    for name in PAUSES {
        let mut rx = cardinalsin::verif_hooks::register_gate(name);
        let hubc = hub.clone();
        let curc = cur.clone();
        let subsc = subs.clone();
        aux.push(tokio::spawn(async move {
            while let Some((n, resume)) = rx.recv().await {
                let c = curc.load(Ordering::SeqCst);
                let h = hubc.client(c);
                let sub = tokio::spawn(async move {
                    let _ = h.head(&Path::from(format!("__pause/{}", n))).await;
                    let _ = resume.send(());
                });
                subsc.lock().unwrap().push(sub);
            }
        }));
    }

    let shared = Arc::new(Mutex::new(Shared { next: vec![0; k], in_progress: vec![None; k], results: vec![Vec::new(); k] }));
    let mut mode = Mode::Down;
    let mut tasks: Vec<JoinHandle<()>> = Vec::new();
    let mut token: Option<Box<dyn Fn()>> = None;
    let mut cancelled = false;
    let mut timer_done = false;

    let mut sched: Vec<Label> = Vec::new();
    let mut steps: Vec<String> = Vec::new();
    let mut first_violation: Option<(usize, String)> = None;
    let mut seq_regress: Option<(usize, String)> = None;
    let mut seen_pos: std::collections::HashSet<(u64, usize)> = std::collections::HashSet::new();
    let mut max_seq_ever = 0u64;
    let mut n_crash = 0u64;
    let mut n_fault = 0u64;
    let mut n_overlap = 0u64;
    let mut n_flush_fail = 0u64;
    let (mut rng, replay): (Option<Rng>, Option<Vec<Label>>) = match plan {
        Plan::Generate(r) => (Some(r), None),
        Plan::Replay(v) => (None, Some(v)),
    };
    let mut replay_pos = 0usize;
    let max_crashes = rng.as_mut().map(|r| r.below(3)).unwrap_or(0);
    let max_faults = rng.as_mut().map(|r| r.below(3)).unwrap_or(0);
    let mut forced: Option<Label> = Some(Label::R(Fault::N));

    loop {
        let parked = |ctl: &Controller, c: usize| ctl.has_pending(c);
        let label = if let Some(l) = forced.take() {
            l
        } else if let Some(v) = &replay {
            if replay_pos >= v.len() {
                break;
            }
            replay_pos += 1;
            v[replay_pos - 1]
        } else {
            let rng = rng.as_mut().unwrap();
            if sched.len() > 600 {
                break;
            }
            match &mode {
                Mode::Down => Label::R(Fault::N),
                Mode::Recovering(_) => {
                    if n_crash < max_crashes && rng.chance(1, 12) {
                        if rng.chance(1, 3) { Label::KR } else { Label::K }
                    } else {
                        Label::R(pick_fault(rng, &ctl, rid, &mut n_fault, max_faults))
                    }
                }
                Mode::Up(_) => {
                    let live: Vec<usize> = (0..k).filter(|i| parked(&ctl, *i)).collect();
                    let timer_parked = parked(&ctl, k);
                    if live.is_empty() && !timer_parked {
                        if !cancelled {
                            Label::X
                        } else {
                            break;
                        }
                    } else if n_crash < max_crashes && rng.chance(1, 25) {
                        if rng.chance(1, 3) { Label::KR } else { Label::K }
                    } else if timer_parked && (live.is_empty() || rng.chance(1, 3)) {
                        Label::T(pick_fault(rng, &ctl, k, &mut n_fault, max_faults))
                    } else if !cancelled && !live.is_empty() && rng.chance(1, 40) {
                        Label::X
                    } else {
                        let i = *rng.pick(&live);
                        Label::W(i, pick_fault(rng, &ctl, i, &mut n_fault, max_faults))
                    }
                }
            }
        };

        let in_flush = |ctl: &Controller, c: usize| {
            ctl.peek(c).map(|r| r.verb == "PUT" || r.path.contains("ingest.flush")).unwrap_or(false)
        };
        let executed = match label {
            Label::W(i, f) => match &mode {
                Mode::Up(_) if i < k && ctl.has_pending(i) => {
                    if (0..=k).any(|c| c != i && in_flush(&ctl, c)) {
                        n_overlap += 1;
                    }
                    if f != Fault::N && ctl.peek(i).map(|r| r.verb == "PUT").unwrap_or(false) {
                        n_flush_fail += 1;
                    }
                    cur.store(i, Ordering::SeqCst);
                    ctl.step(i, action(f)).await;
                    if !ctl.has_pending(i) {
                        let _ = ctl.take_note(i);
                    }
                    true
                }
                _ => false,
            },
            Label::T(f) => match &mode {
                Mode::Up(_) if ctl.has_pending(k) => {
                    if f != Fault::N && ctl.peek(k).map(|r| r.verb == "PUT").unwrap_or(false) {
                        n_flush_fail += 1;
                    }
                    cur.store(k, Ordering::SeqCst);
                    ctl.step(k, action(f)).await;
                    if !ctl.has_pending(k) && ctl.take_note(k).is_some() {
                        timer_done = true;
                    }
                    true
                }
                _ => false,
            },
            Label::X => match &mode {
                Mode::Up(_) if !cancelled && !timer_done && !ctl.has_pending(k) => {
                    cancelled = true;
                    cur.store(k, Ordering::SeqCst);
                    if let Some(t) = &token {
                        t();
                    }
                    if ctl.wait_for(k).await.is_none() && ctl.take_note(k).is_some() {
                        timer_done = true;
                    }
                    true
                }
                _ => false,
            },
            Label::K | Label::KR => match &mode {
                Mode::Down => false,
                _ => {
                    n_crash += 1;
                    // the process dies: every task is dropped at its park point
                    for h in tasks.drain(..) {
                        h.abort();
                        let _ = h.await;
                    }
                    if let Mode::Recovering(h) = std::mem::replace(&mut mode, Mode::Down) {
                        h.abort();
                        let _ = h.await;
                    }
                    // only now the parked pause points (they hold the resume handles of dead tasks)
                    let subs_now: Vec<JoinHandle<()>> = subs.lock().unwrap().drain(..).collect();
                    for h in subs_now {
                        h.abort();
                        let _ = h.await;
                    }
                    mode = Mode::Down;
                    ctl.release_all();
                    for c in 0..=rid {
                        while ctl.take_note(c).is_some() {}
                    }
                    token = None;
                    cancelled = false;
                    timer_done = false;
                    {
                        let mut sh = shared.lock().unwrap();
                        for i in 0..k {
                            if sh.in_progress[i].take().is_some() {
                                sh.results[i].push('l');
                            }
                        }
                    }
                    if label == Label::KR {
                        // the dying process had just rotated: a new, empty segment file exists
                        let (segs, _) = read_wal_ids(wal_dir.path());
                        let next = segs.iter().map(|s| s.0).max().unwrap_or(0) + 1;
                        let _ = std::fs::write(wal_dir.path().join(format!("segment-{:06}.wal", next)), b"");
                    }
                    true
                }
            },
            Label::R(f) => {
                match std::mem::replace(&mut mode, Mode::Down) {
                    Mode::Up(ing) => {
                        mode = Mode::Up(ing);
                        false
                    }
                    Mode::Down => {
                        // restart: a new Ingester on the same WAL dir, catalog and object store
                        let ing = Ingester::new(
                            config.clone(),
                            store.clone(),
                            meta.clone(),
                            cardinalsin::StorageConfig::default(),
                            cardinalsin::schema::MetricSchema::default_metrics(),
                        );
                        let hubc = hub.clone();
                        cur.store(rid, Ordering::SeqCst);
                        let h = tokio::spawn(TASK.scope(rid, async move {
                            let mut ing = ing;
                            let r = ing.ensure_wal().await.map_err(|e| format!("{:?}", e));
                            hubc.note(rid, "done".to_string());
                            (ing, r)
                        }));
                        let _ = ctl.wait_for(rid).await;
                        mode = Mode::Recovering(h);
                        true
                    }
                    Mode::Recovering(h) => {
                        if ctl.has_pending(rid) {
                            if f != Fault::N && ctl.peek(rid).map(|r| r.verb == "PUT").unwrap_or(false) {
                                n_flush_fail += 1;
                            }
                            cur.store(rid, Ordering::SeqCst);
                            ctl.step(rid, action(f)).await;
                        }
                        mode = Mode::Recovering(h);
                        true
                    }
                }
            }
        };
        // a finished recovery task brings the process up (or leaves it down on error)
        if let Mode::Recovering(_) = &mode {
            if !ctl.has_pending(rid) && ctl.take_note(rid).is_some() {
                if let Mode::Recovering(h) = std::mem::replace(&mut mode, Mode::Down) {
                    match h.await {
                        Ok((ing, Ok(()))) => {
                            let ing = Arc::new(ing);
                            let tk = ing.shutdown_token();
                            token = Some(Box::new(move || tk.cancel()));
                            for i in 0..k {
                                let ingc = ing.clone();
                                let hubc = hub.clone();
                                let gate = hub.client(i);
                                let sh = shared.clone();
                                let from = sh.lock().unwrap().next[i];
                                let batches: Vec<RecordBatch> = prep.batches[i][from..].iter().map(|b| b.0.clone()).collect();
                                tasks.push(tokio::spawn(TASK.scope(i, async move {
                                    for (j, b) in batches.into_iter().enumerate() {
                                        let _ = gate.head(&Path::from(format!("__sched/w{}", i))).await;
                                        {
                                            let mut s = sh.lock().unwrap();
                                            s.next[i] = from + j + 1;
                                            s.in_progress[i] = Some(from + j);
                                        }
                                        let r = ingc.write(b).await;
                                        let ch = match &r {
                                            Ok(()) => 'o',
                                            Err(cardinalsin::Error::BufferFull) => 'f',
                                            Err(_) => 'e',
                                        };
                                        let mut s = sh.lock().unwrap();
                                        s.in_progress[i] = None;
                                        s.results[i].push(ch);
                                    }
                                    hubc.note(i, "done".to_string());
                                })));
                            }
                            {
                                let ingc = ing.clone();
                                let hubc = hub.clone();
                                tasks.push(tokio::spawn(TASK.scope(k, async move {
                                    ingc.run_flush_timer().await;
                                    hubc.note(k, "done".to_string());
                                })));
                            }
                            for i in 0..k {
                                cur.store(i, Ordering::SeqCst);
                                if ctl.wait_for(i).await.is_none() {
                                    let _ = ctl.take_note(i);
                                }
                            }
                            // let the timer task consume its immediate first tick and reach its select
                            for _ in 0..20 {
                                tokio::task::yield_now().await;
                            }
                            mode = Mode::Up(ing);
                        }
                        Ok((ing, Err(_))) => {
                            drop(ing);
                            mode = Mode::Down;
                        }
                        Err(_) => mode = Mode::Down,
                    }
                }
            }
        }
        if !executed {
            continue;
        }
        sched.push(label);

        // ---- observe: volatile stats (when up), durable state, the property ----
        let (segs_ids, flushed) = read_wal_ids(wal_dir.path());
        {
            let before = max_seq_ever;
            for (sid, es) in &segs_ids {
                for (idx, (seq, _)) in es.iter().enumerate() {
                    if seen_pos.insert((*sid, idx)) {
                        if *seq <= before && seq_regress.is_none() {
                            seq_regress = Some((
                                sched.len() - 1,
                                format!("the WAL handed out sequence number {} although {} had been handed out before (flushed mark on disk {})", seq, before, flushed),
                            ));
                        }
                        max_seq_ever = max_seq_ever.max(*seq);
                    }
                }
            }
        }
        let segs: Vec<Vec<(u64, Vec<u8>)>> = segs_ids.into_iter().map(|s| s.1).collect();
        let entries = catalog.list_chunks().await.unwrap_or_default();
        let vol = match &mode {
            Mode::Up(ing) => {
                let st = ing.buffer_stats().await;
                format!("U,{},{},{}", st.row_count, st.size_bytes, st.batch_count)
            }
            Mode::Recovering(_) => "R".to_string(),
            Mode::Down => "D".to_string(),
        };
        let wal_text: String = segs
            .iter()
            .map(|s| format!("[{}]", s.iter().map(|e| e.0.to_string()).collect::<Vec<_>>().join(",")))
            .collect();
        // Durable, on the implementation's durable state
        let mut have: BTreeSet<u64> = BTreeSet::new();
        for e in &entries {
            if let Ok(g) = inner.get(&Path::from(e.chunk_path.clone())).await {
                if let Ok(bytes) = g.bytes().await {
                    if let Ok(bs) = decode_parquet(bytes) {
                        for b in &bs {
                            for (key, _) in row_keys(b) {
                                have.insert(prep.interner.lookup(&key));
                            }
                        }
                    }
                }
            }
        }
        for s in &segs {
            for (seq, payload) in s {
                if *seq > flushed {
                    for id in payload_rows(payload, &mut prep.interner) {
                        have.insert(id);
                    }
                }
            }
        }
        let mut lost: Vec<u64> = Vec::new();
        {
            let sh = shared.lock().unwrap();
            for i in 0..k {
                for (j, r) in sh.results[i].iter().enumerate() {
                    if *r == 'o' {
                        for (id, _) in &prep.batches[i][j].4 {
                            if !have.contains(id) {
                                lost.push(*id);
                            }
                        }
                    }
                }
            }
        }
        let durable = lost.is_empty();
        if !durable && first_violation.is_none() {
            first_violation = Some((
                sched.len() - 1,
                format!("rows {:?} of acknowledged writes are neither in a catalog chunk nor in a WAL entry newer than the flushed mark {}", lost, flushed),
            ));
        }
        steps.push(format!("{},{},{},{},{}", vol, entries.len(), flushed, wal_text, durable as u8));
    }

    // ---- final observables ----
    let res_text: Vec<String> = shared.lock().unwrap().results.iter().map(|w| w.iter().map(|c| c.to_string()).collect::<Vec<_>>().join(",")).collect();
    let entries = catalog.list_chunks().await.unwrap_or_default();
    let mut cat_text = Vec::new();
    for e in &entries {
        let mut ids = Vec::new();
        if let Ok(g) = inner.get(&Path::from(e.chunk_path.clone())).await {
            if let Ok(bytes) = g.bytes().await {
                if let Ok(bs) = decode_parquet(bytes) {
                    for b in &bs {
                        for (key, _) in row_keys(b) {
                            ids.push(prep.interner.lookup(&key));
                        }
                    }
                }
            }
        }
        cat_text.push(ids.iter().map(|i| i.to_string()).collect::<Vec<_>>().join("."));
    }
    cat_text.sort();
    let line_tail = format!("steps={}|res={}|cat={}", steps.join("/"), res_text.join("/"), cat_text.join(";"));

    for h in tasks.drain(..) {
        h.abort();
    }
    for h in subs.lock().unwrap().drain(..) {
        h.abort();
    }
    for h in aux {
        h.abort();
    }
    if let Mode::Recovering(h) = mode {
        h.abort();
    }
    for name in PAUSES {
        cardinalsin::verif_hooks::clear_gate(name);
    }
    hub.detach();
    ImplOut {
        sched,
        line_tail,
        first_violation,
        seq_regress,
        stats: vec![("crashes", n_crash), ("faults", n_fault), ("overlapped_steps", n_overlap), ("failed_flush_requests", n_flush_fail)],
    }
}

fn pick_fault(rng: &mut Rng, ctl: &Controller, c: usize, n_fault: &mut u64, max_faults: u64) -> Fault {
    let at_request = ctl.peek(c).map(|r| r.verb == "PUT").unwrap_or(false);
    if at_request && *n_fault < max_faults && rng.chance(1, 4) {
        *n_fault += 1;
        if rng.chance(1, 2) {
            Fault::B
        } else {
            Fault::A
        }
    } else {
        Fault::N
    }
}

fn run_impl(scn: &Scenario, plan: Plan) -> (String, ImplOut) {
    let rt = tokio::runtime::Builder::new_current_thread().enable_all().build().unwrap();
    let mut prep = prepare(scn);
    let head = model_head(scn, &prep);
    let out = rt.block_on(run_impl_async(scn, &mut prep, plan));
    (head, out)
}

fn gen_scenario(rng: &mut Rng, report: &mut Report) -> Scenario {
    let k = rng.range_usize(1, 3);
    let (base, base_name) = gen_base(rng);
    report.bump(base_name);
    let nkinds = *rng.pick(&[1usize, 1, 2, 2, 3]);
    let kinds: Vec<u8> = {
        let mut all = vec![0u8, 1, 2, 3];
        for i in (1..4).rev() {
            all.swap(i, rng.below(i as u64 + 1) as usize);
        }
        all.truncate(nkinds);
        all
    };
    let max_rows = *rng.pick(&[1usize, 2, 4]);
    let variant_pair: u8 = if rng.chance(1, 4) { *rng.pick(&[1u8, 4, 2, 3]) } else { 0 };
    let writers: Vec<Vec<BatchSpec>> = (0..k)
        .map(|_| {
            let n = rng.range_usize(1, 4);
            (0..n)
                .map(|_| {
                    let kind = *rng.pick(&kinds);
                    // one scenario in four mixes schemas that differ only in nullability / metadata
                    let variant = if variant_pair > 0 && rng.chance(1, 2) { variant_pair } else { 0 };
                    gen_batch_v(rng, kind, variant, base, max_rows)
                })
                .collect()
        })
        .collect();
    let sizes: Vec<usize> = writers.iter().flatten().map(|s| build_batch(s).get_array_memory_size()).collect();
    let wal_sizes: Vec<usize> = writers.iter().flatten().map(|s| ipc_len(&build_batch(s)).0 + WAL_HEADER_LEN).collect();
    let avg = (sizes.iter().sum::<usize>() / sizes.len().max(1)).max(1);
    let wavg = (wal_sizes.iter().sum::<usize>() / wal_sizes.len().max(1)).max(1);
    let total_rows: usize = writers.iter().flatten().map(|b| b.rows.len()).sum();
    let flush_rows = match rng.below(4) {
        0 => 1,
        1 => 1_000_000,
        _ => rng.range_usize(1, total_rows.max(1)),
    };
    let flush_bytes = if rng.chance(1, 4) { avg * rng.range_usize(1, 3) } else { 100 * 1024 * 1024 };
    let max_bytes = if rng.chance(1, 8) { avg * rng.range_usize(1, 3) } else { 512 * 1024 * 1024 };
    let max_segment = match rng.below(4) {
        0 => 64 * 1024 * 1024,
        1 => 1, // every entry is larger: rotation before every append
        _ => wavg * rng.range_usize(1, 3) + rng.range_usize(0, wavg),
    };
    Scenario { flush_rows, flush_bytes, max_bytes, max_segment, writers }
}

/// witnesses of the two known classes (they also are the Coq `C01_refuted_*` schedules) and
/// crash-restart-crash cases
fn corpus() -> Vec<(&'static str, Scenario, Vec<Label>)> {
    let row = |ts: i64, m: u8| RowSpec { ts, metric: Some(m), fval: Some(2.5f64.to_bits()), ival: Some(7), host: Some(1), region: None };
    let b = |kind: u8, tss: &[i64]| BatchSpec { kind, variant: 0, rows: tss.iter().enumerate().map(|(i, t)| row(*t, i as u8 % 3)).collect() };
    let big = 1usize << 40;
    vec![
        // K1: writer 0's threshold flush is parked at its PUT; writer 1's write is WAL-appended (seq 2),
        // buffered and acknowledged; the flush then reads last_wal_seq = 2 and persists it; crash
        (
            "k1-inflight-ack",
            Scenario { flush_rows: 2, flush_bytes: big, max_bytes: big, max_segment: 1, writers: vec![vec![b(0, &[1, 2])], vec![b(0, &[3])]] },
            parse_sched("W0 W0 W0 W1 W1 W1 W0 W0 W0 W0 W0 W0 K R"),
        ),
        // K2: the flush of [w0.1, w0.2] fails at its PUT (batches dropped, w0.1 was acknowledged);
        // a later flush of another batch persists a mark beyond them; crash
        (
            "k2-failed-flush",
            Scenario { flush_rows: 2, flush_bytes: big, max_bytes: big, max_segment: 1, writers: vec![vec![b(0, &[1]), b(0, &[2]), b(0, &[3, 4])]] },
            parse_sched("W0 W0 W0 W0 W0 W0 W0b W0 W0 W0 W0 W0 W0 W0 W0 W0 K R"),
        ),
        // a zero-row batch is acknowledged without a WAL entry; crash and recovery around it
        (
            "zero-row-write",
            Scenario { flush_rows: 3, flush_bytes: big, max_bytes: big, max_segment: 64 << 20, writers: vec![vec![b(0, &[1]), b(0, &[]), b(0, &[2, 3])]] },
            parse_sched("W0 W0 W0 W0 K R W0 W0 W0 W0 W0 W0 W0 W0 W0 W0 X"),
        ),
        // the segment holding the entry AT the mark must survive the flush's truncation: crash while
        // rotating (empty tail segment), restart, write-less shutdown flush, crash between truncate and
        // persist, restart, write — with `truncate_before(mark + 1)` the log is empty and seq 1 is re-issued
        (
            "truncate-keeps-mark-entry",
            Scenario { flush_rows: 100, flush_bytes: big, max_bytes: big, max_segment: 1, writers: vec![vec![b(0, &[1]), b(0, &[2])]] },
            parse_sched("W0 W0 W0 Kr R X T T T T K R W0 W0 W0"),
        ),
        // a second writer has logged seq 2 (not stored yet) when writer 0's flush truncates with mark 1:
        // segment [1] is closed and must still be there right after the truncation
        (
            "truncate-bound-visible",
            Scenario { flush_rows: 2, flush_bytes: big, max_bytes: big, max_segment: 1, writers: vec![vec![b(0, &[1, 2])], vec![b(0, &[3])]] },
            parse_sched("W0 W0 W0 W1 W0 W0 W0 W0 K R"),
        ),
        // crash between register and persist, restart, crash during recovery, restart: duplicates, no loss
        (
            "crash-restart-crash",
            Scenario { flush_rows: 2, flush_bytes: big, max_bytes: big, max_segment: 1, writers: vec![vec![b(0, &[1]), b(1, &[2]), b(0, &[3])]] },
            parse_sched("W0 W0 W0 W0 W0 W0 W0 W0 K R R K R R R R R R R W0 W0 W0 X T T T T T T"),
        ),
    ]
}

fn main() {
    let args = Args::parse();
    csv_common::quiet_panics();
    let mut model = Model::spawn(&args.model);
    let mut report = Report::new("C01");

    if let Some(path) = &args.replay {
        let txt = std::fs::read_to_string(path).expect("replay file");
        let v: serde_json::Value = serde_json::from_str(&txt).expect("replay json");
        let case = if v.get("case").is_some() { v["case"].clone() } else { v.clone() };
        let scn: Scenario = serde_json::from_value(case["scenario"].clone()).expect("scenario");
        let sched = parse_sched(case["sched"].as_str().unwrap_or(""));
        let (head, out) = run_impl(&scn, Plan::Replay(sched));
        let line = format!("{}|S {}", head, show_sched(&out.sched));
        let m = model.ask(&line);
        let (mtail, class) = split_class(&m);
        println!("case : {}\nimpl : {}\nmodel: {}\nclass: {}\nviolation: {:?}\nsequence regress: {:?}", line, out.line_tail, mtail, class, out.first_violation, out.seq_regress);
        std::process::exit(if out.first_violation.is_none() && out.seq_regress.is_none() && (model.is_null() || mtail == out.line_tail) { 0 } else { 1 });
    }

    let n_random = if args.get("corpus-only").is_some() { 0 } else if args.thorough() { 8000 } else { 300 };
    let mut rng = Rng::new(args.seed);
    let mut cases: Vec<(String, Scenario, Plan)> =
        corpus().into_iter().map(|(n, s, l)| (format!("corpus.{}", n), s, Plan::Replay(l))).collect();
    for _ in 0..n_random {
        let mut r = rng.fork();
        let scn = gen_scenario(&mut r, &mut report);
        cases.push(("random".to_string(), scn, Plan::Generate(r.fork())));
    }

    let mut shrunk_per_class: std::collections::BTreeMap<String, u32> = std::collections::BTreeMap::new();
    let verbose = args.get("verbose").is_some();
    let limit: usize = args.get("limit").and_then(|s| s.parse().ok()).unwrap_or(usize::MAX);
    let t_all = std::time::Instant::now();
    // bounds: the run always ends well inside the check's timeout and the report is
    // written after every finding
    let wall_budget: u64 = args.get("budget-secs").and_then(|s| s.parse().ok()).unwrap_or(if args.thorough() { 4800 } else { 540 });
    const MAX_DISAGREEMENTS: usize = 10;
    const MAX_UNCLASSIFIED: u32 = 10;
    let mut n_disagreements = 0usize;
    let mut n_unclassified = 0u32;
    let total_cases = cases.len();
    for (ci, (origin, scn, plan)) in cases.into_iter().enumerate() {
        if ci >= limit {
            break;
        }
        if n_disagreements >= MAX_DISAGREEMENTS || n_unclassified >= MAX_UNCLASSIFIED {
            report.notes.push(format!("stopped after case {} of {}: {} disagreements, {} unclassified violations", ci, total_cases, n_disagreements, n_unclassified));
            break;
        }
        if t_all.elapsed().as_secs() > wall_budget {
            report.notes.push(format!("stopped after case {} of {}: wall budget of {} s used up", ci, total_cases, wall_budget));
            break;
        }
        let t0 = std::time::Instant::now();
        let (head, out) = run_impl(&scn, plan);
        report.impl_runs += 1;
        let line = format!("{}|S {}", head, show_sched(&out.sched));
        if verbose {
            eprintln!("case {} {} steps={} {:?} total {:?}", ci, origin, out.sched.len(), t0.elapsed(), t_all.elapsed());
        }
        let crashes = out.stats.iter().find(|s| s.0 == "crashes").map(|s| s.1).unwrap_or(0);
        let overl = out.stats.iter().find(|s| s.0 == "overlapped_steps").map(|s| s.1).unwrap_or(0);
        let ffail = out.stats.iter().find(|s| s.0 == "failed_flush_requests").map(|s| s.1).unwrap_or(0);
        let has_ok = out.line_tail.split('|').any(|f| f.starts_with("res=") && f.contains('o'));
        let nontrivial = has_ok && (crashes > 0 || overl > 0 || ffail > 0);
        report.case(if nontrivial { Some(&line) } else { None });
        report.bump(&format!("origin.{}", origin));
        report.bump(&format!("writers.{}", scn.writers.len()));
        for (k, v) in &out.stats {
            report.bump_by(k, *v);
        }
        report.bump(&format!("crashes_in_run.{}", crashes.min(3)));
        let m = model.ask(&line);
        let (mtail, class) = split_class(&m);
        let differs = !model.is_null() && mtail != out.line_tail;
        report.sample(json!({"case": line, "impl": out.line_tail, "model": mtail, "class": class}));
        report.bump(&format!("class.{}", if class.is_empty() { "none" } else { &class }));
        let case_json = |s: &Scenario, l: &[Label]| json!({"scenario": s, "sched": show_sched(l)});
        let mut dirty = false;
        if differs {
            n_disagreements += 1;
            dirty = true;
            // shrink to the first differing step, then delta-debug within a budget
            let first_diff = first_step_diff(&out.line_tail, &mtail).min(out.sched.len().saturating_sub(1));
            let prefix: Vec<Label> = out.sched[..=first_diff].to_vec();
            let mut budget = Budget::new(120, 20);
            let shrunk = ddmin(&prefix, &mut |cand: &[Label]| {
                if !budget.take() {
                    return false;
                }
                let (h, o) = run_impl(&scn, Plan::Replay(cand.to_vec()));
                let l = format!("{}|S {}", h, show_sched(&o.sched));
                let mm = model.ask(&l);
                split_class(&mm).0 != o.line_tail
            });
            let (h, o) = run_impl(&scn, Plan::Replay(shrunk));
            let sl = format!("{}|S {}", h, show_sched(&o.sched));
            let sm = split_class(&model.ask(&sl)).0;
            let (scase, simpl, smodel) = if sm != o.line_tail { (case_json(&scn, &o.sched), o.line_tail.clone(), sm) } else { (case_json(&scn, &prefix), out.line_tail.clone(), mtail.clone()) };
            report.disagreement(json!({
                "correspondence": "durable ingest model (Model/IngestDur.v) vs Ingester with WAL over SchedStore + gated LocalMetadataClient",
                "case": case_json(&scn, &out.sched), "impl": out.line_tail, "model": mtail,
                "first_differing_step": first_diff,
                "shrunk": scase, "shrunk_line": sl, "shrunk_impl": simpl, "shrunk_model": smodel,
                "oracle_failed": out.first_violation.is_some() || out.seq_regress.is_some(),
            }));
        }
        if let Some((at, what)) = &out.seq_regress {
            // never a known class
            report.bump("seq_regress_runs");
            n_unclassified += 1;
            dirty = true;
            let prefix: Vec<Label> = out.sched[..=*at].to_vec();
            let mut budget = Budget::new(120, 20);
            let shrunk = ddmin(&prefix, &mut |cand: &[Label]| budget.take() && run_impl(&scn, Plan::Replay(cand.to_vec())).1.seq_regress.is_some());
            let (_, o) = run_impl(&scn, Plan::Replay(shrunk));
            match &o.seq_regress {
                Some((at2, w)) => report.oracle_violation("", &format!("{} [{}]", w, origin), case_json(&scn, &o.sched[..=*at2])),
                None => report.oracle_violation("", &format!("{} [{}]", what, origin), case_json(&scn, &prefix)),
            }
        }
        if let Some((at, what)) = &out.first_violation {
            report.bump("violating_runs");
            // the class of the failing prefix, by the extracted classifier
            let prefix: Vec<Label> = out.sched[..=*at].to_vec();
            let pl = format!("{}|S {}", head, show_sched(&prefix));
            let pclass = split_class(&model.ask(&pl)).1;
            let cname = |cl: &str| match cl {
                "K1" => "inflight-ack",
                "K2" => "failed-flush",
                _ => "",
            };
            if pclass.is_empty() {
                n_unclassified += 1;
            }
            let seen = shrunk_per_class.entry(pclass.clone()).or_insert(0u32);
            if *seen < 2 || pclass.is_empty() {
                *seen += 1;
                dirty = true;
                let mut budget = Budget::new(120, 20);
                let shrunk = ddmin(&prefix, &mut |cand: &[Label]| budget.take() && run_impl(&scn, Plan::Replay(cand.to_vec())).1.first_violation.is_some());
                let (h, o) = run_impl(&scn, Plan::Replay(shrunk));
                match &o.first_violation {
                    Some((at2, w)) => {
                        let p2: Vec<Label> = o.sched[..=*at2].to_vec();
                        let l = format!("{}|S {}", h, show_sched(&p2));
                        let cl = split_class(&model.ask(&l)).1;
                        report.oracle_violation(cname(&cl), &format!("{} [{}]", w, origin), case_json(&scn, &p2));
                    }
                    None => report.oracle_violation(cname(&pclass), &format!("{} [{}]", what, origin), case_json(&scn, &prefix)),
                }
            } else if *seen < 6 {
                // further runs of a known class: recorded unshrunk (a few), counted in the histogram
                *seen += 1;
                report.oracle_violation(cname(&pclass), &format!("{} [{}]", what, origin), case_json(&scn, &prefix));
            }
            report.bump(&format!("violating_class.{}", if pclass.is_empty() { "unclassified" } else { &pclass }));
        }
        if dirty || ci % 25 == 24 {
            report.write(&args.out);
        }
    }
    report.notes.push(format!("model calls: {}; wall {} s", model.calls, t_all.elapsed().as_secs()));
    report.write(&args.out);
}

/// index of the first step whose observation differs between two `steps=a/b/c|...` lines
fn first_step_diff(a: &str, b: &str) -> usize {
    let steps = |l: &str| -> Vec<String> {
        l.split('|').find(|f| f.starts_with("steps=")).map(|f| f[6..].split('/').map(|x| x.to_string()).collect()).unwrap_or_default()
    };
    let (x, y) = (steps(a), steps(b));
    for i in 0..x.len().max(y.len()) {
        if x.get(i) != y.get(i) {
            return i;
        }
    }
    x.len().saturating_sub(1)
}

/// the model's answer carries the classifier verdict in a trailing `|class=..` field
fn split_class(m: &str) -> (String, String) {
    match m.rfind("|class=") {
        Some(p) => (m[..p].to_string(), m[p + 7..].to_string()),
        None => (m.to_string(), String::new()),
    }
}
