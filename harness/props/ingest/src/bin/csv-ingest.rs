//! csv-ingest — correspondence + oracle for C06 (fault-free ingest stores each
//! accepted row exactly once, with exact metadata).
//!
//! A real `Ingester` (WAL disabled) runs over task-routed `SchedStore` handles
//! and a `LocalMetadataClient`.  1–4 writer tasks and the flush-timer task are
//! released one park point at a time (before every write; at every chunk PUT)
//! by a generated schedule; the clock is tokio's paused clock.  The extracted
//! Coq model (Model/Ingest.v, `macro` steps) runs the same schedule.  Compared
//! after every label: buffer rows / bytes / batch count and catalog size; at
//! the end: write results, every listed chunk (decoded Parquet rows + the
//! TimeIndexEntry's count/min/max), both broadcast receipt sequences.
//! Oracle (implementation only): multiset of decoded rows == multiset of rows
//! of the Ok writes (after the final flush), each entry's row_count / min / max
//! / size_bytes true, each chunk announced exactly once on both channels.
use arrow_array::RecordBatch;
use cardinalsin::ingester::{Ingester, IngesterConfig, TopicFilter, WalConfig};
use cardinalsin::metadata::{LocalMetadataClient, MetadataClient};
use csv_common::sched::{Action, Controller, Hub};
use csv_common::{ddmin, Args, Model, Report, Rng};
use csv_ingest::*;
use object_store::memory::InMemory;
use object_store::path::Path;
use object_store::ObjectStore;
use serde::{Deserialize, Serialize};
use serde_json::json;
use std::collections::BTreeMap;
use std::sync::{Arc, Mutex};
use std::time::Duration;

const INTERVAL_MS: u64 = 1000;

#[derive(Clone, Debug, Serialize, Deserialize, PartialEq)]
struct Scenario {
    flush_rows: usize,
    flush_bytes: usize,
    max_bytes: usize,
    writers: Vec<Vec<BatchSpec>>,
}

#[derive(Clone, Copy, Debug, PartialEq)]
enum Label {
    W(usize),
    T,
    A(u64),
    X,
}

fn show_sched(s: &[Label]) -> String {
    s.iter()
        .map(|l| match l {
            Label::W(i) => format!("W{}", i),
            Label::T => "T".to_string(),
            Label::A(d) => format!("A{}", d),
            Label::X => "X".to_string(),
        })
        .collect::<Vec<_>>()
        .join(" ")
}
fn parse_sched(s: &str) -> Vec<Label> {
    s.split_whitespace()
        .map(|t| match &t[..1] {
            "W" => Label::W(t[1..].parse().unwrap()),
            "A" => Label::A(t[1..].parse().unwrap()),
            "X" => Label::X,
            _ => Label::T,
        })
        .collect()
}

enum Plan {
    Generate(Rng),
    Replay(Vec<Label>),
}

#[derive(Default, Clone)]
struct Stats {
    overlap: u64,        // a label executed while another task was parked inside a flush
    schema_flush: u64,   // PUTs issued by a writer that still had its batch pending (schema change)
    timer_flush: u64,
    rejected: u64,
    chunks: u64,
}

struct ImplOut {
    sched: Vec<Label>,
    line_tail: String, // steps=..|res=..|cat=..|ann=..|tann=..|q=..
    oracle: Vec<String>,
    stats: Stats,
}

struct Prepared {
    batches: Vec<Vec<(RecordBatch, u64, usize, Vec<(u64, i64)>)>>, // batch, schema id, mem size, (row id, ts)
    interner: Interner,
}

fn prepare(scn: &Scenario) -> Prepared {
    let mut interner = Interner::default();
    let mut schemas = SchemaInterner::default();
    let batches = scn
        .writers
        .iter()
        .map(|w| {
            w.iter()
                .map(|spec| {
                    let b = build_batch(spec);
                    let sid = schemas.id(&b.schema());
                    let size = b.get_array_memory_size();
                    let rows = row_keys(&b).into_iter().map(|(k, ts)| (interner.intern(&k), ts)).collect();
                    (b, sid, size, rows)
                })
                .collect()
        })
        .collect();
    Prepared { batches, interner }
}

fn model_head(scn: &Scenario, p: &Prepared) -> String {
    let mut f = vec![format!("C {} {} {} {}", scn.flush_rows, scn.flush_bytes, scn.max_bytes, INTERVAL_MS)];
    for w in &p.batches {
        let bs: Vec<String> = w
            .iter()
            .map(|(_, sid, size, rows)| {
                format!("{}:{}:{}", sid, size, rows.iter().map(|(id, ts)| format!("{},{}", id, ts)).collect::<Vec<_>>().join(","))
            })
            .collect();
        f.push(format!("W {}", bs.join(";")));
    }
    f.join("|")
}

fn chunk_text(count: u64, min: i64, max: i64, ids: &[u64]) -> String {
    format!("{}:{}:{}:{}", count, min, max, ids.iter().map(|i| i.to_string()).collect::<Vec<_>>().join("."))
}

async fn yield_n(n: usize) {
    for _ in 0..n {
        tokio::task::yield_now().await;
    }
}

/// Let the timer task (client `k`) run until it parks at a PUT, ends, or goes
/// back to its select: bounded by a number of scheduler rounds, never blocking
/// (a blocked controller would let the paused clock auto-advance).
async fn settle_timer(ctl: &mut Controller, k: usize) {
    tokio::select! {
        biased;
        _ = ctl.wait_for(k) => {}
        _ = yield_n(40) => {}
    }
}

async fn release_timer(ctl: &mut Controller, k: usize) {
    tokio::select! {
        biased;
        _ = ctl.step(k, Action::Proceed) => {}
        _ = yield_n(40) => {}
    }
}

async fn run_impl_async(scn: &Scenario, prep: &mut Prepared, plan: Plan) -> ImplOut {
    let k = scn.writers.len();
    let inner: Arc<dyn ObjectStore> = Arc::new(InMemory::new());
    let hub = Hub::new(inner.clone());
    let clients: Vec<usize> = (0..=k).collect();
    let mut ctl = hub.attach(&clients);
    let store: Arc<dyn ObjectStore> = Arc::new(RoutedStore { handles: (0..=k).map(|i| hub.client(i)).collect() });
    let metadata = Arc::new(LocalMetadataClient::new());
    let config = IngesterConfig {
        flush_interval: Duration::from_millis(INTERVAL_MS),
        flush_row_count: scn.flush_rows,
        flush_size_bytes: scn.flush_bytes,
        max_buffer_size_bytes: scn.max_bytes,
        wal: WalConfig { enabled: false, ..WalConfig::default() },
        ..IngesterConfig::default()
    };
    let ingester = Arc::new(Ingester::new(
        config,
        store.clone(),
        metadata.clone() as Arc<dyn MetadataClient>,
        cardinalsin::StorageConfig::default(),
        cardinalsin::schema::MetricSchema::default_metrics(),
    ));
    let mut rx_legacy = ingester.subscribe();
    let mut rx_topic = ingester.subscribe_filtered(TopicFilter::All).await;
    let token = ingester.shutdown_token();

    let results: Arc<Mutex<Vec<Vec<Result<(), String>>>>> = Arc::new(Mutex::new(vec![Vec::new(); k]));
    let mut handles = Vec::new();
    for i in 0..k {
        let ing = ingester.clone();
        let hubc = hub.clone();
        let gate = hub.client(i);
        let res = results.clone();
        let batches: Vec<RecordBatch> = prep.batches[i].iter().map(|b| b.0.clone()).collect();
        handles.push(tokio::spawn(TASK.scope(i, async move {
            for b in batches {
                let _ = gate.head(&Path::from(format!("__sched/w{}", i))).await;
                let r = ing.write(b).await.map_err(|e| format!("{:?}", e));
                res.lock().unwrap()[i].push(r);
            }
            hubc.note(i, "done".to_string());
        })));
    }
    {
        let ing = ingester.clone();
        let hubc = hub.clone();
        handles.push(tokio::spawn(TASK.scope(k, async move {
            ing.run_flush_timer().await;
            hubc.note(k, "done".to_string());
        })));
    }
    let mut done = vec![false; k];
    for i in 0..k {
        if ctl.wait_for(i).await.is_none() && ctl.take_note(i).is_some() {
            done[i] = true;
        }
    }

    let mut stats = Stats::default();
    let mut sched: Vec<Label> = Vec::new();
    let mut steps: Vec<String> = Vec::new();
    let mut timer_stopped = false;
    let mut cancelled = false;
    let (mut rng, replay): (Option<Rng>, Option<Vec<Label>>) = match plan {
        Plan::Generate(r) => (Some(r), None),
        Plan::Replay(v) => (None, Some(v)),
    };
    let mut replay_pos = 0usize;
    // generation state
    let mut final_phase = 0u8;
    let early_shutdown = rng.as_mut().map(|r| r.chance(1, 20)).unwrap_or(false);
    let tick_final = rng.as_mut().map(|r| r.chance(1, 2)).unwrap_or(false);

    // first label: let the timer consume its immediate first tick
    let mut forced: Option<Label> = Some(Label::T);
    loop {
        let timer_busy = ctl.has_pending(k);
        let label = if let Some(l) = forced.take() {
            l
        } else if let Some(v) = &replay {
            if replay_pos >= v.len() {
                break;
            }
            replay_pos += 1;
            v[replay_pos - 1]
        } else {
            let rng = rng.as_mut().unwrap();
            if sched.len() > 400 {
                break;
            }
            let live: Vec<usize> = (0..k).filter(|i| !done[*i]).collect();
            if live.is_empty() {
                // every write has returned: final flush through the tick or the shutdown path
                if timer_busy {
                    Label::T
                } else if timer_stopped {
                    break;
                } else {
                    final_phase += 1;
                    match (final_phase, tick_final, cancelled) {
                        (1, true, false) => Label::A(INTERVAL_MS),
                        (_, _, false) => Label::X,
                        _ => break,
                    }
                }
            } else {
                let r = rng.below(100);
                if timer_busy && r < 25 {
                    Label::T
                } else if !timer_busy && !cancelled && r < 40 {
                    if early_shutdown && rng.chance(1, 6) {
                        Label::X
                    } else {
                        Label::A(*rng.pick(&[400u64, 600, 1000, 1000, 2500]))
                    }
                } else {
                    Label::W(*rng.pick(&live))
                }
            }
        };
        // execute
        let others_in_flush = (0..=k).filter(|c| ctl.peek(*c).map(|r| r.verb == "PUT").unwrap_or(false)).count();
        let executed = match label {
            Label::W(i) => {
                if i >= k || done[i] {
                    false
                } else {
                    let own = ctl.peek(i).map(|r| r.verb == "PUT").unwrap_or(false);
                    if others_in_flush > own as usize {
                        stats.overlap += 1;
                    }
                    ctl.step(i, Action::Proceed).await;
                    if !ctl.has_pending(i) && ctl.take_note(i).is_some() {
                        done[i] = true;
                    }
                    true
                }
            }
            Label::T => {
                if timer_busy {
                    release_timer(&mut ctl, k).await;
                } else if !timer_stopped {
                    settle_timer(&mut ctl, k).await;
                }
                true
            }
            Label::A(d) => {
                if timer_busy {
                    false
                } else {
                    if others_in_flush > 0 {
                        stats.overlap += 1;
                    }
                    tokio::time::advance(Duration::from_millis(d)).await;
                    if !timer_stopped {
                        settle_timer(&mut ctl, k).await;
                        if ctl.has_pending(k) {
                            stats.timer_flush += 1;
                        }
                    }
                    true
                }
            }
            Label::X => {
                if timer_busy || timer_stopped || cancelled {
                    false
                } else {
                    cancelled = true;
                    token.cancel();
                    settle_timer(&mut ctl, k).await;
                    true
                }
            }
        };
        if !timer_stopped && !ctl.has_pending(k) && ctl.take_note(k).is_some() {
            timer_stopped = true;
        }
        if executed {
            sched.push(label);
            let st = ingester.buffer_stats().await;
            let n = metadata.list_chunks().await.map(|v| v.len()).unwrap_or(usize::MAX);
            steps.push(format!("{},{},{},{}", st.row_count, st.size_bytes, st.batch_count, n));
        }
    }

    // ---- observe the final state ----
    let mut oracle = Vec::new();
    let res = results.lock().unwrap().clone();
    let res_text: Vec<String> = res
        .iter()
        .map(|w| {
            w.iter()
                .map(|r| match r {
                    Ok(()) => "o".to_string(),
                    Err(e) if e.contains("BufferFull") => "f".to_string(),
                    Err(e) => format!("E({})", e),
                })
                .collect::<Vec<_>>()
                .join(",")
        })
        .collect();
    let mut accepted: BTreeMap<u64, i64> = BTreeMap::new();
    for (i, w) in res.iter().enumerate() {
        for (j, r) in w.iter().enumerate() {
            match r {
                Ok(()) => {
                    for (id, _) in &prep.batches[i][j].3 {
                        *accepted.entry(*id).or_insert(0) += 1;
                    }
                }
                Err(e) if e.contains("BufferFull") => stats.rejected += 1,
                Err(e) => oracle.push(format!("write {}.{} failed in a fault-free run: {}", i, j, e)),
            }
        }
    }
    let entries = metadata.list_chunks().await.unwrap_or_default();
    stats.chunks = entries.len() as u64;
    let mut cat_text = Vec::new();
    let mut stored: BTreeMap<u64, i64> = BTreeMap::new();
    let mut chunk_rows: Vec<Vec<u64>> = Vec::new();
    for e in &entries {
        let bytes = match inner.get(&Path::from(e.chunk_path.clone())).await {
            Ok(g) => g.bytes().await.unwrap_or_default(),
            Err(err) => {
                oracle.push(format!("catalog lists {} but the object is missing: {}", e.chunk_path, err));
                continue;
            }
        };
        if bytes.len() as u64 != e.size_bytes {
            oracle.push(format!("size_bytes {} != object length {}", e.size_bytes, bytes.len()));
        }
        let batches = match decode_parquet(bytes) {
            Ok(b) => b,
            Err(err) => {
                oracle.push(format!("chunk does not decode: {}", err));
                continue;
            }
        };
        let mut ids = Vec::new();
        let mut tss = Vec::new();
        for b in &batches {
            for (key, ts) in row_keys(b) {
                let id = prep.interner.lookup(&key);
                if id >= 1_000_000 {
                    oracle.push(format!("stored row was never written (values changed): {}", key));
                }
                ids.push(id);
                tss.push(ts);
                *stored.entry(id).or_insert(0) += 1;
            }
        }
        if e.row_count != ids.len() as u64 {
            oracle.push(format!("row_count {} but the chunk holds {} rows", e.row_count, ids.len()));
        }
        if let (Some(mn), Some(mx)) = (tss.iter().min(), tss.iter().max()) {
            if e.min_timestamp != *mn || e.max_timestamp != *mx {
                oracle.push(format!("catalog says [{}, {}] but the rows span [{}, {}]", e.min_timestamp, e.max_timestamp, mn, mx));
            }
        }
        cat_text.push(chunk_text(e.row_count, e.min_timestamp, e.max_timestamp, &ids));
        chunk_rows.push(ids);
    }
    cat_text.sort();
    let st = ingester.buffer_stats().await;
    let in_put = |ctl: &Controller, c: usize| ctl.peek(c).map(|r| r.verb == "PUT").unwrap_or(false);
    let writers_idle = (0..k).all(|i| !in_put(&ctl, i));
    let quiescent = writers_idle && !in_put(&ctl, k) && st.batch_count == 0;
    if quiescent {
        if accepted != stored {
            oracle.push(format!("rows of Ok writes != rows in registered chunks (as multisets): accepted {:?} stored {:?}", accepted, stored));
        }
    } else {
        for (id, n) in &stored {
            if accepted.get(id).copied().unwrap_or(0) < *n && writers_idle {
                oracle.push(format!("row {} stored {} times but accepted {} times", id, n, accepted.get(id).copied().unwrap_or(0)));
            }
        }
    }
    // broadcast receipts
    let mut ann = Vec::new();
    let mut ann_rows: Vec<Vec<u64>> = Vec::new();
    while let Ok(b) = rx_legacy.try_recv() {
        let (t, ids) = receipt(&b, &mut prep.interner);
        ann.push(t);
        ann_rows.push(ids);
    }
    let mut tann = Vec::new();
    loop {
        let r = tokio::select! {
            biased;
            r = rx_topic.recv() => r.ok(),
            _ = yield_n(3) => None,
        };
        match r {
            Some(b) => tann.push(receipt(&b, &mut prep.interner).0),
            None => break,
        }
    }
    if ann != tann {
        oracle.push(format!("legacy and topic channel differ: {:?} vs {:?}", ann, tann));
    }
    if quiescent {
        let mut a = ann_rows.clone();
        let mut c = chunk_rows.clone();
        a.sort();
        c.sort();
        if a != c {
            oracle.push(format!("announcements != registered chunks: {} announcements for {} chunks", a.len(), c.len()));
        }
    }
    let line_tail = format!(
        "steps={}|res={}|cat={}|ann={}|tann={}|q={}",
        steps.join("/"),
        res_text.join("/"),
        cat_text.join(";"),
        ann.join(";"),
        tann.join(";"),
        quiescent as u8
    );
    for h in handles {
        h.abort();
    }
    hub.detach();
    ImplOut { sched, line_tail, oracle, stats }
}

fn receipt(b: &RecordBatch, interner: &mut Interner) -> (String, Vec<u64>) {
    let keys = row_keys(b);
    let ids: Vec<u64> = keys.iter().map(|(k, _)| interner.lookup(k)).collect();
    let mn = keys.iter().map(|x| x.1).min().unwrap_or(0);
    let mx = keys.iter().map(|x| x.1).max().unwrap_or(0);
    (chunk_text(ids.len() as u64, mn, mx, &ids), ids)
}

fn run_impl(scn: &Scenario, plan: Plan) -> (String, ImplOut) {
    let rt = tokio::runtime::Builder::new_current_thread().enable_all().start_paused(true).build().unwrap();
    let mut prep = prepare(scn);
    let head = model_head(scn, &prep);
    let out = rt.block_on(run_impl_async(scn, &mut prep, plan));
    (head, out)
}

fn gen_scenario(rng: &mut Rng, report: &mut Report) -> Scenario {
    let k = rng.range_usize(1, 4);
    let (base, base_name) = gen_base(rng);
    report.bump(base_name);
    // the schemas of this scenario: (column set / types, variant); "schema" is what `Schema ==`
    // sees, i.e. including per-field nullability and schema / field metadata
    let schemas: Vec<(u8, u8)> = match rng.below(10) {
        // pairs that differ ONLY in a nullability flag or ONLY in metadata (both orders arise
        // from the random write order and the interleaving)
        0..=3 => {
            let k0 = rng.below(4) as u8;
            let v = *rng.pick(&[1u8, 1, 4, 2, 3]);
            report.bump(match v {
                1 | 4 => "schemas.nullability_only_pair",
                _ => "schemas.metadata_only_pair",
            });
            let mut v = vec![(k0, 0u8), (k0, v)];
            if rng.chance(1, 4) {
                v.push(((k0 + 1) % 4, 0));
            }
            v
        }
        _ => {
            let nkinds = *rng.pick(&[1usize, 2, 2, 3, 4]);
            let mut all = vec![0u8, 1, 2, 3];
            for i in (1..4).rev() {
                all.swap(i, rng.below(i as u64 + 1) as usize);
            }
            all.truncate(nkinds);
            all.into_iter().map(|k| (k, if rng.chance(1, 6) { rng.below(5) as u8 } else { 0 })).collect()
        }
    };
    let max_rows = *rng.pick(&[1usize, 3, 6, 12]);
    let writers: Vec<Vec<BatchSpec>> = (0..k)
        .map(|_| {
            let n = rng.range_usize(1, 5);
            (0..n)
                .map(|_| {
                    let (kind, variant) = *rng.pick(&schemas);
                    gen_batch_v(rng, kind, variant, base, max_rows)
                })
                .collect()
        })
        .collect();
    // measured sizes steer the byte thresholds
    let sizes: Vec<usize> = writers.iter().flatten().map(|s| build_batch(s).get_array_memory_size()).collect();
    let avg = (sizes.iter().sum::<usize>() / sizes.len().max(1)).max(1);
    let total_rows: usize = writers.iter().flatten().map(|b| b.rows.len()).sum();
    let flush_rows = match rng.below(4) {
        0 => 1,
        1 => 1_000_000,
        _ => rng.range_usize(1, total_rows.max(1)),
    };
    let flush_bytes = match rng.below(3) {
        0 => avg * rng.range_usize(1, 3),
        _ => 100 * 1024 * 1024,
    };
    let max_bytes = match rng.below(5) {
        0 => avg * rng.range_usize(1, 3) + rng.range_usize(0, avg),
        1 => *sizes.iter().min().unwrap_or(&1),
        _ => 512 * 1024 * 1024,
    };
    Scenario { flush_rows, flush_bytes, max_bytes, writers }
}

/// minimised / proof-derived cases that always run first
fn corpus() -> Vec<(Scenario, Vec<Label>)> {
    let row = |ts: i64, m: u8| RowSpec { ts, metric: Some(m), fval: Some(1.5f64.to_bits()), ival: Some(7), host: Some(0), region: None };
    let b = |kind: u8, tss: &[i64]| BatchSpec { kind, variant: 0, rows: tss.iter().enumerate().map(|(i, t)| row(*t, i as u8 % 3)).collect() };
    let bv = |kind: u8, variant: u8, tss: &[i64], with_null: bool| BatchSpec {
        kind,
        variant,
        rows: tss
            .iter()
            .enumerate()
            .map(|(i, t)| {
                let mut r = row(*t, i as u8 % 3);
                if with_null && i == 0 {
                    r.host = None;
                }
                r
            })
            .collect(),
    };
    let big = 1usize << 40;
    vec![
        // the Coq non-vacuity example: schema change while another writer appends, tick flush, shutdown
        (
            Scenario { flush_rows: 3, flush_bytes: big, max_bytes: big, writers: vec![vec![b(0, &[5, -3]), b(1, &[7])], vec![b(0, &[9, 1]), b(1, &[2])]] },
            parse_sched("W0 W0 W1 W0 W1 W0 A1000 T X"),
        ),
        // threshold flush parked at its PUT while two other writers fill and flush the buffer again
        (
            Scenario { flush_rows: 2, flush_bytes: big, max_bytes: big, writers: vec![vec![b(0, &[1, 2])], vec![b(0, &[3])], vec![b(0, &[4])]] },
            parse_sched("W0 W1 W2 W2 W0 X"),
        ),
        // timer check passes, a writer's threshold flush takes the buffer first: the timer takes an empty buffer
        (
            Scenario { flush_rows: 2, flush_bytes: big, max_bytes: big, writers: vec![vec![b(1, &[10]), b(1, &[11])]] },
            parse_sched("W0 A1000 T W0 W0 A400 A600 X"),
        ),
        // last and first representable hour buckets; min == max
        (
            Scenario { flush_rows: 1, flush_bytes: big, max_bytes: big, writers: vec![vec![b(0, &[i64::MAX]), b(1, &[i64::MIN, i64::MIN + 1]), b(1, &[i64::MAX, i64::MAX - H])]] },
            parse_sched("W0 W0 W0 W0 W0 W0 X"),
        ),
        // schemas that differ ONLY in the nullability of `host`: non-nullable first, then nullable with a
        // real null (concat against the first batch's schema would reject the null), and the reverse order
        (
            Scenario { flush_rows: 100, flush_bytes: big, max_bytes: big, writers: vec![vec![bv(0, 1, &[1, 2], false), bv(0, 0, &[3, 4], true), bv(0, 1, &[5], false)]] },
            parse_sched("W0 W0 W0 A1000 T X"),
        ),
        (
            Scenario { flush_rows: 100, flush_bytes: big, max_bytes: big, writers: vec![vec![bv(1, 0, &[1], true)], vec![bv(1, 1, &[2], false)], vec![bv(1, 4, &[3], false)]] },
            parse_sched("W0 W1 W2 W1 W2 X T"),
        ),
        // schemas that differ ONLY in schema-level / field-level metadata
        (
            Scenario { flush_rows: 100, flush_bytes: big, max_bytes: big, writers: vec![vec![bv(2, 0, &[1], true), bv(2, 2, &[2], true), bv(2, 3, &[3], false), bv(2, 0, &[4], false)]] },
            parse_sched("W0 W0 W0 W0 W0 W0 W0 X T"),
        ),
        // a zero-row batch is acknowledged at once and stores nothing
        (
            Scenario { flush_rows: 2, flush_bytes: big, max_bytes: big, writers: vec![vec![b(0, &[1]), b(0, &[]), b(0, &[2])], vec![b(1, &[])]] },
            parse_sched("W0 W0 W1 W0 X"),
        ),
        // BufferFull: the second batch does not fit and must leave no trace
        (
            Scenario { flush_rows: 100, flush_bytes: big, max_bytes: build_batch(&b(0, &[1, 2, 3])).get_array_memory_size() + 8, writers: vec![vec![b(0, &[1, 2, 3]), b(0, &[4]), b(0, &[5])]] },
            parse_sched("W0 W0 W0 A1000 T W0 X"),
        ),
    ]
}

fn main() {
    let args = Args::parse();
    csv_common::quiet_panics();
    let mut model = Model::spawn(&args.model);
    let mut report = Report::new("C06");

    if let Some(path) = &args.replay {
        let txt = std::fs::read_to_string(path).expect("replay file");
        let v: serde_json::Value = serde_json::from_str(&txt).expect("replay json");
        let case = if v.get("case").is_some() { v["case"].clone() } else { v.clone() };
        let scn: Scenario = serde_json::from_value(case["scenario"].clone()).expect("scenario");
        let sched = parse_sched(case["sched"].as_str().unwrap_or(""));
        let (head, out) = run_impl(&scn, Plan::Replay(sched));
        let line = format!("{}|S {}", head, show_sched(&out.sched));
        let m = model.ask(&line);
        println!("case : {}\nimpl : {}\nmodel: {}\noracle failures: {:?}", line, out.line_tail, m, out.oracle);
        std::process::exit(if out.oracle.is_empty() && (model.is_null() || m == out.line_tail) { 0 } else { 1 });
    }

    let n_random = if args.thorough() { 6000 } else { 400 };
    let mut rng = Rng::new(args.seed);
    let mut cases: Vec<(String, Scenario, Plan)> =
        corpus().into_iter().map(|(s, l)| ("corpus".to_string(), s, Plan::Replay(l))).collect();
    for _ in 0..n_random {
        let mut r = rng.fork();
        let scn = gen_scenario(&mut r, &mut report);
        cases.push(("random".to_string(), scn, Plan::Generate(r.fork())));
    }

    let t_all = std::time::Instant::now();
    let wall_budget: u64 = args.get("budget-secs").and_then(|s| s.parse().ok()).unwrap_or(if args.thorough() { 4000 } else { 480 });
    let total_cases = cases.len();
    let (mut n_dis, mut n_viol) = (0usize, 0usize);
    for (ci, (origin, scn, plan)) in cases.into_iter().enumerate() {
        if n_dis >= 10 || n_viol >= 10 {
            report.notes.push(format!("stopped after case {} of {}: {} disagreements, {} oracle violations", ci, total_cases, n_dis, n_viol));
            break;
        }
        if t_all.elapsed().as_secs() > wall_budget {
            report.notes.push(format!("stopped after case {} of {}: wall budget of {} s used up", ci, total_cases, wall_budget));
            break;
        }
        let (head, out) = run_impl(&scn, plan);
        report.impl_runs += 1;
        let line = format!("{}|S {}", head, show_sched(&out.sched));
        let nontrivial = scn.writers.len() >= 2 && out.stats.overlap > 0 && out.stats.chunks > 0;
        report.case(if nontrivial { Some(&line) } else { None });
        report.bump(&format!("origin.{}", origin));
        report.bump(&format!("writers.{}", scn.writers.len()));
        report.bump_by("overlapped_steps", out.stats.overlap);
        report.bump_by("timer_flushes", out.stats.timer_flush);
        report.bump_by("buffer_full_rejections", out.stats.rejected);
        report.bump_by("chunks", out.stats.chunks);
        if out.line_tail.ends_with("q=1") {
            report.bump("end.quiescent");
        } else {
            report.bump("end.not_quiescent");
        }
        let kinds: std::collections::BTreeSet<(u8, u8)> = scn.writers.iter().flatten().map(|b| (b.kind, b.variant)).collect();
        report.bump(&format!("schemas.{}", kinds.len()));
        let (differs, model_out) = model.differs(&line, &out.line_tail);
        report.sample(json!({"case": line, "impl": out.line_tail, "model": model_out}));
        let case_json = |s: &Scenario, l: &[Label]| json!({"scenario": s, "sched": show_sched(l)});
        if differs {
            n_dis += 1;
            let mut budget = Budget::new(150, 20);
            let shrunk = ddmin(&out.sched, &mut |cand: &[Label]| {
                if !budget.take() {
                    return false;
                }
                let (h, o) = run_impl(&scn, Plan::Replay(cand.to_vec()));
                let l = format!("{}|S {}", h, show_sched(&o.sched));
                model.differs(&l, &o.line_tail).0
            });
            let (h, o) = run_impl(&scn, Plan::Replay(shrunk.clone()));
            let sl = format!("{}|S {}", h, show_sched(&o.sched));
            let sm = model.ask(&sl);
            report.disagreement(json!({
                "correspondence": "ingest model (Model/Ingest.v, macro steps) vs Ingester over SchedStore + LocalMetadataClient",
                "case": case_json(&scn, &out.sched), "impl": out.line_tail, "model": model_out,
                "shrunk": case_json(&scn, &o.sched), "shrunk_line": sl, "shrunk_impl": o.line_tail, "shrunk_model": sm,
                "oracle_failed": !out.oracle.is_empty() || !o.oracle.is_empty(),
            }));
        }
        if !out.oracle.is_empty() {
            n_viol += 1;
            let mut budget = Budget::new(150, 20);
            let shrunk = ddmin(&out.sched, &mut |cand: &[Label]| budget.take() && !run_impl(&scn, Plan::Replay(cand.to_vec())).1.oracle.is_empty());
            let (_, o) = run_impl(&scn, Plan::Replay(shrunk));
            let what = if o.oracle.is_empty() { out.oracle.join("; ") } else { o.oracle.join("; ") };
            let sched = if o.oracle.is_empty() { out.sched.clone() } else { o.sched.clone() };
            report.oracle_violation("", &what, case_json(&scn, &sched));
        }
        if differs || !out.oracle.is_empty() || ci % 50 == 49 {
            report.write(&args.out);
        }
    }
    report.notes.push(format!("model calls: {}; wall {} s", model.calls, t_all.elapsed().as_secs()));
    report.write(&args.out);
}