//! csv-ingest — shared pieces of the C06 / C01 harnesses: task-routed
//! SchedStore handles, batch generation from serialisable row specs, canonical
//! row keys (bit-exact), Parquet decoding, row interning.
use arrow_array::cast::AsArray;
use arrow_array::types::{Float64Type, Int64Type, TimestampNanosecondType};
use arrow_array::{Array, ArrayRef, Float64Array, Int64Array, RecordBatch, StringArray, TimestampNanosecondArray};
use arrow_schema::{DataType, Field, Schema, SchemaRef, TimeUnit};
use async_trait::async_trait;
use bytes::Bytes;
use csv_common::sched::SchedStore;
use csv_common::Rng;
use futures::stream::BoxStream;
use object_store::path::Path;
use object_store::{
    GetOptions, GetResult, ListResult, MultipartUpload, ObjectMeta, ObjectStore, PutMultipartOpts, PutOptions,
    PutPayload, PutResult, Result as OsResult,
};
use serde::{Deserialize, Serialize};
use std::collections::HashMap;
use std::fmt;
use std::sync::Arc;

tokio::task_local! {
    /// index of the harness task (writer i, or k for the timer) the current future belongs to
    pub static TASK: usize;
}

/// An ObjectStore that forwards every request to the SchedStore handle of the
/// calling harness task, so that the one Ingester (which holds one store) is
/// seen by the controller as one client per task.
pub struct RoutedStore {
    pub handles: Vec<Arc<SchedStore>>,
}

impl RoutedStore {
    fn h(&self) -> &Arc<SchedStore> {
        let i = TASK.try_with(|t| *t).unwrap_or(self.handles.len() - 1);
        &self.handles[i.min(self.handles.len() - 1)]
    }
}
impl fmt::Debug for RoutedStore {
    fn fmt(&self, f: &mut fmt::Formatter<'_>) -> fmt::Result {
        write!(f, "RoutedStore({})", self.handles.len())
    }
}
impl fmt::Display for RoutedStore {
    fn fmt(&self, f: &mut fmt::Formatter<'_>) -> fmt::Result {
        write!(f, "RoutedStore({})", self.handles.len())
    }
}

#[async_trait]
impl ObjectStore for RoutedStore {
    async fn put_opts(&self, location: &Path, payload: PutPayload, opts: PutOptions) -> OsResult<PutResult> {
        self.h().put_opts(location, payload, opts).await
    }
    async fn put_multipart_opts(&self, location: &Path, opts: PutMultipartOpts) -> OsResult<Box<dyn MultipartUpload>> {
        self.h().put_multipart_opts(location, opts).await
    }
    async fn get_opts(&self, location: &Path, options: GetOptions) -> OsResult<GetResult> {
        self.h().get_opts(location, options).await
    }
    async fn delete(&self, location: &Path) -> OsResult<()> {
        self.h().delete(location).await
    }
    fn list(&self, prefix: Option<&Path>) -> BoxStream<'_, OsResult<ObjectMeta>> {
        self.h().list(prefix)
    }
    async fn list_with_delimiter(&self, prefix: Option<&Path>) -> OsResult<ListResult> {
        self.h().list_with_delimiter(prefix).await
    }
    async fn copy(&self, from: &Path, to: &Path) -> OsResult<()> {
        self.h().copy(from, to).await
    }
    async fn copy_if_not_exists(&self, from: &Path, to: &Path) -> OsResult<()> {
        self.h().copy_if_not_exists(from, to).await
    }
}

// ------------------------------------------------------------------ rows ----
pub const METRICS: [&str; 4] = ["cpu_usage", "mem_used", "disk_io", ""];
pub const HOSTS: [&str; 4] = ["host-a", "host-b", "", "h\u{00e9}te-\u{1F600}"];

#[derive(Clone, Debug, Serialize, Deserialize, PartialEq)]
pub struct RowSpec {
    pub ts: i64,
    pub metric: Option<u8>,
    /// f64 bit pattern (NaN payloads, infinities, -0.0 survive)
    pub fval: Option<u64>,
    pub ival: Option<i64>,
    pub host: Option<u8>,
    pub region: Option<u8>,
}

#[derive(Clone, Debug, Serialize, Deserialize, PartialEq)]
pub struct BatchSpec {
    /// schema kind 0..=3: the column set and column types
    pub kind: u8,
    /// schema variant of the same column set and types: 0 = base, 1 = `host` declared non-nullable,
    /// 2 = schema-level metadata, 3 = field-level metadata on `host`, 4 = value column declared
    /// non-nullable.  Variants differ from the base ONLY in nullability flags or metadata.
    #[serde(default)]
    pub variant: u8,
    pub rows: Vec<RowSpec>,
}

pub fn schema_of(kind: u8, variant: u8) -> SchemaRef {
    let ts_tz = Field::new("timestamp", DataType::Timestamp(TimeUnit::Nanosecond, Some("UTC".into())), false);
    let ts_i64 = Field::new("timestamp", DataType::Int64, false);
    let fields = match kind {
        0 => vec![
            ts_tz,
            Field::new("metric_name", DataType::Utf8, false),
            Field::new("value_f64", DataType::Float64, true),
            Field::new("host", DataType::Utf8, true),
        ],
        1 => vec![
            ts_i64,
            Field::new("metric_name", DataType::Utf8, false),
            Field::new("value_f64", DataType::Float64, true),
            Field::new("host", DataType::Utf8, true),
        ],
        2 => vec![
            ts_tz,
            Field::new("metric_name", DataType::Utf8, false),
            Field::new("value_f64", DataType::Float64, true),
            Field::new("host", DataType::Utf8, true),
            Field::new("region", DataType::Utf8, true),
        ],
        _ => vec![
            ts_i64,
            Field::new("metric_name", DataType::Utf8, true),
            Field::new("value_i64", DataType::Int64, true),
            Field::new("host", DataType::Utf8, true),
        ],
    };
    let fields: Vec<Field> = fields
        .into_iter()
        .map(|f| {
            let name = f.name().clone();
            match variant {
                1 if name == "host" => f.with_nullable(false),
                4 if name.starts_with("value_") => f.with_nullable(false),
                3 if name == "host" => {
                    f.with_metadata([("unit".to_string(), "hostname".to_string())].into_iter().collect())
                }
                _ => f,
            }
        })
        .collect();
    let schema = Schema::new(fields);
    if variant == 2 {
        Arc::new(schema.with_metadata([("origin".to_string(), "agent-a".to_string())].into_iter().collect()))
    } else {
        Arc::new(schema)
    }
}

pub fn build_batch(spec: &BatchSpec) -> RecordBatch {
    let schema = schema_of(spec.kind, spec.variant);
    let host_nn = spec.variant == 1;
    let val_nn = spec.variant == 4;
    let ts: Vec<i64> = spec.rows.iter().map(|r| r.ts).collect();
    let ts_col: ArrayRef = match spec.kind {
        0 | 2 => Arc::new(TimestampNanosecondArray::from(ts).with_timezone("UTC")),
        _ => Arc::new(Int64Array::from(ts)),
    };
    let metric_nullable = spec.kind == 3;
    let metric: ArrayRef = Arc::new(StringArray::from(
        spec.rows
            .iter()
            .map(|r| match r.metric {
                Some(m) => Some(METRICS[m as usize % METRICS.len()]),
                None => {
                    if metric_nullable {
                        None
                    } else {
                        Some(METRICS[0])
                    }
                }
            })
            .collect::<Vec<Option<&str>>>(),
    ));
    let host: ArrayRef = Arc::new(StringArray::from(
        spec.rows
            .iter()
            .map(|r| match r.host {
                Some(h) => Some(HOSTS[h as usize % HOSTS.len()]),
                None if host_nn => Some(HOSTS[0]),
                None => None,
            })
            .collect::<Vec<Option<&str>>>(),
    ));
    let mut cols: Vec<ArrayRef> = vec![ts_col, metric];
    if spec.kind == 3 {
        cols.push(Arc::new(Int64Array::from(
            spec.rows.iter().map(|r| if val_nn { Some(r.ival.unwrap_or(0)) } else { r.ival }).collect::<Vec<Option<i64>>>(),
        )));
    } else {
        cols.push(Arc::new(Float64Array::from(
            spec.rows
                .iter()
                .map(|r| if val_nn { Some(f64::from_bits(r.fval.unwrap_or(0))) } else { r.fval.map(f64::from_bits) })
                .collect::<Vec<Option<f64>>>(),
        )));
    }
    cols.push(host);
    if spec.kind == 2 {
        cols.push(Arc::new(StringArray::from(
            spec.rows.iter().map(|r| r.region.map(|h| HOSTS[h as usize % HOSTS.len()])).collect::<Vec<Option<&str>>>(),
        )));
    }
    RecordBatch::try_new(schema, cols).expect("batch")
}

/// Canonical, bit-exact text of every row of a batch (column name, type and
/// value; floats as bit patterns) together with its timestamp.
pub fn row_keys(batch: &RecordBatch) -> Vec<(String, i64)> {
    let schema = batch.schema();
    let n = batch.num_rows();
    let mut keys = vec![String::new(); n];
    let mut tss = vec![0i64; n];
    for (ci, field) in schema.fields().iter().enumerate() {
        let col = batch.column(ci);
        let ty = format!("{}", field.data_type());
        for i in 0..n {
            let v = if col.is_null(i) {
                "null".to_string()
            } else if let Some(a) = col.as_primitive_opt::<TimestampNanosecondType>() {
                a.value(i).to_string()
            } else if let Some(a) = col.as_primitive_opt::<Int64Type>() {
                a.value(i).to_string()
            } else if let Some(a) = col.as_primitive_opt::<Float64Type>() {
                format!("{:016x}", a.value(i).to_bits())
            } else if let Some(a) = col.as_string_opt::<i32>() {
                format!("{:?}", a.value(i))
            } else if let Some(a) = col.as_string_opt::<i64>() {
                format!("{:?}", a.value(i))
            } else {
                format!("?{:?}", col.slice(i, 1))
            };
            keys[i].push_str(&format!("{}<{}>={};", field.name(), ty, v));
            if field.name() == "timestamp" && !col.is_null(i) {
                if let Some(a) = col.as_primitive_opt::<TimestampNanosecondType>() {
                    tss[i] = a.value(i);
                } else if let Some(a) = col.as_primitive_opt::<Int64Type>() {
                    tss[i] = a.value(i);
                }
            }
        }
    }
    keys.into_iter().zip(tss).collect()
}

pub fn decode_parquet(bytes: Bytes) -> Result<Vec<RecordBatch>, String> {
    let b = parquet::arrow::arrow_reader::ParquetRecordBatchReaderBuilder::try_new(bytes).map_err(|e| e.to_string())?;
    let r = b.build().map_err(|e| e.to_string())?;
    let mut out = Vec::new();
    for x in r {
        out.push(x.map_err(|e| e.to_string())?);
    }
    Ok(out)
}

/// Row content -> small integer (the model's r_id).  Content never generated
/// (i.e. altered by the implementation) gets ids from 1_000_000 upwards.
#[derive(Default)]
pub struct Interner {
    map: HashMap<String, u64>,
    foreign: HashMap<String, u64>,
}
impl Interner {
    pub fn intern(&mut self, key: &str) -> u64 {
        let n = self.map.len() as u64 + 1;
        *self.map.entry(key.to_string()).or_insert(n)
    }
    pub fn lookup(&mut self, key: &str) -> u64 {
        if let Some(v) = self.map.get(key) {
            return *v;
        }
        let n = 1_000_000 + self.foreign.len() as u64;
        *self.foreign.entry(key.to_string()).or_insert(n)
    }
}

/// Schema identity as the buffer sees it (`Schema ==`): interned by comparison.
#[derive(Default)]
pub struct SchemaInterner {
    seen: Vec<SchemaRef>,
}
impl SchemaInterner {
    pub fn id(&mut self, s: &SchemaRef) -> u64 {
        for (i, x) in self.seen.iter().enumerate() {
            if x.as_ref() == s.as_ref() {
                return i as u64 + 1;
            }
        }
        self.seen.push(s.clone());
        self.seen.len() as u64
    }
}

// ------------------------------------------------------------ generation ----
pub const H: i64 = 3_600_000_000_000;

/// timestamp base classes: ordinary, around zero/negative, last and first
/// representable hour buckets
pub fn gen_base(rng: &mut Rng) -> (i64, &'static str) {
    match rng.below(10) {
        0 => (i64::MAX - 2 * H, "base.i64_max"),
        1 => (i64::MIN + 2 * H, "base.i64_min"),
        2 => (0, "base.zero"),
        3 => (-5 * H, "base.negative"),
        _ => (1_700_000_000_000_000_000, "base.ordinary"),
    }
}

pub fn gen_ts(rng: &mut Rng, base: i64) -> i64 {
    let off = match rng.below(8) {
        0 => 0,
        1 => H,
        2 => H - 1,
        3 => -1,
        4 => 2 * H,
        5 => -2 * H,
        _ => rng.range_i64(-2 * H, 2 * H),
    };
    base.saturating_add(off)
}

pub fn gen_fval(rng: &mut Rng) -> Option<u64> {
    match rng.below(12) {
        0 => None,
        1 => Some(f64::NAN.to_bits()),
        2 => Some(0x7ff8_0000_0000_1234), // NaN with a payload
        3 => Some(f64::INFINITY.to_bits()),
        4 => Some(f64::NEG_INFINITY.to_bits()),
        5 => Some((-0.0f64).to_bits()),
        6 => Some(f64::MAX.to_bits()),
        7 => Some(f64::MIN_POSITIVE.to_bits()),
        _ => Some(((rng.below(2000) as f64) / 7.0 - 100.0).to_bits()),
    }
}

pub fn gen_ival(rng: &mut Rng) -> Option<i64> {
    match rng.below(8) {
        0 => None,
        1 => Some(i64::MAX),
        2 => Some(i64::MIN),
        3 => Some(0),
        _ => Some(rng.range_i64(-1000, 1000)),
    }
}

pub fn gen_row(rng: &mut Rng, kind: u8, base: i64) -> RowSpec {
    let opt8 = |rng: &mut Rng| if rng.chance(1, 4) { None } else { Some(rng.below(4) as u8) };
    RowSpec {
        ts: gen_ts(rng, base),
        metric: if kind == 3 && rng.chance(1, 5) { None } else { Some(rng.below(4) as u8) },
        fval: if kind == 3 { None } else { gen_fval(rng) },
        ival: if kind == 3 { gen_ival(rng) } else { None },
        host: opt8(rng),
        region: if kind == 2 { opt8(rng) } else { None },
    }
}

pub fn gen_batch(rng: &mut Rng, kind: u8, base: i64, max_rows: usize) -> BatchSpec {
    gen_batch_v(rng, kind, 0, base, max_rows)
}

/// a batch of schema (kind, variant); one time in three every nullable cell is filled (a nullable
/// column WITHOUT real nulls), one time in three at least one label / value cell is null
pub fn gen_batch_v(rng: &mut Rng, kind: u8, variant: u8, base: i64, max_rows: usize) -> BatchSpec {
    let n = if rng.chance(1, 4) { 1 } else { rng.range_usize(1, max_rows.max(1)) };
    let mut rows: Vec<RowSpec> = (0..n).map(|_| gen_row(rng, kind, base)).collect();
    match rng.below(3) {
        0 => {
            for r in rows.iter_mut() {
                if r.host.is_none() {
                    r.host = Some(rng.below(4) as u8);
                }
                if kind == 3 {
                    r.ival = Some(r.ival.unwrap_or(5));
                } else {
                    r.fval = Some(r.fval.unwrap_or(1.25f64.to_bits()));
                }
            }
        }
        1 => {
            let i = rng.below(n as u64) as usize;
            rows[i].host = None;
            if rng.chance(1, 2) {
                rows[i].fval = None;
                rows[i].ival = None;
            }
        }
        _ => {}
    }
    BatchSpec { kind, variant, rows }
}

// ------------------------------------------------------------------ budgets ----
/// Bounds the work spent on shrinking one failing case (candidate runs and wall time).
pub struct Budget {
    start: std::time::Instant,
    runs: u32,
    max_runs: u32,
    max_secs: u64,
}
impl Budget {
    pub fn new(max_runs: u32, max_secs: u64) -> Budget {
        Budget { start: std::time::Instant::now(), runs: 0, max_runs, max_secs }
    }
    /// true while another candidate run is allowed (and counts it)
    pub fn take(&mut self) -> bool {
        if self.runs >= self.max_runs || self.start.elapsed().as_secs() >= self.max_secs {
            return false;
        }
        self.runs += 1;
        true
    }
}
