//! csv-c13 — correspondence + oracle for C13 (shard metadata changes are
//! fenced by generation).
//!
//! Schedule cases: 2–4 real ObjectStoreMetadataClient instances, each over its
//! own SchedStore handle on one InMemory store, race update_shard_metadata
//! calls (creations and updates, equal / different / stale expected
//! generations, all shard states; the `generation` FIELD of the record a caller
//! passes is arbitrary — 0, stale, equal, far ahead — because it must be
//! irrelevant) under a generated schedule at the granularity of single
//! object-store requests.  Observed: the kind of every request, every op
//! result, every version of every shard object, get_shard_metadata from a
//! fresh client at quiescence; the same ops sequentially on
//! LocalMetadataClient.  The extracted Coq model (modelrun-c13) gets the
//! executed schedule and must print the same canonical line.
//!
//! Fault leg: schedule entries may carry Action::FailBefore / FailAfter, which
//! makes that one request of that client fail with a transport error before /
//! after it took effect, interleaved with the other clients' requests.  The
//! theorems of Properties/C13.v do not speak about fault steps (CasProto has
//! none); the model side of the comparison then runs Model/CasFault.v (a copy
//! of the machine with fault labels, for this harness only) and the ORACLE
//! below judges the implementation directly.  How faults are judged: an update
//! that returns a transport error ("fault") has an indeterminate outcome (lost
//! acknowledgement) — it may have written a version (only through its own PUT
//! that was applied, i.e. a FailAfter PUT) or not; everything else is judged as
//! without faults.
//!
//! Oracle (independent of the model, with and without faults):
//!  * versions of a shard carry generations g0+1, g0+2, … (ladder);
//!  * every version was written by the PUT of an update whose expected
//!    generation is that generation - 1 and carries exactly that update's
//!    payload; that update returned Ok, or "fault" with its PUT hit by FailAfter;
//!  * every update that returned Ok wrote exactly one version through its OWN
//!    PUT (successes ⊆ versions written by that client's own request);
//!  * at most one Ok per (shard, base generation); at most one creation;
//!  * Stale{expected, actual}: expected is the caller's, actual ≠ expected was
//!    really stored; ShardNotFound only for an absent shard and expected ≠ 0;
//!    "fault" only for an update that was hit by an injected fault; never
//!    TooManyRetries or anything else;
//!  * the final shard is the last version written and equals the one-at-a-time
//!    replay of the written versions on the in-memory backend;
//!  * in-memory backend: an update succeeds iff based on the stored generation
//!    and then stores expected+1 with the payload, whatever generation field the
//!    passed record carries;
//!  * the router never lowers a cached generation on update_routing.
use cardinalsin::metadata::{
    LocalMetadataClient, MetadataClient, ObjectStoreMetadataClient, ObjectStoreMetadataConfig,
};
use cardinalsin::sharding::{ShardKey, ShardMetadata, ShardRouter, ShardState};
use cardinalsin::Error;
use csv_cascommon::{all_sequences, ddmin_capped, drive_faults, parse_step_token, step_token};
use csv_common::sched::{Action, Hub};
use csv_common::{Args, Model, Report, Rng};
use futures::future::LocalBoxFuture;
use futures::FutureExt;
use object_store::memory::InMemory;
use object_store::path::Path;
use object_store::ObjectStore;
use serde_json::json;
use std::collections::BTreeMap;
use std::panic::AssertUnwindSafe;
use std::sync::Arc;
use std::time::Duration;

const PREFIX: &str = "metadata/";
const MAX_FINDINGS: usize = 10;
const SHRINK_BUDGET: usize = 150;

#[derive(Clone, Debug, PartialEq)]
struct SOp {
    sid: u32,
    expected: u64,
    st: u64,
    dt: u64,
    /// the `generation` field of the record passed by the caller (must be irrelevant)
    gf: u64,
}

#[derive(Clone, Debug, PartialEq)]
struct Case {
    /// shard objects existing before the run: sid -> (generation, st, dt)
    init: BTreeMap<u32, (u64, u64, u64)>,
    progs: Vec<Vec<SOp>>,
    sched: Vec<(usize, Action)>,
}

fn sid_name(sid: u32) -> String {
    format!("sh{}", sid)
}

fn make_meta(sid: u32, generation: u64, st: u64, dt: u64) -> ShardMetadata {
    ShardMetadata {
        shard_id: sid_name(sid),
        generation,
        key_range: (vec![0, 0, 0, sid as u8], vec![0, 0, 0, sid as u8 + 1]),
        replicas: vec![],
        state: match st {
            0 => ShardState::Active,
            1 => ShardState::Splitting { new_shards: vec![format!("n{}", dt)] },
            _ => ShardState::PendingDeletion { delete_after: dt as i64 },
        },
        min_time: dt as i64,
        max_time: dt as i64 + 1,
    }
}

/// (generation, state tag, data) of a stored shard; None when the payload is
/// not one that `make_meta` produces (then the oracle reports it).
fn canon(m: &ShardMetadata) -> Option<(u64, u64, u64)> {
    let dt = m.min_time as u64;
    let st = match &m.state {
        ShardState::Active => 0,
        ShardState::Splitting { .. } => 1,
        ShardState::PendingDeletion { .. } => 2,
    };
    let sid: u32 = m.shard_id.trim_start_matches("sh").parse().ok()?;
    let want = make_meta(sid, m.generation, st, dt);
    if serde_json::to_value(&want).ok()? == serde_json::to_value(m).ok()? {
        Some((m.generation, st, dt))
    } else {
        None
    }
}

fn show3(v: (u64, u64, u64)) -> String {
    format!("{}.{}.{}", v.0, v.1, v.2)
}

fn res_string(r: &cardinalsin::Result<()>) -> String {
    match r {
        Ok(()) => "ok".into(),
        Err(Error::StaleGeneration { expected, actual }) => format!("stale.{}.{}", expected, actual),
        Err(Error::ShardNotFound(_)) => "notfound".into(),
        Err(Error::TooManyRetries) => "retries".into(),
        Err(Error::Conflict) => "conflict".into(),
        // transport errors: a failing GET surfaces as Metadata("Failed to load ..."), a failing PUT as ObjectStore
        Err(Error::ObjectStore(_)) => "fault".into(),
        Err(Error::Metadata(m)) if m.starts_with("Failed to load") => "fault".into(),
        Err(e) => format!("err({})", e).replace(['|', ';', '/', ','], "_"),
    }
}

fn ops_text(ops: &[SOp]) -> String {
    ops.iter().map(|o| format!("{}:{}:{}:{}", o.sid, o.expected, o.st, o.dt)).collect::<Vec<_>>().join(";")
}

/// sequential history for the in-memory backend: the programs interleaved op by
/// op, starting with the client that the schedule names first
fn local_history(c: &Case, executed: &[usize]) -> Vec<SOp> {
    let n = c.progs.len();
    let start = executed.first().cloned().unwrap_or(0) % n.max(1);
    let longest = c.progs.iter().map(|p| p.len()).max().unwrap_or(0);
    let mut h = Vec::new();
    for i in 0..longest {
        for j in 0..n {
            let k = (start + j) % n;
            if let Some(o) = c.progs[k].get(i) {
                h.push(o.clone());
            }
        }
    }
    h
}

fn seedable(c: &Case) -> bool {
    !c.init.values().any(|v| v.0 == 0 || v.0 > 6)
}

/// in-memory client holding the initial shards (built by real updates whose
/// record carries the expected generation, so that seeding does not depend on
/// how the generation field is treated); Err = seeding itself misbehaved
async fn seeded_local(c: &Case) -> Result<LocalMetadataClient, String> {
    let local = LocalMetadataClient::new();
    for (sid, v) in &c.init {
        for g in 0..v.0 {
            let m = make_meta(*sid, g, v.1, v.2);
            if let Err(e) = local.update_shard_metadata(&sid_name(*sid), &m, g).await {
                return Err(format!("in-memory backend: building generation {} of shard {} by successive updates failed at base generation {}: {}", v.0, sid, g, e));
            }
        }
        let got = local.get_shard_metadata(&sid_name(*sid)).await.ok().flatten().and_then(|m| canon(&m));
        if got != Some(*v) {
            return Err(format!("in-memory backend: {} successive updates of shard {} (each based on the previous generation) left {:?} instead of generation {}", v.0, sid, got, v.0));
        }
    }
    Ok(local)
}

fn encode(c: &Case, executed: &[(usize, Action)]) -> String {
    let init = c.init.iter().map(|(s, v)| format!("{}:{}:{}:{}", s, v.0, v.1, v.2)).collect::<Vec<_>>().join(",");
    let progs = c.progs.iter().map(|p| ops_text(p)).collect::<Vec<_>>().join("/");
    let sched = executed.iter().map(|(c, a)| step_token(*c, *a)).collect::<Vec<_>>().join(",");
    let ex: Vec<usize> = executed.iter().map(|x| x.0).collect();
    // the in-memory backend cannot be seeded with generation 0, so no local part then
    let local = if seedable(c) { ops_text(&local_history(c, &ex)) } else { String::new() };
    // generation fields of the passed records: ignored by the model (the code must ignore them too)
    let gf = c.progs.iter().map(|p| p.iter().map(|o| o.gf.to_string()).collect::<Vec<_>>().join(";")).collect::<Vec<_>>().join("/");
    format!("S|init={}|progs={}|sched={}|local={}|gf={}", init, progs, sched, local, gf)
}

fn decode(line: &str) -> Case {
    let mut init = BTreeMap::new();
    let mut progs: Vec<Vec<SOp>> = Vec::new();
    let mut sched = Vec::new();
    let mut gfs: Vec<Vec<u64>> = Vec::new();
    for f in line.split('|') {
        if let Some(v) = f.strip_prefix("init=") {
            for t in v.split(',').filter(|x| !x.is_empty()) {
                let a: Vec<u64> = t.split(':').map(|y| y.parse().unwrap_or(0)).collect();
                if a.len() == 4 {
                    init.insert(a[0] as u32, (a[1], a[2], a[3]));
                }
            }
        } else if let Some(v) = f.strip_prefix("progs=") {
            progs = v
                .split('/')
                .map(|p| {
                    p.split(';')
                        .filter(|x| !x.trim().is_empty())
                        .map(|x| {
                            let f: Vec<u64> = x.trim().split(':').map(|y| y.parse().unwrap_or(0)).collect();
                            SOp { sid: f[0] as u32, expected: f[1], st: f[2], dt: f[3], gf: f[1] }
                        })
                        .collect()
                })
                .collect();
        } else if let Some(v) = f.strip_prefix("sched=") {
            sched = v.split(',').filter(|x| !x.is_empty()).map(parse_step_token).collect();
        } else if let Some(v) = f.strip_prefix("gf=") {
            gfs = v.split('/').map(|p| p.split(';').filter(|x| !x.is_empty()).map(|x| x.parse().unwrap_or(0)).collect()).collect();
        }
    }
    for (k, p) in progs.iter_mut().enumerate() {
        for (i, o) in p.iter_mut().enumerate() {
            if let Some(g) = gfs.get(k).and_then(|v| v.get(i)) {
                o.gf = *g;
            }
        }
    }
    Case { init, progs, sched }
}

struct ImplOut {
    line: String,
    executed: Vec<(usize, Action)>,
    bad: Vec<String>,
    conflicts: usize,
    faults: usize,
}

fn shard_path(sid: u32) -> Path {
    Path::from_iter([PREFIX, "shards/", &format!("{}.json", sid_name(sid))])
}

/// Runs one case; a panic of the implementation or of this harness is caught
/// and reported as an oracle failure of that case.
fn run_impl(c: &Case) -> ImplOut {
    let r = std::panic::catch_unwind(AssertUnwindSafe(|| {
        let rt = tokio::runtime::Builder::new_current_thread().enable_all().start_paused(true).build().unwrap();
        let local_set = tokio::task::LocalSet::new();
        rt.block_on(local_set.run_until(run_impl_async(c)))
    }));
    match r {
        Ok(o) => o,
        Err(e) => {
            let msg = e.downcast_ref::<&str>().map(|s| s.to_string()).or_else(|| e.downcast_ref::<String>().cloned()).unwrap_or_else(|| "panic".into());
            ImplOut { line: "PANIC".into(), executed: c.sched.clone(), bad: vec![format!("panic while running the case: {}", msg)], conflicts: 0, faults: 0 }
        }
    }
}

async fn run_impl_async(c: &Case) -> ImplOut {
    let mut bad: Vec<String> = Vec::new();
    let store: Arc<dyn ObjectStore> = Arc::new(InMemory::new());
    let cfg = ObjectStoreMetadataConfig {
        bucket: "b".into(),
        metadata_prefix: PREFIX.into(),
        enable_cache: true,
        allow_unsafe_overwrite: false,
    };
    // seed the initial shard objects directly
    for (sid, v) in &c.init {
        let m = make_meta(*sid, v.0, v.1, v.2);
        let bytes = serde_json::to_vec_pretty(&m).unwrap_or_default();
        if let Err(e) = store.put(&shard_path(*sid), bytes.into()).await {
            bad.push(format!("harness: cannot seed shard {}: {}", sid, e));
        }
    }
    let hub = Hub::new(store.clone());
    hub.watch("shards");
    {
        let probe = ObjectStoreMetadataClient::new(hub.client(98), cfg.clone());
        for (sid, v) in &c.init {
            let got = probe.get_shard_metadata(&sid_name(*sid)).await.ok().flatten().and_then(|m| canon(&m));
            if got != Some(*v) {
                bad.push(format!("seeded shard {} = {:?} is read back as {:?} by get_shard_metadata", sid, v, got));
            }
        }
    }
    let n = c.progs.len();
    let mut tasks: Vec<LocalBoxFuture<'static, ()>> = Vec::new();
    for k in 0..n {
        let client = ObjectStoreMetadataClient::new(hub.client(k), cfg.clone());
        let ops = c.progs[k].clone();
        let hub2 = hub.clone();
        tasks.push(
            async move {
                for o in ops.iter() {
                    let m = make_meta(o.sid, o.gf, o.st, o.dt);
                    let r = client.update_shard_metadata(&sid_name(o.sid), &m, o.expected).await;
                    hub2.note(k, format!("done:{}", res_string(&r)));
                }
            }
            .boxed_local(),
        );
    }
    let nops: Vec<usize> = c.progs.iter().map(|p| p.len()).collect();
    let run = drive_faults(&hub, tasks, &nops, &c.sched, 400).await;
    if let Some(s) = &run.stuck {
        bad.push(format!("run did not complete: {}", s));
    }
    let conflicts = run.kinds.iter().filter(|k| k.ends_with('-')).count();
    let faults = run.actions.iter().filter(|a| **a != Action::Proceed).count();
    let op_of_step = run.op_of_step();
    let executed: Vec<(usize, Action)> = run.executed.iter().cloned().zip(run.actions.iter().cloned()).collect();

    // sids in play
    let mut sids: Vec<u32> = c.init.keys().cloned().collect();
    for p in &c.progs {
        for o in p {
            sids.push(o.sid);
        }
    }
    sids.sort();
    sids.dedup();
    let file_of = |sid: u32| format!("{}.json", sid_name(sid));

    // versions written, per shard object, with the (client, op index, step) whose PUT wrote them
    let all_versions = hub.versions.lock().unwrap().clone();
    let mut vers: BTreeMap<u32, Vec<(u64, u64, u64)>> = BTreeMap::new();
    let mut writers: BTreeMap<u32, Vec<(usize, usize, usize)>> = BTreeMap::new();
    for sid in &sids {
        let mut v = Vec::new();
        for (path, vs) in &all_versions {
            if path.ends_with(&file_of(*sid)) {
                for b in vs {
                    match b.as_ref().and_then(|b| serde_json::from_slice::<ShardMetadata>(b).ok()).and_then(|m| canon(&m)) {
                        Some(x) => v.push(x),
                        None => {
                            bad.push(format!("shard {}: a stored version is not what any caller supplied (or a delete)", sid));
                            v.push((u64::MAX, 0, 0));
                        }
                    }
                }
            }
        }
        let w: Vec<(usize, usize, usize)> = run
            .log
            .iter()
            .enumerate()
            .filter(|(_, e)| e.info.verb == "PUT" && e.ok && e.info.path.ends_with(&file_of(*sid)))
            .map(|(s, e)| (e.info.client, op_of_step.get(s).cloned().unwrap_or(usize::MAX), s))
            .collect();
        if w.len() != v.len() {
            bad.push(format!("shard {}: {} versions recorded but {} applied PUTs logged", sid, v.len(), w.len()));
        }
        vers.insert(*sid, v);
        writers.insert(*sid, w);
    }
    // final state through a fresh client
    let fresh = ObjectStoreMetadataClient::new(hub.client(99), cfg.clone());
    let mut finals: BTreeMap<u32, Option<(u64, u64, u64)>> = BTreeMap::new();
    for sid in &sids {
        let f = match fresh.get_shard_metadata(&sid_name(*sid)).await {
            Ok(Some(m)) => canon(&m),
            Ok(None) => None,
            Err(e) => {
                bad.push(format!("shard {}: get_shard_metadata failed: {}", sid, e));
                None
            }
        };
        finals.insert(*sid, f);
    }
    let result_of = |k: usize, i: usize| run.results.get(k).and_then(|r| r.get(i)).cloned().unwrap_or_else(|| "missing".into());
    // was the op (k, i) hit by an injected fault / by a FailAfter on an applied PUT?
    let op_faulted = |k: usize, i: usize| (0..run.executed.len()).any(|s| run.executed[s] == k && op_of_step[s] == i && run.actions[s] != Action::Proceed);

    // ---------------- oracle ----------------
    for sid in &sids {
        let v = &vers[sid];
        let w = &writers[sid];
        let g0 = c.init.get(sid).map(|x| x.0).unwrap_or(0);
        for (i, x) in v.iter().enumerate() {
            if x.0 != g0 + 1 + i as u64 {
                bad.push(format!("shard {}: version {} has generation {} (expected {}): generations must rise by exactly one", sid, i, x.0, g0 + 1 + i as u64));
            }
        }
        // every version: written by the PUT of an update with expected = generation - 1 and that payload,
        // which reported Ok (or a transport error although its PUT was applied)
        for (j, x) in v.iter().enumerate() {
            let Some(&(k, i, s)) = w.get(j) else { continue };
            match c.progs.get(k).and_then(|p| p.get(i)) {
                Some(o) => {
                    if o.sid != *sid || o.expected.wrapping_add(1) != x.0 || o.st != x.1 || o.dt != x.2 {
                        bad.push(format!("shard {}: stored version {} was written by client {} op {} (expected generation {}, payload {}.{}): not expected+1 with the caller's payload", sid, show3(*x), k, i, o.expected, o.st, o.dt));
                    }
                    let r = result_of(k, i);
                    let lost_ack = r == "fault" && run.actions[s] == Action::FailAfter;
                    if r != "ok" && !lost_ack {
                        bad.push(format!("shard {}: client {} op {} returned {} but its PUT stored version {}: a rejected update had an effect", sid, k, i, r, show3(*x)));
                    }
                }
                None => bad.push(format!("shard {}: version {} written by an unknown operation", sid, show3(*x))),
            }
        }
        // results
        let mut oks: Vec<(u64, usize, usize)> = Vec::new();
        for (k, p) in c.progs.iter().enumerate() {
            for (i, o) in p.iter().enumerate() {
                if o.sid != *sid {
                    continue;
                }
                let r = result_of(k, i);
                if r == "ok" {
                    oks.push((o.expected, k, i));
                    let own = w.iter().filter(|(wk, wi, _)| *wk == k && *wi == i).count();
                    if own != 1 {
                        bad.push(format!("shard {}: client {} op {} (based on generation {}) reported success but {} versions were written by its own PUT", sid, k, i, o.expected, own));
                    }
                } else if let Some(rest) = r.strip_prefix("stale.") {
                    let f: Vec<u64> = rest.split('.').map(|y| y.parse().unwrap_or(u64::MAX)).collect();
                    let existed = f[1] == g0 && c.init.contains_key(sid) || v.iter().any(|x| x.0 == f[1]);
                    if f[0] != o.expected || f[1] == o.expected || !existed {
                        bad.push(format!("shard {}: client {} op {} rejected with {} but expected={} and stored generations were {:?} (init {:?})", sid, k, i, r, o.expected, v.iter().map(|x| x.0).collect::<Vec<_>>(), c.init.get(sid)));
                    }
                } else if r == "notfound" {
                    if c.init.contains_key(sid) || o.expected == 0 {
                        bad.push(format!("shard {}: client {} op {} got ShardNotFound (expected={}, existed initially: {})", sid, k, i, o.expected, c.init.contains_key(sid)));
                    }
                } else if r == "fault" {
                    if !op_faulted(k, i) {
                        bad.push(format!("shard {}: client {} op {} returned a transport error although no fault was injected into it", sid, k, i));
                    }
                } else {
                    bad.push(format!("shard {}: client {} op {} ended with {}", sid, k, i, r));
                }
            }
        }
        let mut exp: Vec<u64> = oks.iter().map(|x| x.0).collect();
        exp.sort();
        let before = exp.len();
        exp.dedup();
        if exp.len() != before {
            bad.push(format!("shard {}: two updates based on the same generation both succeeded: (base generation, client, op) = {:?}", sid, oks));
        }
        if faults == 0 && oks.len() != v.len() {
            bad.push(format!("shard {}: {} updates reported success but {} versions were written", sid, oks.len(), v.len()));
        }
        let creates = run.log.iter().filter(|e| e.info.verb == "PUT" && e.info.mode == "create" && e.ok && e.info.path.ends_with(&file_of(*sid))).count();
        if creates > 1 || (creates == 1 && c.init.contains_key(sid)) {
            bad.push(format!("shard {}: {} successful creations (existed initially: {})", sid, creates, c.init.contains_key(sid)));
        }
        let last = v.last().cloned().or_else(|| c.init.get(sid).cloned());
        if finals[sid] != last {
            bad.push(format!("shard {}: final get_shard_metadata {:?} is not the last version written {:?}", sid, finals[sid], last));
        }
    }

    // ---------------- in-memory backend ----------------
    let mut lres: Vec<String> = Vec::new();
    let mut lfinal: BTreeMap<u32, Option<(u64, u64, u64)>> = BTreeMap::new();
    let mut local_ok = false;
    if seedable(c) {
        match seeded_local(c).await {
            Err(e) => bad.push(e),
            Ok(local) => {
                local_ok = true;
                // oracle: an update succeeds iff it is based on the stored generation (absent = 0 for a
                // creation) and then stores exactly expected + 1, whatever the record's own field says
                let mut ref_gen: BTreeMap<u32, Option<u64>> = sids.iter().map(|s| (*s, c.init.get(s).map(|v| v.0))).collect();
                for (i, o) in local_history(c, &run.executed).iter().enumerate() {
                    let m = make_meta(o.sid, o.gf, o.st, o.dt);
                    let r = local.update_shard_metadata(&sid_name(o.sid), &m, o.expected).await;
                    let rs = res_string(&r);
                    let cur = ref_gen[&o.sid];
                    let want = match cur {
                        Some(g) if g == o.expected => "ok".to_string(),
                        Some(g) => format!("stale.{}.{}", o.expected, g),
                        None if o.expected == 0 => "ok".to_string(),
                        None => "notfound".to_string(),
                    };
                    if rs != want {
                        bad.push(format!("in-memory backend: update {} of shard {} with expected generation {} (record field {}) over stored generation {:?} returned {} (must be {})", i, o.sid, o.expected, o.gf, cur, rs, want));
                    }
                    if rs == "ok" {
                        let got = local.get_shard_metadata(&sid_name(o.sid)).await.ok().flatten().and_then(|m| canon(&m));
                        if got != Some((o.expected + 1, o.st, o.dt)) {
                            bad.push(format!("in-memory backend: after a successful update based on generation {} (record field {}) the shard is {:?}, not generation {}", o.expected, o.gf, got, o.expected + 1));
                        }
                        ref_gen.insert(o.sid, got.map(|g| g.0));
                    }
                    lres.push(rs);
                }
                for sid in &sids {
                    lfinal.insert(*sid, local.get_shard_metadata(&sid_name(*sid)).await.ok().flatten().and_then(|m| canon(&m)));
                }
            }
        }
        // oracle: sequential replay of the written versions, in order, gives the same shard
        if let Ok(local2) = seeded_local(c).await {
            for sid in &sids {
                for x in &vers[sid] {
                    let m = make_meta(*sid, x.0.wrapping_sub(1), x.1, x.2);
                    if let Err(e) = local2.update_shard_metadata(&sid_name(*sid), &m, x.0.wrapping_sub(1)).await {
                        bad.push(format!("shard {}: replaying the written versions one at a time fails at generation {}: {}", sid, x.0, e));
                        break;
                    }
                }
                let f = local2.get_shard_metadata(&sid_name(*sid)).await.ok().flatten().and_then(|m| canon(&m));
                if f != finals[sid] {
                    bad.push(format!("shard {}: final state {:?} differs from the one-at-a-time replay {:?}", sid, finals[sid], f));
                }
            }
        }
    }
    if !local_ok {
        lres.clear();
        for sid in &sids {
            lfinal.insert(*sid, c.init.get(sid).cloned());
        }
    }

    let steps = run.executed.iter().zip(run.kinds.iter()).map(|(c, k)| format!("{}:{}", c, k)).collect::<Vec<_>>().join(",");
    let res = (0..n).map(|k| run.results[k].join(";")).collect::<Vec<_>>().join("/");
    let versl = sids.iter().map(|s| format!("{}={}", s, vers[s].iter().map(|x| show3(*x)).collect::<Vec<_>>().join(","))).collect::<Vec<_>>().join(";");
    let fin = |m: &BTreeMap<u32, Option<(u64, u64, u64)>>| {
        sids.iter().map(|s| format!("{}={}", s, m.get(s).cloned().flatten().map(show3).unwrap_or_else(|| "none".into()))).collect::<Vec<_>>().join(";")
    };
    let line = format!("steps={}|res={}|vers={}|final={}|lres={}|lfinal={}", steps, res, versl, fin(&finals), lres.join(";"), fin(&lfinal));
    ImplOut { line, executed, bad, conflicts, faults }
}

// ------------------------------------------------------------- router ----
fn router_key(id: u32) -> ShardKey {
    ShardKey::new(id, "m", 0)
}

/// ops: U id gen data | I id | A | M id nid ngen ndata | Q id
fn run_router(ops: &[String]) -> (String, Vec<String>) {
    let r = std::panic::catch_unwind(AssertUnwindSafe(|| run_router_inner(ops)));
    r.unwrap_or_else(|_| ("PANIC".into(), vec!["panic in the router history".into()]))
}

fn run_router_inner(ops: &[String]) -> (String, Vec<String>) {
    let router = ShardRouter::new(Duration::from_secs(3600));
    let mut outs = Vec::new();
    let mut bad = Vec::new();
    let cached = |r: &ShardRouter, id: u32| r.get_shard(&router_key(id)).map(|m| (m.generation, m.min_time as u64));
    for (i, op) in ops.iter().enumerate() {
        let f: Vec<&str> = op.split(' ').collect();
        let num = |j: usize| -> u64 { f.get(j).and_then(|x| x.parse().ok()).unwrap_or(0) };
        match f[0] {
            "U" => {
                let id = num(1) as u32;
                let before = cached(&router, id);
                router.update_routing(make_meta(id, num(2), 0, num(3)));
                let after = cached(&router, id);
                let want = before.map(|b| b.0).unwrap_or(0).max(num(2));
                if after.map(|a| a.0) != Some(want) {
                    bad.push(format!("op {}: update_routing(gen {}) over cached {:?} left {:?}: a cached entry must never be replaced by an older generation", i, num(2), before, after));
                }
            }
            "I" => router.invalidate(&sid_name(num(1) as u32)),
            "A" => router.invalidate_all(),
            "M" => router.handle_shard_moved(&sid_name(num(1) as u32), make_meta(num(2) as u32, num(3), 0, num(4))),
            "Q" => outs.push(cached(&router, num(1) as u32).map(|x| format!("{}.{}", x.0, x.1)).unwrap_or_else(|| "none".into())),
            _ => {}
        }
    }
    (outs.join(";"), bad)
}

fn gen_router(rng: &mut Rng) -> Vec<String> {
    let n = rng.range_usize(3, 14);
    let mut ops = Vec::new();
    for i in 0..n {
        let id = rng.below(3);
        match rng.below(10) {
            0..=5 => ops.push(format!("U {} {} {}", id, rng.below(6), 100 + i)),
            6 => ops.push(format!("I {}", id)),
            7 => {
                if rng.chance(1, 3) {
                    ops.push("A".to_string())
                } else {
                    ops.push(format!("M {} {} {} {}", id, rng.below(3), rng.below(6), 200 + i))
                }
            }
            _ => {}
        }
        ops.push(format!("Q {}", rng.below(3)));
    }
    ops
}

// ---------------------------------------------------------- generators ----
/// generation field of the record passed by the caller: equal to the expected
/// generation, 0, stale, one ahead, far ahead, arbitrary
fn gen_gf(rng: &mut Rng, expected: u64) -> u64 {
    match rng.below(8) {
        0 | 1 => expected,
        2 => 0,
        3 => expected.saturating_sub(1),
        4 => expected + 1,
        5 => expected + 41,
        6 => 1_000_000 + rng.below(1000),
        _ => rng.below(6),
    }
}

fn gen_case(rng: &mut Rng, report: &mut Report, with_faults: bool) -> Case {
    let n = rng.range_usize(2, 4);
    let mut init = BTreeMap::new();
    let two_shards = rng.chance(1, 5);
    let nsh = if two_shards { 2 } else { 1 };
    for sid in 0..nsh {
        match rng.below(5) {
            0 | 1 => {}
            2 => {
                init.insert(sid, (1, rng.below(3), 50 + rng.below(5)));
            }
            3 => {
                init.insert(sid, (rng.range_i64(2, 4) as u64, rng.below(3), 50 + rng.below(5)));
            }
            _ => {
                if rng.chance(1, 4) {
                    init.insert(sid, (0, 0, 50));
                    report.bump("init.generation_zero");
                }
            }
        }
    }
    if two_shards {
        report.bump("case.two_shards");
    }
    let mut progs = Vec::new();
    let mut uniq = 0u64;
    for _ in 0..n {
        let k = rng.range_usize(1, 3);
        let mut p = Vec::new();
        for j in 0..k {
            let sid = rng.below(nsh as u64) as u32;
            let g0 = init.get(&sid).map(|x| x.0).unwrap_or(0);
            // expected generation: race on the current one, follow-ups, stale, far off
            let expected = match rng.below(10) {
                0..=4 => g0 + j as u64,
                5 | 6 => g0 + rng.below(3),
                7 => g0.saturating_sub(1),
                8 => 0,
                _ => g0 + 5,
            };
            uniq += 1;
            p.push(SOp { sid, expected, st: rng.below(3), dt: uniq, gf: gen_gf(rng, expected) });
        }
        progs.push(p);
    }
    let total: usize = progs.iter().map(|p| p.len()).sum();
    let len = rng.range_usize(0, total * 4);
    let clients: Vec<usize> = match rng.below(4) {
        0 => (0..len).map(|i| i % n).collect(), // round robin: all GETs, then all PUTs
        1 => {
            // blocks
            let mut s = Vec::new();
            while s.len() < len {
                let c = rng.below(n as u64) as usize;
                for _ in 0..rng.range_usize(1, 3) {
                    s.push(c);
                }
            }
            s
        }
        _ => (0..len).map(|_| rng.below(n as u64) as usize).collect(),
    };
    let sched = clients
        .into_iter()
        .map(|c| {
            let a = if with_faults && rng.chance(1, 5) { if rng.chance(1, 2) { Action::FailBefore } else { Action::FailAfter } } else { Action::Proceed };
            (c, a)
        })
        .collect();
    Case { init, progs, sched }
}

fn p(cs: &[usize]) -> Vec<(usize, Action)> {
    cs.iter().map(|c| (*c, Action::Proceed)).collect()
}

/// proof-derived corner cases, always run first
fn corpus() -> Vec<Case> {
    let op = |sid, expected, st, dt| SOp { sid, expected, st, dt, gf: expected };
    let opg = |sid, expected, st, dt, gf| SOp { sid, expected, st, dt, gf };
    let mut v = Vec::new();
    // creation race GET,GET,PUT,PUT: one creator wins, the loser reloads and is told stale 0 -> 1
    v.push(Case { init: BTreeMap::new(), progs: vec![vec![op(0, 0, 0, 1)], vec![op(0, 0, 1, 2)]], sched: p(&[0, 1, 0, 1]) });
    v.push(Case { init: BTreeMap::new(), progs: vec![vec![op(0, 0, 0, 1)], vec![op(0, 0, 1, 2)]], sched: p(&[0, 1, 1, 0]) });
    // update race on the same generation
    let mut i1 = BTreeMap::new();
    i1.insert(0, (1, 0, 9));
    v.push(Case { init: i1.clone(), progs: vec![vec![op(0, 1, 1, 1)], vec![op(0, 1, 2, 2)], vec![op(0, 1, 0, 3)]], sched: p(&[0, 1, 2, 2, 1, 0]) });
    // a stale writer parked before its PUT while two newer generations are written
    v.push(Case { init: i1.clone(), progs: vec![vec![op(0, 1, 1, 1)], vec![op(0, 1, 2, 2), op(0, 2, 0, 3)]], sched: p(&[0, 1, 1, 1, 1, 0, 0]) });
    // update of a missing shard, creation with a stale expectation, generation 0 stored
    v.push(Case { init: BTreeMap::new(), progs: vec![vec![op(0, 3, 0, 1), op(0, 0, 0, 2), op(0, 0, 0, 3)], vec![op(0, 1, 1, 4)]], sched: p(&[0, 0, 1, 0, 1]) });
    let mut i0 = BTreeMap::new();
    i0.insert(0, (0, 0, 9));
    v.push(Case { init: i0, progs: vec![vec![op(0, 0, 1, 1)], vec![op(0, 0, 2, 2)]], sched: p(&[0, 1, 0, 1]) });
    // two shard objects do not interfere
    v.push(Case { init: BTreeMap::new(), progs: vec![vec![op(0, 0, 0, 1), op(1, 0, 0, 2)], vec![op(1, 0, 1, 3), op(0, 0, 1, 4)]], sched: p(&[0, 1, 0, 1, 0, 1, 0, 1]) });
    // the generation field of the passed record is irrelevant: create; W updates based on 1 passing a record
    // with field 0 (resp. 41); S updates based on 1 and must be rejected as stale 1 -> 2
    v.push(Case { init: BTreeMap::new(), progs: vec![vec![opg(0, 0, 0, 1, 7), opg(0, 1, 1, 2, 0)], vec![opg(0, 1, 2, 3, 1)]], sched: p(&[0, 0, 0, 0, 1, 1]) });
    v.push(Case { init: BTreeMap::new(), progs: vec![vec![opg(0, 0, 0, 1, 0), opg(0, 1, 1, 2, 41)], vec![opg(0, 1, 2, 3, 0), opg(0, 2, 0, 4, 0)]], sched: p(&[0, 0, 0, 0, 1, 1, 1, 1]) });
    // faults: A's PUT fails without being applied while B's update on the same base lands, then A goes on;
    // and the lost acknowledgement: A's PUT is applied but reported as failed, B must be told stale
    for a in [Action::FailBefore, Action::FailAfter] {
        v.push(Case { init: i1.clone(), progs: vec![vec![op(0, 1, 1, 1)], vec![op(0, 1, 2, 2)]], sched: vec![(0, Action::Proceed), (1, Action::Proceed), (0, a), (1, Action::Proceed), (0, Action::Proceed), (1, Action::Proceed)] });
        v.push(Case { init: BTreeMap::new(), progs: vec![vec![op(0, 0, 1, 1), op(0, 1, 1, 5)], vec![op(0, 0, 2, 2)]], sched: vec![(0, Action::Proceed), (1, Action::Proceed), (0, a), (1, Action::Proceed), (0, Action::Proceed), (1, Action::Proceed)] });
    }
    // a failing GET ends the update with an error and nothing written
    v.push(Case { init: i1, progs: vec![vec![op(0, 1, 1, 1)], vec![op(0, 1, 2, 2)]], sched: vec![(0, Action::FailBefore), (1, Action::Proceed), (1, Action::FailAfter)] });
    v
}

fn exhaustive_cases(with_faults: bool) -> Vec<Case> {
    // 2 clients x 1 op each, every pair of expected generations in {0,1,2}, shard absent or at generation 1,
    // every schedule prefix of length 6 (the drain completes it): all interleavings of two load/PUT/reload
    // sequences.  With faults: additionally every position x {FailBefore, FailAfter} of ONE injected fault.
    let mut v = Vec::new();
    let seqs = all_sequences(2, 6);
    for init_present in [false, true] {
        for e0 in 0..3u64 {
            for e1 in 0..3u64 {
                for s in &seqs {
                    let mut init = BTreeMap::new();
                    if init_present {
                        init.insert(0, (1, 0, 9));
                    }
                    let progs = vec![vec![SOp { sid: 0, expected: e0, st: 1, dt: 1, gf: 40 + e0 }], vec![SOp { sid: 0, expected: e1, st: 2, dt: 2, gf: 0 }]];
                    if !with_faults {
                        v.push(Case { init, progs, sched: p(s) });
                    } else {
                        // only races on a common base are interesting under faults
                        if e0 != e1 {
                            continue;
                        }
                        for pos in 0..s.len() {
                            for a in [Action::FailBefore, Action::FailAfter] {
                                let mut sched = p(s);
                                sched[pos].1 = a;
                                v.push(Case { init: init.clone(), progs: progs.clone(), sched });
                            }
                        }
                    }
                }
            }
        }
    }
    v
}

fn findings(report: &Report) -> usize {
    report.disagreements.len() + report.oracle_violations.len()
}

fn check_case(c: &Case, origin: &str, model: &mut Model, report: &mut Report, out_path: &str) {
    let out = run_impl(c);
    report.impl_runs += 1;
    let line = encode(c, &out.executed);
    let nontrivial = out.conflicts > 0 || out.faults > 0;
    report.case(if nontrivial { Some(&line) } else { None });
    report.bump(&format!("origin.{}", origin));
    report.bump(&format!("conflicts.{}", out.conflicts.min(4)));
    report.bump(&format!("faults.{}", out.faults.min(4)));
    report.bump(&format!("clients.{}", c.progs.len()));
    if c.progs.iter().flatten().any(|o| o.gf != o.expected) {
        report.bump("record.generation_field_differs_from_expected");
    }
    for (tag, key) in [("stale.", "result.stale"), ("notfound", "result.notfound"), ("fault", "result.transport_error"), ("Pc-", "step.create_conflict"), ("Pu-", "step.update_conflict"), ("!", "step.put_applied_but_error"), ("x", "step.request_failed_before_effect")] {
        if out.line.contains(tag) {
            report.bump(key);
        }
    }
    let (differs, model_out) = model.differs(&line, &out.line);
    report.sample(json!({"case": line, "impl": out.line, "model": model_out}));
    let mk = |sched: &[(usize, Action)]| Case { init: c.init.clone(), progs: c.progs.clone(), sched: sched.to_vec() };
    if differs {
        let shrunk = ddmin_capped(&c.sched, SHRINK_BUDGET, &mut |cand: &[(usize, Action)]| {
            let cc = mk(cand);
            let o = run_impl(&cc);
            model.differs(&encode(&cc, &o.executed), &o.line).0
        });
        let cc = mk(&shrunk);
        let o = run_impl(&cc);
        let sl = encode(&cc, &o.executed);
        let sm = model.ask(&sl);
        report.disagreement(json!({
            "correspondence": "CAS machine instance Model/Shard.v (shard_step / shard_fstep / local_update) vs ObjectStoreMetadataClient / LocalMetadataClient::update_shard_metadata",
            "case": line, "impl": out.line, "model": model_out,
            "shrunk": sl, "shrunk_impl": o.line, "shrunk_model": sm,
            "oracle_failed": !out.bad.is_empty() || !o.bad.is_empty(),
        }));
        report.write(out_path);
    }
    if !out.bad.is_empty() {
        let shrunk = ddmin_capped(&c.sched, SHRINK_BUDGET, &mut |cand: &[(usize, Action)]| !run_impl(&mk(cand)).bad.is_empty());
        let cc = mk(&shrunk);
        let o = run_impl(&cc);
        let (what, cl) = if o.bad.is_empty() { (out.bad.join("; "), line.clone()) } else { (o.bad.join("; "), encode(&cc, &o.executed)) };
        report.oracle_violation("", &what, json!({"case": cl, "original": line}));
        report.write(out_path);
    }
}

fn check_router(ops: &[String], model: &mut Model, report: &mut Report, out_path: &str) {
    let line = format!("R|{}", ops.join(";"));
    let (out, bad) = run_router(ops);
    report.impl_runs += 1;
    report.case(if ops.iter().any(|o| o.starts_with('U')) { Some(&line) } else { None });
    report.bump("origin.router");
    let (differs, model_out) = model.differs(&line, &out);
    if differs {
        let shrunk = ddmin_capped(ops, SHRINK_BUDGET, &mut |cand: &[String]| {
            let (o, _) = run_router(cand);
            model.differs(&format!("R|{}", cand.join(";")), &o).0
        });
        let sl = format!("R|{}", shrunk.join(";"));
        report.disagreement(json!({
            "correspondence": "router_apply (Model/Shard.v) vs ShardRouter::update_routing / invalidate / handle_shard_moved",
            "case": line, "impl": out, "model": model_out, "shrunk": sl,
            "oracle_failed": !bad.is_empty(),
        }));
        report.write(out_path);
    }
    if !bad.is_empty() {
        report.oracle_violation("", &bad.join("; "), json!({"case": line}));
        report.write(out_path);
    }
}

fn main() {
    let args = Args::parse();
    csv_common::quiet_panics();
    let mut model = Model::spawn(&args.model);
    let mut report = Report::new("C13");

    if let Some(path) = &args.replay {
        let txt = std::fs::read_to_string(path).expect("replay file");
        let v: serde_json::Value = serde_json::from_str(&txt).expect("replay json");
        let line = v["case"].as_str().or_else(|| v["shrunk"].as_str()).unwrap_or("").to_string();
        if let Some(body) = line.strip_prefix("R|") {
            let ops: Vec<String> = body.split(';').map(|s| s.to_string()).collect();
            let (out, bad) = run_router(&ops);
            let m = model.ask(&line);
            println!("case : {}\nimpl : {}\nmodel: {}\noracle failures: {:?}", line, out, m, bad);
            std::process::exit(if bad.is_empty() && (model.is_null() || out == m) { 0 } else { 1 });
        }
        let c = decode(&line);
        let out = run_impl(&c);
        let l2 = encode(&c, &out.executed);
        let m = model.ask(&l2);
        println!("case : {}\nimpl : {}\nmodel: {}\noracle failures: {:?}", l2, out.line, m, out.bad);
        std::process::exit(if out.bad.is_empty() && (model.is_null() || out.line == m) { 0 } else { 1 });
    }

    let out_path = args.out.clone();
    let mut rng = Rng::new(args.seed);
    let mut cases: Vec<(&str, Case)> = Vec::new();
    for c in corpus() {
        cases.push(("corpus", c));
    }
    for c in exhaustive_cases(false) {
        cases.push(("exhaustive_2x1", c));
    }
    for c in exhaustive_cases(true) {
        // quick: a seeded quarter of the one-fault sweep; thorough: all of it
        if args.thorough() || rng.chance(1, 4) {
            cases.push(("exhaustive_2x1_one_fault", c));
        }
    }
    let n_random = if args.thorough() { 60_000 } else { 4000 };
    for i in 0..n_random {
        let mut r = rng.fork();
        let faulty = i % 3 == 2;
        let c = gen_case(&mut r, &mut report, faulty);
        cases.push((if faulty { "random_faults" } else { "random" }, c));
    }
    let mut stopped = false;
    for (origin, c) in &cases {
        check_case(c, origin, &mut model, &mut report, &out_path);
        if findings(&report) >= MAX_FINDINGS {
            stopped = true;
            break;
        }
    }
    let n_router = if args.thorough() { 20_000 } else { 2000 };
    for _ in 0..n_router {
        if findings(&report) >= MAX_FINDINGS {
            stopped = true;
            break;
        }
        let mut r = rng.fork();
        let ops = gen_router(&mut r);
        check_router(&ops, &mut model, &mut report, &out_path);
    }
    if stopped {
        report.notes.push(format!("stopped after {} findings", findings(&report)));
    }
    report.notes.push(format!("model calls: {}", model.calls));
    report.notes.push("exhaustive part: all 64 schedule prefixes x 9 expected-generation pairs x {absent, generation 1} for 2 clients x 1 update; one-fault sweep: every position x {fail-before, fail-after} on the same-base races (quick: a seeded quarter)".into());
    report.notes.push("fault steps are outside the theorems of Properties/C13.v (CasProto has no fault labels): there the model side is Model/CasFault.v (harness-only copy of the machine) and the oracle judges the implementation directly; an update returning a transport error is treated as indeterminate (may have been applied by its own FailAfter PUT)".into());
    report.write(&out_path);
}
