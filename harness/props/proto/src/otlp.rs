//! OTLP metrics: request generator, canonical text for the model runner,
//! canonical text of the produced batch, and the independent oracle.
use crate::wire::hex;
use arrow_array::{Array, Float64Array, RecordBatch, StringArray, TimestampNanosecondArray};
use csv_common::Rng;
use opentelemetry_proto::tonic::collector::metrics::v1::ExportMetricsServiceRequest;
use opentelemetry_proto::tonic::common::v1::{any_value, AnyValue, ArrayValue, KeyValue, KeyValueList};
use opentelemetry_proto::tonic::metrics::v1::{
    metric::Data, number_data_point, ExponentialHistogram, ExponentialHistogramDataPoint, Gauge, Histogram,
    HistogramDataPoint, Metric, NumberDataPoint, ResourceMetrics, ScopeMetrics, Sum, Summary, SummaryDataPoint,
};
use opentelemetry_proto::tonic::resource::v1::Resource;
use std::collections::BTreeMap;

fn gen_key(rng: &mut Rng) -> String {
    rng.pick(&["host", "service.name", "k", "env", "région", "", "timestamp", "a", "b"]).to_string()
}

/// attribute value; `modelled` restricts to string / bool / int / missing
fn gen_any(rng: &mut Rng, modelled: bool) -> Option<AnyValue> {
    let v = match rng.below(if modelled { 6 } else { 10 }) {
        0 => return None,
        1 => None,
        2 => Some(any_value::Value::StringValue(rng.pick(&["server1", "", "prod", "zürich", "x y"]).to_string())),
        3 => Some(any_value::Value::BoolValue(rng.chance(1, 2))),
        4 => Some(any_value::Value::IntValue(*rng.pick(&[0i64, 1, -1, 42, -12, i64::MAX, i64::MIN, 1000000007]))),
        5 => Some(any_value::Value::StringValue(format!("v{}", rng.below(4)))),
        6 => Some(any_value::Value::DoubleValue(*rng.pick(&[0.5, 1.0, -0.0, f64::NAN, f64::INFINITY, 1e300, 1e-7]))),
        7 => Some(any_value::Value::BytesValue((0..rng.range_usize(0, 6)).map(|_| rng.below(256) as u8).collect())),
        8 => Some(any_value::Value::ArrayValue(ArrayValue { values: vec![AnyValue { value: Some(any_value::Value::IntValue(1)) }, AnyValue { value: None }] })),
        _ => Some(any_value::Value::KvlistValue(KeyValueList { values: vec![KeyValue { key: "n".into(), value: None }] })),
    };
    Some(AnyValue { value: v })
}

fn gen_attrs(rng: &mut Rng, modelled: bool) -> Vec<KeyValue> {
    let n = match rng.below(6) {
        0 => 0,
        1..=3 => rng.range_usize(1, 2),
        _ => rng.range_usize(3, 5),
    };
    (0..n).map(|_| KeyValue { key: gen_key(rng), value: gen_any(rng, modelled) }).collect()
}

fn gen_time(rng: &mut Rng, bump: &mut dyn FnMut(&str)) -> u64 {
    match rng.below(10) {
        0 => {
            bump("otlp.time.zero");
            0
        }
        1 => {
            bump("otlp.time.i64_max");
            i64::MAX as u64
        }
        2 => {
            bump("otlp.time.beyond_i64");
            *rng.pick(&[1u64 << 63, (1u64 << 63) + 1, u64::MAX, u64::MAX - 5])
        }
        _ => {
            bump("otlp.time.epoch_ns");
            1_700_000_000_000_000_000 + rng.below(1_000_000_000_000)
        }
    }
}

fn gen_f64(rng: &mut Rng) -> f64 {
    f64::from_bits(crate::wire::gen_value_bits(rng).0)
}

pub fn gen_request(rng: &mut Rng, modelled: bool, bump: &mut dyn FnMut(&str)) -> ExportMetricsServiceRequest {
    let n_rm = match rng.below(12) {
        0 => 0,
        1..=8 => 1,
        _ => rng.range_usize(2, 3),
    };
    let mut rms = Vec::new();
    for _ in 0..n_rm {
        let resource = if rng.chance(3, 4) {
            bump("otlp.resource.with_attributes");
            Some(Resource { attributes: gen_attrs(rng, modelled), dropped_attributes_count: 0 })
        } else {
            bump("otlp.resource.none");
            None
        };
        let mut scopes = Vec::new();
        for _ in 0..rng.range_usize(0, 2) {
            let mut metrics = Vec::new();
            for _ in 0..rng.range_usize(0, 3) {
                let name = rng.pick(&["cpu_usage", "latency", "", "mém"]).to_string();
                let npts = rng.range_usize(0, 3);
                let data = match rng.below(7) {
                    0 => {
                        bump("otlp.metric.no_data");
                        None
                    }
                    1 | 2 => {
                        bump("otlp.metric.gauge");
                        Some(Data::Gauge(Gauge { data_points: (0..npts).map(|_| gen_number_point(rng, modelled, bump)).collect() }))
                    }
                    3 => {
                        bump("otlp.metric.sum");
                        Some(Data::Sum(Sum {
                            data_points: (0..npts).map(|_| gen_number_point(rng, modelled, bump)).collect(),
                            aggregation_temporality: 2,
                            is_monotonic: true,
                        }))
                    }
                    4 => {
                        bump("otlp.metric.histogram");
                        Some(Data::Histogram(Histogram {
                            data_points: (0..npts)
                                .map(|_| HistogramDataPoint {
                                    attributes: gen_attrs(rng, modelled),
                                    time_unix_nano: gen_time(rng, bump),
                                    count: *rng.pick(&[0u64, 3, 1 << 53, (1 << 53) + 1, u64::MAX]),
                                    sum: if rng.chance(2, 3) { Some(gen_f64(rng)) } else { None },
                                    ..Default::default()
                                })
                                .collect(),
                            aggregation_temporality: 2,
                        }))
                    }
                    5 => {
                        bump("otlp.metric.exp_histogram");
                        Some(Data::ExponentialHistogram(ExponentialHistogram {
                            data_points: (0..npts)
                                .map(|_| ExponentialHistogramDataPoint {
                                    attributes: gen_attrs(rng, modelled),
                                    time_unix_nano: gen_time(rng, bump),
                                    count: *rng.pick(&[0u64, 7, 1 << 60, u64::MAX - 1]),
                                    sum: if rng.chance(2, 3) { Some(gen_f64(rng)) } else { None },
                                    ..Default::default()
                                })
                                .collect(),
                            aggregation_temporality: 1,
                        }))
                    }
                    _ => {
                        bump("otlp.metric.summary");
                        Some(Data::Summary(Summary {
                            data_points: (0..npts)
                                .map(|_| SummaryDataPoint {
                                    attributes: gen_attrs(rng, modelled),
                                    time_unix_nano: gen_time(rng, bump),
                                    count: 5,
                                    sum: gen_f64(rng),
                                    ..Default::default()
                                })
                                .collect(),
                        }))
                    }
                };
                metrics.push(Metric { name, description: String::new(), unit: String::new(), metadata: vec![], data });
            }
            scopes.push(ScopeMetrics { scope: None, metrics, schema_url: String::new() });
        }
        rms.push(ResourceMetrics { resource, scope_metrics: scopes, schema_url: String::new() });
    }
    ExportMetricsServiceRequest { resource_metrics: rms }
}

fn gen_number_point(rng: &mut Rng, modelled: bool, bump: &mut dyn FnMut(&str)) -> NumberDataPoint {
    let value = match rng.below(8) {
        0 => {
            bump("otlp.value.none");
            None
        }
        1 | 2 => {
            bump("otlp.value.int_small");
            Some(number_data_point::Value::AsInt(*rng.pick(&[0i64, 1, -1, 42, -1000, 9007199254740992, -9007199254740992])))
        }
        3 => {
            bump("otlp.value.int_beyond_2p53");
            Some(number_data_point::Value::AsInt(*rng.pick(&[9007199254740993i64, -9007199254740993, i64::MAX, i64::MIN + 1, i64::MAX - 1, 1 << 62, (1 << 62) + 1])))
        }
        _ => {
            bump("otlp.value.double");
            Some(number_data_point::Value::AsDouble(gen_f64(rng)))
        }
    };
    NumberDataPoint { attributes: gen_attrs(rng, modelled), time_unix_nano: gen_time(rng, bump), value, ..Default::default() }
}

// ------------------------------------------------ text for the model ----
fn av_text(v: &Option<AnyValue>, strict: bool) -> Option<String> {
    match v.as_ref().and_then(|a| a.value.as_ref()) {
        None => Some("n".into()),
        Some(any_value::Value::StringValue(s)) => Some(format!("s{}", hex(s.as_bytes()))),
        Some(any_value::Value::BoolValue(b)) => Some(if *b { "b1".into() } else { "b0".into() }),
        Some(any_value::Value::IntValue(i)) => Some(format!("i{}", i)),
        _ => if strict { None } else { Some("n".into()) },
    }
}
fn kv_text(l: &[KeyValue], strict: bool) -> Option<String> {
    let mut v = Vec::new();
    for kv in l {
        v.push(format!("{}={}", hex(kv.key.as_bytes()), av_text(&kv.value, strict)?));
    }
    Some(v.join("~"))
}

/// None when the request uses attribute values the model does not cover
pub fn request_text(r: &ExportMetricsServiceRequest) -> Option<String> {
    request_text_with(r, true)
}
/// attribute values the model does not cover are replaced by "missing": good
/// enough for the known-finding classifiers, which look at times and values only
pub fn classifier_text(r: &ExportMetricsServiceRequest) -> String {
    request_text_with(r, false).unwrap_or_else(|| "-".into())
}
fn request_text_with(r: &ExportMetricsServiceRequest, strict: bool) -> Option<String> {
    if r.resource_metrics.is_empty() {
        return Some("-".into());
    }
    let mut rms = Vec::new();
    for rm in &r.resource_metrics {
        let res = match &rm.resource {
            None => "N".to_string(),
            Some(x) => format!("S{}", kv_text(&x.attributes, strict)?),
        };
        let mut scopes = Vec::new();
        for sc in &rm.scope_metrics {
            if sc.metrics.is_empty() {
                scopes.push(".".to_string());
                continue;
            }
            let mut ms = Vec::new();
            for m in &sc.metrics {
                let np = |p: &NumberDataPoint| -> Option<String> {
                    let v = match &p.value {
                        None => "N".to_string(),
                        Some(number_data_point::Value::AsDouble(d)) => format!("D{}", d.to_bits()),
                        Some(number_data_point::Value::AsInt(i)) => format!("I{}", i),
                    };
                    Some(format!("{},{},{}", p.time_unix_nano, v, kv_text(&p.attributes, strict)?))
                };
                let (kind, pts): (&str, Vec<Option<String>>) = match &m.data {
                    None => ("N", vec![]),
                    Some(Data::Gauge(g)) => ("G", g.data_points.iter().map(np).collect()),
                    Some(Data::Sum(s)) => ("S", s.data_points.iter().map(np).collect()),
                    Some(Data::Histogram(h)) => (
                        "H",
                        h.data_points
                            .iter()
                            .map(|p| Some(format!("{},{},{},{}", p.time_unix_nano, p.sum.map(|s| format!("S{}", s.to_bits())).unwrap_or("N".into()), p.count, kv_text(&p.attributes, strict)?)))
                            .collect(),
                    ),
                    Some(Data::ExponentialHistogram(h)) => (
                        "E",
                        h.data_points
                            .iter()
                            .map(|p| Some(format!("{},{},{},{}", p.time_unix_nano, p.sum.map(|s| format!("S{}", s.to_bits())).unwrap_or("N".into()), p.count, kv_text(&p.attributes, strict)?)))
                            .collect(),
                    ),
                    Some(Data::Summary(s)) => ("Y", s.data_points.iter().map(|p| Some(format!("{},{},{}", p.time_unix_nano, p.sum.to_bits(), kv_text(&p.attributes, strict)?))).collect()),
                };
                let pts: Option<Vec<String>> = pts.into_iter().collect();
                ms.push(format!("{}@{}@{}", hex(m.name.as_bytes()), kind, pts?.join("&")));
            }
            scopes.push(ms.join("+"));
        }
        rms.push(format!("{}!{}", res, scopes.join("^")));
    }
    Some(rms.join("/"))
}

// --------------------------------------------- produced batch, decoded ----
#[derive(Clone, Debug)]
pub struct ORow {
    pub ts: i64,
    pub name: Vec<u8>,
    pub bits: Option<u64>,
    pub labels: BTreeMap<Vec<u8>, Vec<u8>>,
}

pub fn decode_batch(b: &RecordBatch) -> Result<(Vec<Vec<u8>>, Vec<ORow>), String> {
    if b.num_columns() < 3 {
        return Err("fewer than 3 columns".into());
    }
    let ts = b.column(0).as_any().downcast_ref::<TimestampNanosecondArray>().ok_or("column 0 is not Timestamp(ns)")?;
    let name = b.column(1).as_any().downcast_ref::<StringArray>().ok_or("column 1 is not Utf8")?;
    let f = b.column(2).as_any().downcast_ref::<Float64Array>().ok_or("column 2 is not Float64")?;
    let schema = b.schema();
    let mut cols: Vec<(Vec<u8>, &StringArray)> = Vec::new();
    for k in 3..b.num_columns() {
        cols.push((schema.field(k).name().as_bytes().to_vec(), b.column(k).as_any().downcast_ref::<StringArray>().ok_or("label column is not Utf8")?));
    }
    cols.sort_by(|a, b| a.0.cmp(&b.0));
    for w in cols.windows(2) {
        if w[0].0 == w[1].0 {
            return Err(format!("label column {:?} appears twice", String::from_utf8_lossy(&w[0].0)));
        }
    }
    let mut rows = Vec::new();
    for r in 0..b.num_rows() {
        let mut labels = BTreeMap::new();
        for (k, c) in &cols {
            if !c.is_null(r) {
                labels.insert(k.clone(), c.value(r).as_bytes().to_vec());
            }
        }
        rows.push(ORow { ts: ts.value(r), name: name.value(r).as_bytes().to_vec(), bits: if f.is_null(r) { None } else { Some(f.value(r).to_bits()) }, labels });
    }
    Ok((cols.into_iter().map(|c| c.0).collect(), rows))
}

pub fn canon_batch(b: &RecordBatch) -> String {
    match decode_batch(b) {
        Err(e) => format!("BADBATCH {}", e),
        Ok((cols, rows)) => format!(
            "cols={}|rows={}",
            cols.iter().map(|c| format!("x{}", hex(c))).collect::<Vec<_>>().join(","),
            rows.iter()
                .map(|r| {
                    format!(
                        "{};{};{};{}",
                        r.ts,
                        hex(&r.name),
                        r.bits.map(|b| b.to_string()).unwrap_or("NULL".into()),
                        cols.iter().map(|c| r.labels.get(c).map(|v| format!("x{}", hex(v))).unwrap_or("~".into())).collect::<Vec<_>>().join(",")
                    )
                })
                .collect::<Vec<_>>()
                .join("/")
        ),
    }
}

// ------------------------------------------------------------- oracle ----
/// What the property demands of each data point, computed independently.
pub struct Expect {
    pub time: u64,
    pub name: Vec<u8>,
    pub value: ExpValue,
    /// None = some attribute value is formatted by library code (not judged)
    pub labels: Option<BTreeMap<Vec<u8>, Vec<u8>>>,
}
pub enum ExpValue {
    Bits(u64),
    Int(i128),
    Absent,
}

fn attr_string(v: &Option<AnyValue>) -> Option<Vec<u8>> {
    match v.as_ref().and_then(|a| a.value.as_ref()) {
        None => Some(Vec::new()),
        Some(any_value::Value::StringValue(s)) => Some(s.as_bytes().to_vec()),
        Some(any_value::Value::BoolValue(b)) => Some(b.to_string().into_bytes()),
        Some(any_value::Value::IntValue(i)) => Some(i.to_string().into_bytes()),
        _ => None,
    }
}

pub fn expectations(r: &ExportMetricsServiceRequest) -> Vec<Expect> {
    let mut out = Vec::new();
    for rm in &r.resource_metrics {
        let res: Vec<KeyValue> = rm.resource.as_ref().map(|x| x.attributes.clone()).unwrap_or_default();
        let merged = |attrs: &[KeyValue]| -> Option<BTreeMap<Vec<u8>, Vec<u8>>> {
            let mut m = BTreeMap::new();
            for kv in res.iter().chain(attrs.iter()) {
                m.insert(kv.key.as_bytes().to_vec(), attr_string(&kv.value)?);
            }
            Some(m)
        };
        for sc in &rm.scope_metrics {
            for m in &sc.metrics {
                let name = m.name.as_bytes().to_vec();
                let mut num = |p: &NumberDataPoint| {
                    out.push(Expect {
                        time: p.time_unix_nano,
                        name: name.clone(),
                        value: match &p.value {
                            None => ExpValue::Absent,
                            Some(number_data_point::Value::AsDouble(d)) => ExpValue::Bits(d.to_bits()),
                            Some(number_data_point::Value::AsInt(i)) => ExpValue::Int(*i as i128),
                        },
                        labels: merged(&p.attributes),
                    })
                };
                match &m.data {
                    None => {}
                    Some(Data::Gauge(g)) => g.data_points.iter().for_each(&mut num),
                    Some(Data::Sum(s)) => s.data_points.iter().for_each(&mut num),
                    Some(Data::Histogram(h)) => {
                        for p in &h.data_points {
                            out.push(Expect { time: p.time_unix_nano, name: name.clone(), value: p.sum.map(|s| ExpValue::Bits(s.to_bits())).unwrap_or(ExpValue::Int(p.count as i128)), labels: merged(&p.attributes) });
                        }
                    }
                    Some(Data::ExponentialHistogram(h)) => {
                        for p in &h.data_points {
                            out.push(Expect { time: p.time_unix_nano, name: name.clone(), value: p.sum.map(|s| ExpValue::Bits(s.to_bits())).unwrap_or(ExpValue::Int(p.count as i128)), labels: merged(&p.attributes) });
                        }
                    }
                    Some(Data::Summary(s)) => {
                        for p in &s.data_points {
                            out.push(Expect { time: p.time_unix_nano, name: name.clone(), value: ExpValue::Bits(p.sum.to_bits()), labels: merged(&p.attributes) });
                        }
                    }
                }
            }
        }
    }
    out
}

/// exact integer value of a finite f64 (None when not an integer or not finite)
pub fn f64_exact_int(bits: u64) -> Option<i128> {
    let v = f64::from_bits(bits);
    if !v.is_finite() {
        return None;
    }
    let e = ((bits >> 52) & 0x7ff) as i32;
    let frac = bits & ((1u64 << 52) - 1);
    let (m, ex) = if e == 0 { (frac, -1074) } else { (frac | (1 << 52), e - 1075) };
    let mag: i128 = if m == 0 {
        0
    } else if ex >= 0 {
        if ex > 70 {
            return None;
        }
        (m as i128) << ex
    } else {
        let sh = -ex;
        if sh >= 64 || m & ((1u64 << sh) - 1) != 0 {
            return None;
        }
        (m >> sh) as i128
    };
    Some(if bits >> 63 == 1 { -mag } else { mag })
}

/// Returns (kind, message) of every property failure; kind is "value" / "time" / "other".
pub fn oracle(r: &ExportMetricsServiceRequest, out: &Result<Result<RecordBatch, String>, String>) -> Vec<(&'static str, String)> {
    let exp = expectations(r);
    let mut bad = Vec::new();
    let batch = match out {
        Err(p) => {
            bad.push(("other", format!("export_request_to_arrow panicked: {}", p)));
            return bad;
        }
        Ok(Err(e)) => {
            if !exp.is_empty() {
                bad.push(("other", format!("{} data points rejected: {}", exp.len(), e)));
            }
            return bad;
        }
        Ok(Ok(b)) => b,
    };
    let (_, rows) = match decode_batch(batch) {
        Ok(x) => x,
        Err(e) => {
            bad.push(("other", format!("unreadable batch: {}", e)));
            return bad;
        }
    };
    if rows.len() != exp.len() {
        bad.push(("other", format!("{} data points became {} rows", exp.len(), rows.len())));
        return bad;
    }
    for (k, (e, r)) in exp.iter().zip(rows.iter()).enumerate() {
        if e.time > i64::MAX as u64 || r.ts as i128 != e.time as i128 {
            bad.push(("time", format!("point {}: time_unix_nano {} stored as timestamp {}", k, e.time, r.ts)));
        }
        if r.name != e.name {
            bad.push(("other", format!("point {}: metric name {:?} stored as {:?}", k, String::from_utf8_lossy(&e.name), String::from_utf8_lossy(&r.name))));
        }
        match (&e.value, r.bits) {
            (ExpValue::Bits(b), Some(got)) => {
                let same = *b == got || (f64::from_bits(*b).is_nan() && f64::from_bits(got).is_nan());
                if !same {
                    bad.push(("other", format!("point {}: double value bits {:#x} stored as {:#x}", k, b, got)));
                }
            }
            (ExpValue::Int(i), Some(got)) => {
                if f64_exact_int(got) != Some(*i) {
                    bad.push(("value", format!("point {}: integer value {} stored as {:e} (bits {:#x})", k, i, f64::from_bits(got), got)));
                }
            }
            (ExpValue::Absent, _) => {}
            (_, None) => bad.push(("other", format!("point {}: value column is null", k))),
        }
        if let Some(l) = &e.labels {
            if *l != r.labels {
                bad.push(("other", format!("point {}: label set {:?} stored as {:?}", k, show_map(l), show_map(&r.labels))));
            }
        }
    }
    bad
}

fn show_map(m: &BTreeMap<Vec<u8>, Vec<u8>>) -> Vec<(String, String)> {
    m.iter().map(|(k, v)| (String::from_utf8_lossy(k).to_string(), String::from_utf8_lossy(v).to_string())).collect()
}
