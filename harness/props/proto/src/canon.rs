//! Canonical text of what the implementation produced (same formats as the
//! model runner prints), and the calls into the implementation.
use crate::wire::{hex, unhex};
use arrow_array::{Array, Float64Array, Int64Array, RecordBatch, StringArray, TimestampNanosecondArray, UInt64Array};
use cardinalsin::api::ingest::prometheus::{verif, Label, Sample, TimeSeries, WriteRequest};
use csv_common::catch;
use std::panic::AssertUnwindSafe;

pub fn err_code(msg: &str) -> u32 {
    let has = |s: &str| msg.contains(s);
    if has("Truncated varint") {
        1
    } else if has("Varint too long") {
        2
    } else if has("Truncated timeseries") {
        3
    } else if has("Truncated label name") {
        6
    } else if has("Truncated label value") {
        7
    } else if has("Truncated label") {
        4
    } else if has("Truncated sample value") {
        9
    } else if has("Truncated sample") {
        5
    } else if has("Truncated field") {
        8
    } else if has("Unknown wire type in timeseries") {
        11
    } else if has("Unknown wire type in label") {
        12
    } else if has("Unknown wire type in sample") {
        13
    } else if has("Unknown wire type") {
        10
    } else if has("No timeseries data") {
        20
    } else if has("outside the nanosecond range") {
        21
    } else if has("No data points") {
        30
    } else {
        999
    }
}

pub fn canon_request(r: &WriteRequest) -> String {
    if r.timeseries.is_empty() {
        return "-".into();
    }
    r.timeseries
        .iter()
        .map(|t| {
            format!(
                "{}|{}",
                t.labels.iter().map(|l| format!("{}:{}", hex(l.name.as_bytes()), hex(l.value.as_bytes()))).collect::<Vec<_>>().join(","),
                t.samples.iter().map(|s| format!("{}:{}", s.timestamp_ms, s.value.to_bits())).collect::<Vec<_>>().join(",")
            )
        })
        .collect::<Vec<_>>()
        .join("/")
}

/// parse the request text (valid UTF-8 strings only) into the implementation's struct
pub fn request_of_text(s: &str) -> Option<WriteRequest> {
    let mut ts = Vec::new();
    if s != "-" {
        for ser in s.split('/') {
            let (ls, ss) = ser.split_once('|')?;
            let mut labels = Vec::new();
            for l in ls.split(',').filter(|x| !x.is_empty()) {
                let (a, b) = l.split_once(':')?;
                labels.push(Label { name: String::from_utf8(unhex(a)).ok()?, value: String::from_utf8(unhex(b)).ok()? });
            }
            let mut samples = Vec::new();
            for x in ss.split(',').filter(|x| !x.is_empty()) {
                let (t, v) = x.split_once(':')?;
                samples.push(Sample { timestamp_ms: t.parse().ok()?, value: f64::from_bits(v.parse().ok()?) });
            }
            ts.push(TimeSeries { labels, samples });
        }
    }
    Some(WriteRequest { timeseries: ts })
}

/// One decoded row of a remote-write batch.
#[derive(Clone, Debug)]
pub struct Row {
    pub ts: i64,
    pub name: Vec<u8>,
    pub f: Option<u64>,
    pub i: Option<i64>,
    pub u: Option<u64>,
    pub cells: Vec<Option<Vec<u8>>>,
}
#[derive(Clone, Debug)]
pub struct Decoded {
    pub cols: Vec<Vec<u8>>,
    pub rows: Vec<Row>,
}

pub fn decode_batch(b: &RecordBatch) -> Result<Decoded, String> {
    if b.num_columns() < 5 {
        return Err(format!("batch has {} columns", b.num_columns()));
    }
    let ts = b.column(0).as_any().downcast_ref::<TimestampNanosecondArray>().ok_or("column 0 is not Timestamp(ns)")?;
    let name = b.column(1).as_any().downcast_ref::<StringArray>().ok_or("column 1 is not Utf8")?;
    let f = b.column(2).as_any().downcast_ref::<Float64Array>().ok_or("column 2 is not Float64")?;
    let i = b.column(3).as_any().downcast_ref::<Int64Array>().ok_or("column 3 is not Int64")?;
    let u = b.column(4).as_any().downcast_ref::<UInt64Array>().ok_or("column 4 is not UInt64")?;
    let schema = b.schema();
    let fixed = ["timestamp", "metric_name", "value_f64", "value_i64", "value_u64"];
    for (k, n) in fixed.iter().enumerate() {
        if schema.field(k).name() != n {
            return Err(format!("column {} is named {:?}, expected {:?}", k, schema.field(k).name(), n));
        }
    }
    let mut lab = Vec::new();
    let mut cols = Vec::new();
    for k in 5..b.num_columns() {
        lab.push(b.column(k).as_any().downcast_ref::<StringArray>().ok_or("label column is not Utf8")?);
        cols.push(schema.field(k).name().as_bytes().to_vec());
    }
    let mut rows = Vec::new();
    for r in 0..b.num_rows() {
        if ts.is_null(r) || name.is_null(r) {
            return Err(format!("row {}: null timestamp or metric name", r));
        }
        rows.push(Row {
            ts: ts.value(r),
            name: name.value(r).as_bytes().to_vec(),
            f: if f.is_null(r) { None } else { Some(f.value(r).to_bits()) },
            i: if i.is_null(r) { None } else { Some(i.value(r)) },
            u: if u.is_null(r) { None } else { Some(u.value(r)) },
            cells: lab.iter().map(|c| if c.is_null(r) { None } else { Some(c.value(r).as_bytes().to_vec()) }).collect(),
        });
    }
    Ok(Decoded { cols, rows })
}

pub fn canon_decoded(d: &Decoded) -> String {
    let rows = d
        .rows
        .iter()
        .map(|r| {
            let v = match (r.f, r.i, r.u) {
                (Some(b), None, None) => format!("F{}", b),
                (None, Some(i), None) => format!("I{}", i),
                (None, None, Some(u)) => format!("U{}", u),
                other => format!("X{:?}", other),
            };
            format!(
                "{};{};{};{}",
                r.ts,
                hex(&r.name),
                v,
                r.cells.iter().map(|c| match c { Some(v) => format!("x{}", hex(v)), None => "~".into() }).collect::<Vec<_>>().join(",")
            )
        })
        .collect::<Vec<_>>()
        .join("/");
    format!("cols={}|rows={}", d.cols.iter().map(|c| format!("x{}", hex(c))).collect::<Vec<_>>().join(","), rows)
}

pub fn canon_batch(b: &RecordBatch) -> String {
    match decode_batch(b) {
        Ok(d) => canon_decoded(&d),
        Err(e) => format!("BADBATCH {}", e),
    }
}

/// parse (hook) -> "OK <request>" | "ERR <code>" | "PANIC <msg>", and the decoded request
pub fn impl_parse(bytes: &[u8]) -> (String, Option<WriteRequest>) {
    match catch(AssertUnwindSafe(|| verif::parse_write_request(bytes))) {
        Ok(Ok(r)) => (format!("OK {}", canon_request(&r)), Some(r)),
        Ok(Err(e)) => (format!("ERR {}", err_code(&e.to_string())), None),
        Err(p) => (format!("PANIC {}", p.replace(['\n', '\t'], " ")), None),
    }
}

/// convert (hook) -> "OK <batch>" | "CERR <code>" | "PANIC <msg>"
pub fn impl_convert(r: &WriteRequest) -> (String, Option<RecordBatch>) {
    match catch(AssertUnwindSafe(|| verif::convert_prom_to_arrow(r))) {
        Ok(Ok(b)) => (format!("OK {}", canon_batch(&b)), Some(b)),
        Ok(Err(e)) => (format!("CERR {}", err_code(&e.to_string())), None),
        Err(p) => (format!("PANIC {}", p.replace(['\n', '\t'], " ")), None),
    }
}
