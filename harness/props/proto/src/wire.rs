//! Hand-written protobuf encoder for Prometheus remote-write requests (mirrors
//! `enc_request` of Model/Proto.v), non-canonical encoding variants, request
//! generators and byte-level mutators.
use csv_common::Rng;

#[derive(Clone, Debug, PartialEq)]
pub struct GLabel {
    pub name: Vec<u8>,
    pub value: Vec<u8>,
}
#[derive(Clone, Debug, PartialEq)]
pub struct GSample {
    pub ts: i64,
    pub bits: u64,
}
#[derive(Clone, Debug, PartialEq)]
pub struct GSeries {
    pub labels: Vec<GLabel>,
    pub samples: Vec<GSample>,
}

pub fn hex(b: &[u8]) -> String {
    let mut s = String::with_capacity(b.len() * 2);
    for x in b {
        s.push_str(&format!("{:02x}", x));
    }
    s
}
pub fn unhex(s: &str) -> Vec<u8> {
    (0..s.len() / 2).map(|i| u8::from_str_radix(&s[2 * i..2 * i + 2], 16).unwrap_or(0)).collect()
}

/// canonical text of a request (format of ocaml/drivers/proto_main.ml)
pub fn request_text(r: &[GSeries]) -> String {
    if r.is_empty() {
        return "-".into();
    }
    r.iter()
        .map(|t| {
            format!(
                "{}|{}",
                t.labels.iter().map(|l| format!("{}:{}", hex(&l.name), hex(&l.value))).collect::<Vec<_>>().join(","),
                t.samples.iter().map(|s| format!("{}:{}", s.ts, s.bits)).collect::<Vec<_>>().join(",")
            )
        })
        .collect::<Vec<_>>()
        .join("/")
}

// ------------------------------------------------------------ encoder ----
pub fn varint(mut v: u64, out: &mut Vec<u8>) {
    loop {
        let b = (v & 0x7f) as u8;
        v >>= 7;
        if v == 0 {
            out.push(b);
            break;
        }
        out.push(b | 0x80);
    }
}
pub fn varint_vec(v: u64) -> Vec<u8> {
    let mut o = Vec::new();
    varint(v, &mut o);
    o
}
/// non-minimal encoding of `v` with `total` bytes (total <= 10)
pub fn varint_padded(v: u64, total: usize, out: &mut Vec<u8>) {
    let mut x = v;
    for i in 0..total {
        let b = (x & 0x7f) as u8;
        x >>= 7;
        if i + 1 == total {
            out.push(b);
        } else {
            out.push(b | 0x80);
        }
    }
}

/// Encoded bytes plus the positions (offset, length) of every length varint.
#[derive(Clone, Default)]
pub struct Enc {
    pub buf: Vec<u8>,
    pub len_marks: Vec<(usize, usize)>,
}

#[derive(Clone, Copy)]
pub struct Style {
    pub canonical: bool,
}

struct Ctx<'a> {
    rng: &'a mut Rng,
    style: Style,
    /// statistics: which non-canonical features were used
    pub used: Vec<&'static str>,
}

impl<'a> Ctx<'a> {
    fn put_varint(&mut self, v: u64, out: &mut Vec<u8>) {
        if !self.style.canonical && self.rng.chance(1, 12) {
            let minimal = varint_vec(v).len();
            let total = self.rng.range_usize(minimal, 10);
            if total > minimal {
                self.used.push("padded_varint");
            }
            varint_padded(v, total, out);
        } else {
            varint(v, out);
        }
    }
    fn tag(&mut self, field: u64, wt: u64, out: &mut Vec<u8>) {
        self.put_varint(field << 3 | wt, out);
    }
    fn embed(&mut self, field: u64, child: Enc, out: &mut Enc) {
        self.tag(field, 2, &mut out.buf);
        let at = out.buf.len();
        self.put_varint(child.buf.len() as u64, &mut out.buf);
        let vl = out.buf.len() - at;
        out.len_marks.push((at, vl));
        let base = out.buf.len();
        for (o, l) in child.len_marks {
            out.len_marks.push((base + o, l));
        }
        out.buf.extend(child.buf);
    }
    /// an unknown field the reader has to skip (never one of the known arms)
    fn unknown(&mut self, known: &[(u64, u64)], out: &mut Enc) {
        if self.style.canonical || !self.rng.chance(1, 6) {
            return;
        }
        for _ in 0..4 {
            let field = *self.rng.pick(&[0u64, 1, 2, 3, 4, 15, 16, 1000, (1u64 << 29) - 1, (1u64 << 61) - 1]);
            let wt = *self.rng.pick(&[0u64, 1, 2, 5]);
            if known.contains(&(field, wt)) {
                continue;
            }
            self.tag(field, wt, &mut out.buf);
            match wt {
                0 => {
                    let v = *self.rng.pick(&[0u64, 1, 127, 128, 300, u64::MAX, 1 << 63]);
                    self.put_varint(v, &mut out.buf);
                    self.used.push("unknown_varint");
                }
                1 => {
                    let v = self.rng.next_u64().to_le_bytes();
                    out.buf.extend(v);
                    self.used.push("unknown_fixed64");
                }
                2 => {
                    let n = self.rng.range_usize(0, 9);
                    let at = out.buf.len();
                    self.put_varint(n as u64, &mut out.buf);
                    out.len_marks.push((at, out.buf.len() - at));
                    for _ in 0..n {
                        out.buf.push(self.rng.below(256) as u8);
                    }
                    self.used.push("unknown_delimited");
                }
                _ => {
                    let v = (self.rng.next_u64() as u32).to_le_bytes();
                    out.buf.extend(v);
                    self.used.push("unknown_fixed32");
                }
            }
            return;
        }
    }

    fn sample(&mut self, s: &GSample) -> Enc {
        let mut e = Enc::default();
        let known = [(1u64, 1u64), (2, 0)];
        let mut order = vec![0, 1];
        if !self.style.canonical && self.rng.chance(1, 5) {
            order.reverse();
            self.used.push("sample_fields_swapped");
        }
        for k in order {
            self.unknown(&known, &mut e);
            if k == 0 {
                if !self.style.canonical && s.bits == 0 && self.rng.chance(1, 2) {
                    self.used.push("default_omitted");
                    continue;
                }
                if !self.style.canonical && self.rng.chance(1, 15) {
                    // repeated scalar: the last one wins
                    self.tag(1, 1, &mut e.buf);
                    e.buf.extend(self.rng.next_u64().to_le_bytes());
                    self.used.push("scalar_repeated");
                }
                self.tag(1, 1, &mut e.buf);
                e.buf.extend(s.bits.to_le_bytes());
            } else {
                if !self.style.canonical && s.ts == 0 && self.rng.chance(1, 2) {
                    self.used.push("default_omitted");
                    continue;
                }
                if !self.style.canonical && self.rng.chance(1, 15) {
                    self.tag(2, 0, &mut e.buf);
                    let v = self.rng.next_u64();
                    self.put_varint(v, &mut e.buf);
                    self.used.push("scalar_repeated");
                }
                self.tag(2, 0, &mut e.buf);
                self.put_varint(s.ts as u64, &mut e.buf);
            }
        }
        self.unknown(&known, &mut e);
        e
    }

    fn label(&mut self, l: &GLabel) -> Enc {
        let mut e = Enc::default();
        let known = [(1u64, 2u64), (2, 2)];
        let mut order = vec![0, 1];
        if !self.style.canonical && self.rng.chance(1, 5) {
            order.reverse();
            self.used.push("label_fields_swapped");
        }
        for k in order {
            self.unknown(&known, &mut e);
            let (field, payload) = if k == 0 { (1, &l.name) } else { (2, &l.value) };
            if !self.style.canonical && payload.is_empty() && self.rng.chance(1, 2) {
                self.used.push("default_omitted");
                continue;
            }
            if !self.style.canonical && self.rng.chance(1, 15) {
                let junk = Enc { buf: b"old".to_vec(), len_marks: vec![] };
                self.embed(field, junk, &mut e);
                self.used.push("scalar_repeated");
            }
            let child = Enc { buf: payload.clone(), len_marks: vec![] };
            self.embed(field, child, &mut e);
        }
        self.unknown(&known, &mut e);
        e
    }

    fn series(&mut self, t: &GSeries) -> Enc {
        let mut e = Enc::default();
        let known = [(1u64, 2u64), (2, 2)];
        // canonical: labels then samples; otherwise possibly interleaved (relative order kept)
        let mut items: Vec<(u64, usize)> = Vec::new();
        let (mut i, mut j) = (0, 0);
        let interleave = !self.style.canonical && self.rng.chance(1, 4);
        if interleave {
            self.used.push("series_fields_interleaved");
        }
        while i < t.labels.len() || j < t.samples.len() {
            let take_label = if interleave {
                if i >= t.labels.len() {
                    false
                } else if j >= t.samples.len() {
                    true
                } else {
                    self.rng.chance(1, 2)
                }
            } else {
                i < t.labels.len()
            };
            if take_label {
                items.push((1, i));
                i += 1;
            } else {
                items.push((2, j));
                j += 1;
            }
        }
        for (f, k) in items {
            self.unknown(&known, &mut e);
            let child = if f == 1 { self.label(&t.labels[k]) } else { self.sample(&t.samples[k]) };
            self.embed(f, child, &mut e);
        }
        self.unknown(&known, &mut e);
        e
    }

    fn request(&mut self, r: &[GSeries]) -> Enc {
        let mut e = Enc::default();
        let known = [(1u64, 2u64)];
        for t in r {
            self.unknown(&known, &mut e);
            let child = self.series(t);
            self.embed(1, child, &mut e);
        }
        self.unknown(&known, &mut e);
        e
    }
}

/// canonical encoding (same bytes as `enc_request` of the model)
pub fn encode_canonical(r: &[GSeries]) -> Enc {
    let mut rng = Rng::new(0);
    let mut c = Ctx { rng: &mut rng, style: Style { canonical: true }, used: vec![] };
    c.request(r)
}

/// a valid but non-canonical encoding; returns the features used
pub fn encode_variant(r: &[GSeries], rng: &mut Rng) -> (Enc, Vec<&'static str>) {
    let mut c = Ctx { rng, style: Style { canonical: false }, used: vec![] };
    let e = c.request(r);
    let mut used = c.used;
    used.sort();
    used.dedup();
    (e, used)
}

// ---------------------------------------------------------- generators ----
pub const F_2P63: u64 = 0x43E0_0000_0000_0000; // 2^63
pub const F_M2P63: u64 = 0xC3E0_0000_0000_0000; // -2^63

pub fn gen_value_bits(rng: &mut Rng) -> (u64, &'static str) {
    let f = |x: f64| x.to_bits();
    match rng.below(16) {
        0 => (f(*rng.pick(&[0.0, 1.0, 2.0, 42.0, 1000.0, 65536.0, 1e15])), "value.small_integral"),
        1 => (f(-(*rng.pick(&[1.0, 2.0, 42.0, 1000.0, 4294967296.0, 1e15]))), "value.negative_integral"),
        2 => (f(*rng.pick(&[0.5, 0.1, 0.85, 3.75, 1e-9, 123456.789])), "value.fractional"),
        3 => (f(-(*rng.pick(&[0.5, 0.1, 3.75, 1e-9, 123456.789]))), "value.negative_fractional"),
        4 => (
            *rng.pick(&[
                F_2P63,
                F_2P63 - 1,          // largest f64 below 2^63 (2^63 - 1024)
                F_2P63 + 1,          // 2^63 + 2048
                f(18446744073709551616.0), // 2^64
                f(9007199254740992.0),     // 2^53
                f(9007199254740994.0),     // 2^53 + 2
                f(4611686018427387904.0),  // 2^62
            ]),
            "value.huge_positive_integral",
        ),
        5 => (
            *rng.pick(&[F_M2P63, F_M2P63 - 1, F_M2P63 + 1, f(-18446744073709551616.0), f(-9007199254740992.0), f(-4611686018427387904.0)]),
            "value.huge_negative_integral",
        ),
        6 => (f(*rng.pick(&[1e300, -1e300, 1.7976931348623157e308, 1e19, 1e20, -1e19])), "value.beyond_u64"),
        7 => (*rng.pick(&[0x7FF0_0000_0000_0000u64, 0xFFF0_0000_0000_0000]), "value.infinite"),
        8 => (
            *rng.pick(&[0x7FF8_0000_0000_0000u64, 0xFFF8_0000_0000_0000, 0x7FF0_0000_0000_0001, 0x7FF8_0000_0000_0002, 0x7FFF_FFFF_FFFF_FFFF]),
            "value.nan",
        ),
        9 => (*rng.pick(&[0x8000_0000_0000_0000u64, 0]), "value.zero"),
        10 => (*rng.pick(&[1u64, 0x000F_FFFF_FFFF_FFFF, 0x0010_0000_0000_0000, 0x8000_0000_0000_0001]), "value.subnormal_or_tiny"),
        11 => {
            // random integral value with a random exponent
            let e = rng.range_i64(0, 70);
            let m = (rng.next_u64() >> 11) | (1 << 52);
            let v = (m as f64) * 2f64.powi((e - 52) as i32);
            let v = if rng.chance(1, 2) { v.trunc() } else { -v.trunc() };
            (v.to_bits(), "value.random_integral")
        }
        12 => {
            let e = rng.range_i64(-5, 40);
            let m = (rng.next_u64() >> 11) | (1 << 52);
            let v = (m as f64) * 2f64.powi((e - 52) as i32);
            (if rng.chance(1, 2) { v } else { -v }.to_bits(), "value.random_mixed")
        }
        13 => (rng.next_u64(), "value.random_bits"),
        _ => (f(rng.range_i64(-1000, 1000) as f64), "value.small_integral"),
    }
}

pub fn gen_ts(rng: &mut Rng) -> (i64, &'static str) {
    const LIM: i64 = i64::MAX / 1_000_000; // largest ms that fits in ns
    match rng.below(12) {
        0 => (0, "ts.zero"),
        1 => (rng.range_i64(1, 1000), "ts.small"),
        2 => (-rng.range_i64(1, 1_000_000), "ts.negative"),
        3 => (*rng.pick(&[LIM, LIM - 1, -LIM, -LIM + 1]), "ts.ns_boundary_inside"),
        4 => (*rng.pick(&[LIM + 1, LIM + 2, -LIM - 1, -LIM - 2]), "ts.ns_boundary_outside"),
        5 => (*rng.pick(&[i64::MAX, i64::MIN, i64::MAX - 1, i64::MIN + 1, 1 << 62, -(1 << 62)]), "ts.i64_extreme"),
        _ => (1_700_000_000_000 + rng.range_i64(0, 1_000_000_000), "ts.epoch_ms"),
    }
}

const NAMES: &[&str] = &["host", "job", "instance", "a", "b", "z", "env", "région", "日本", "le", "Host", "hosT", "__name", "__name__x", "_", ""];
const RESERVED: &[&str] = &["timestamp", "metric_name", "value_f64", "value_i64", "value_u64"];

pub fn gen_string(rng: &mut Rng, allow_invalid: bool) -> Vec<u8> {
    match rng.below(if allow_invalid { 10 } else { 7 }) {
        0 => Vec::new(),
        1 => b"server1".to_vec(),
        2 => format!("v{}", rng.below(5)).into_bytes(),
        3 => "zürich-ü".as_bytes().to_vec(),
        4 => "𝔘𝔫𝔦".as_bytes().to_vec(),
        5 => (0..rng.range_usize(100, 300)).map(|i| b'a' + (i % 26) as u8).collect(),
        6 => (0..rng.range_usize(1, 6)).map(|_| rng.range_i64(32, 126) as u8).collect(),
        7 => {
            // invalid UTF-8: stray continuation / truncated sequences / overlong / surrogates
            let pool: &[&[u8]] = &[
                &[0xFF], &[0x80], &[0xC0, 0x80], &[0xC2], &[0xE2, 0x82], &[0xE2, 0x28, 0xA1], &[0xED, 0xA0, 0x80],
                &[0xF0, 0x9F], &[0xF0, 0x9F, 0x98], &[0xF4, 0x90, 0x80, 0x80], &[0xE0, 0x9F, 0x80], &[0xF0, 0x8F, 0x80, 0x80],
                &[0xF5, 0x80], &[0xE2, 0x82, 0xAC], &[0x61], &[0xC3, 0xA9],
            ];
            let mut v = Vec::new();
            for _ in 0..rng.range_usize(1, 4) {
                let p: &[u8] = pool[rng.below(pool.len() as u64) as usize]; v.extend_from_slice(p);
            }
            v
        }
        8 => (0..rng.range_usize(1, 8)).map(|_| rng.below(256) as u8).collect(),
        _ => (0..rng.range_usize(1, 5)).map(|_| *rng.pick(&[0xE2u8, 0x82, 0xAC, 0xF0, 0x9F, 0x98, 0x80, 0xC3, 0x41, 0xED, 0xA0])).collect(),
    }
}

pub struct GenOpts {
    pub invalid_utf8: bool,
    pub reserved_names: bool,
}

pub fn gen_request(rng: &mut Rng, opts: &GenOpts, bump: &mut dyn FnMut(&str)) -> Vec<GSeries> {
    let n_series = match rng.below(40) {
        0 => 0,
        1..=14 => 1,
        15..=28 => 2,
        29..=36 => rng.range_usize(3, 4),
        _ => rng.range_usize(5, 9),
    };
    // a per-request label-name pool, so series overlap partly
    let mut pool: Vec<Vec<u8>> = Vec::new();
    for _ in 0..rng.range_usize(1, 5) {
        if opts.reserved_names && rng.chance(1, 10) {
            pool.push(rng.pick(RESERVED).as_bytes().to_vec());
        } else if opts.invalid_utf8 && rng.chance(1, 8) {
            pool.push(gen_string(rng, true));
        } else {
            pool.push(rng.pick(NAMES).as_bytes().to_vec());
        }
    }
    let mut out = Vec::new();
    for _ in 0..n_series {
        let mut labels = Vec::new();
        let with_name = rng.chance(17, 20);
        let name_pos_first = rng.chance(3, 4);
        let metric = *rng.pick(&["cpu_usage", "http_requests_total", "m", "", "mémoire"]);
        if with_name && name_pos_first {
            labels.push(GLabel { name: b"__name__".to_vec(), value: metric.as_bytes().to_vec() });
        }
        let nl = match rng.below(10) {
            0 => 0,
            1..=6 => rng.range_usize(1, 3),
            _ => rng.range_usize(4, 7),
        };
        for _ in 0..nl {
            let name = rng.pick(&pool).clone();
            labels.push(GLabel { name, value: gen_string(rng, opts.invalid_utf8) });
        }
        if with_name && !name_pos_first {
            let at = rng.range_usize(0, labels.len());
            labels.insert(at, GLabel { name: b"__name__".to_vec(), value: metric.as_bytes().to_vec() });
        }
        if with_name && rng.chance(1, 10) {
            // a second __name__: the first one must win
            labels.push(GLabel { name: b"__name__".to_vec(), value: b"second".to_vec() });
            bump("series.duplicate_metric_name");
        }
        {
            let mut seen: Vec<&Vec<u8>> = Vec::new();
            let mut dup = false;
            for l in &labels {
                if l.name != b"__name__" && seen.contains(&&l.name) {
                    dup = true;
                }
                seen.push(&l.name);
            }
            if dup {
                bump("series.duplicate_label_name");
            }
        }
        if !with_name {
            bump("series.without_metric_name");
        }
        let ns = match rng.below(12) {
            0 => 0,
            1..=7 => rng.range_usize(1, 2),
            _ => rng.range_usize(3, 6),
        };
        if ns == 0 {
            bump("series.without_samples");
        }
        let mut samples = Vec::new();
        for _ in 0..ns {
            let (ts, tc) = gen_ts(rng);
            let (bits, vc) = gen_value_bits(rng);
            bump(tc);
            bump(vc);
            samples.push(GSample { ts, bits });
        }
        out.push(GSeries { labels, samples });
    }
    bump(&format!("request.series_{}", if n_series >= 5 { "5plus".to_string() } else { n_series.to_string() }));
    out
}

// ------------------------------------------------------------ mutators ----
/// Mutates a valid encoding; returns the bytes and the mutation class.
pub fn mutate(e: &Enc, rng: &mut Rng) -> (Vec<u8>, &'static str) {
    let mut b = e.buf.clone();
    let n = b.len();
    match rng.below(12) {
        0 | 1 | 2 if !e.len_marks.is_empty() => {
            // replace a length varint
            let (at, vl) = *rng.pick(&e.len_marks);
            let after = (at + vl) as u64;
            let remaining = (n as u64).saturating_sub(after);
            let choice = rng.below(14);
            let v: u64 = match choice {
                0 => u64::MAX,
                1 => u64::MAX - rng.below(16),
                2 => 1 << 63,
                3 => (1 << 63) - 1,
                4 => (1 << 63) + rng.below(4),
                5 => 1 << 32,
                6 => remaining + 1,
                7 => remaining.saturating_sub(1),
                8 => 0,
                // pos + length wraps to a small offset (positions are exact for outer-level fields)
                9 => 0u64.wrapping_sub(after),
                10 => 0u64.wrapping_sub(after).wrapping_add(rng.below(n as u64 + 1)),
                11 => 0u64.wrapping_sub(rng.below(after + 12)),
                12 => remaining,
                _ => rng.below(remaining + 3),
            };
            let mut nv = Vec::new();
            if rng.chance(1, 6) {
                varint_padded(v, 10, &mut nv);
            } else {
                varint(v, &mut nv);
            }
            b.splice(at..at + vl, nv);
            (b, if choice <= 5 || (9..=11).contains(&choice) { "mutation.length_huge_or_wrapping" } else { "mutation.length_off_by_some" })
        }
        3 | 4 => {
            let cut = if n == 0 { 0 } else { rng.below(n as u64) as usize };
            b.truncate(cut);
            (b, "mutation.truncated")
        }
        5 => {
            if n > 0 {
                for _ in 0..rng.range_usize(1, 3) {
                    let i = rng.below(n as u64) as usize;
                    b[i] ^= 1 << rng.below(8);
                }
            }
            (b, "mutation.bit_flips")
        }
        6 => {
            if n > 0 {
                let i = rng.below(n as u64) as usize;
                b[i] = rng.below(256) as u8;
            }
            (b, "mutation.byte_replaced")
        }
        7 => {
            // a tag with a wire type the reader rejects (3, 4, 6, 7), field 0, or a huge field number
            let field = *rng.pick(&[0u64, 1, 2, 7, 1 << 28, (1u64 << 61) - 1]);
            let wt = *rng.pick(&[3u64, 4, 6, 7]);
            let mut t = Vec::new();
            varint(field << 3 | wt, &mut t);
            let at = if n == 0 { 0 } else { rng.below(n as u64 + 1) as usize };
            b.splice(at..at, t);
            (b, "mutation.bad_wire_type")
        }
        8 => {
            // an over-long varint (10 or 11 continuation bytes) somewhere
            let at = if n == 0 { 0 } else { rng.below(n as u64 + 1) as usize };
            let k = rng.range_usize(9, 11);
            let mut t = vec![0xFFu8; k];
            t.push(*rng.pick(&[0x01u8, 0x7F, 0x00, 0x02]));
            b.splice(at..at, t);
            (b, "mutation.overlong_varint")
        }
        9 => {
            // unknown fixed-width field cut short at the very end (lenient skip)
            let wt = *rng.pick(&[1u64, 5]);
            varint(3 << 3 | wt, &mut b);
            for _ in 0..rng.range_usize(0, if wt == 1 { 7 } else { 3 }) {
                b.push(rng.below(256) as u8);
            }
            (b, "mutation.truncated_fixed_tail")
        }
        10 => {
            let at = if n == 0 { 0 } else { rng.below(n as u64 + 1) as usize };
            let junk: Vec<u8> = (0..rng.range_usize(1, 12)).map(|_| rng.below(256) as u8).collect();
            b.splice(at..at, junk);
            (b, "mutation.bytes_inserted")
        }
        _ => {
            if n > 1 {
                let i = rng.below(n as u64 - 1) as usize;
                let j = (i + 1 + rng.below(8) as usize).min(n);
                b.drain(i..j);
            }
            (b, "mutation.bytes_removed")
        }
    }
}

pub fn random_bytes(rng: &mut Rng) -> (Vec<u8>, &'static str) {
    if rng.chance(1, 2) {
        let n = rng.range_usize(0, 64);
        ((0..n).map(|_| rng.below(256) as u8).collect(), "random.uniform")
    } else {
        // protobuf-looking soup: tags of the known fields, small lengths, continuation bytes
        let n = rng.range_usize(1, 40);
        let pool = [0x0Au8, 0x12, 0x09, 0x10, 0x1A, 0x0D, 0x00, 0x01, 0x02, 0x05, 0x08, 0x80, 0xFF, 0x7F, 0x0B, 0x15, 0x19];
        ((0..n).map(|_| if rng.chance(3, 4) { *rng.pick(&pool) } else { rng.below(256) as u8 }).collect(), "random.tag_soup")
    }
}

/// hand-made hostile inputs that always run first (regressions of the repaired defects)
pub fn corpus() -> Vec<(Vec<u8>, &'static str)> {
    let mut v: Vec<(Vec<u8>, &'static str)> = Vec::new();
    // length varint near 2^64 on the known field (overflowed `pos + length as usize`)
    let mut b = vec![0x0A];
    b.extend([0xFF; 9]);
    b.push(0x01);
    v.push((b, "corpus.len_overflow_known"));
    // end wraps below pos (release build: slice index starts at 11 but ends at 5)
    let mut b = vec![0x0A];
    varint(0u64.wrapping_sub(6), &mut b);
    v.push((b, "corpus.len_wrap_known"));
    // unknown field whose length wraps the cursor back to 0 (release build: endless loop)
    let mut b = vec![0x1A];
    varint(0u64.wrapping_sub(11), &mut b);
    v.push((b, "corpus.len_wrap_skip"));
    // the same inside a series, a label and a sample
    for (outer, name) in [(vec![0x0Au8], "corpus.len_wrap_skip_in_series")] {
        let mut inner = vec![0x1A];
        varint(0u64.wrapping_sub(11), &mut inner);
        let mut b = outer.clone();
        varint(inner.len() as u64, &mut b);
        b.extend(inner);
        v.push((b, name));
    }
    {
        let mut inner = vec![0x1A];
        varint(0u64.wrapping_sub(11), &mut inner);
        let mut lab = vec![0x0A];
        varint(inner.len() as u64, &mut lab);
        lab.extend(&inner);
        let mut b = vec![0x0A];
        varint(lab.len() as u64, &mut b);
        b.extend(&lab);
        v.push((b, "corpus.len_wrap_skip_in_label"));
        let mut smp = vec![0x12];
        varint(inner.len() as u64, &mut smp);
        smp.extend(&inner);
        let mut b = vec![0x0A];
        varint(smp.len() as u64, &mut b);
        b.extend(&smp);
        v.push((b, "corpus.len_wrap_skip_in_sample"));
    }
    // truncated fixed64 sample value; 10-byte varint with high bits; 11-byte varint
    v.push((vec![0x0A, 0x05, 0x12, 0x03, 0x09, 0x00, 0x00], "corpus.truncated_sample_value"));
    v.push((vec![0x0A, 0x0D, 0x12, 0x0B, 0x10, 0xFF, 0xFF, 0xFF, 0xFF, 0xFF, 0xFF, 0xFF, 0xFF, 0xFF, 0x7F], "corpus.varint_10_bytes_high_bits"));
    v.push((vec![0x08, 0xFF, 0xFF, 0xFF, 0xFF, 0xFF, 0xFF, 0xFF, 0xFF, 0xFF, 0xFF, 0x01], "corpus.varint_11_bytes"));
    v.push((vec![], "corpus.empty_body"));
    v.push((vec![0x0A, 0x00], "corpus.one_empty_series"));
    v.push((vec![0x0A, 0x06, 0x0A, 0x04, 0x0A, 0x00, 0x12, 0x00], "corpus.series_with_label_only"));
    v.push((vec![0x0B], "corpus.wire_type_3"));
    v.push((vec![0x19, 0x01, 0x02], "corpus.fixed64_skip_past_end"));
    v.push((vec![0x1D, 0x01], "corpus.fixed32_skip_past_end"));
    v
}
