use cardinalsin::api::ingest::prometheus::{verif, Label, Sample, TimeSeries, WriteRequest};
use csv_common::catch;
use std::panic::AssertUnwindSafe;

fn main() {
    let a: Vec<String> = std::env::args().collect();
    if a.len() > 1 && a[1] == "probe" {
        // 1. length varint near 2^64 on a known field
        let mut b = vec![0x0A];
        b.extend([0xFF; 9]);
        b.push(0x01);
        println!("len overflow known field: {:?}", catch(AssertUnwindSafe(|| verif::parse_write_request(&b).map(|_| ()).map_err(|e| e.to_string()))));
        // 2. unknown field with wrap to 0
        let mut b = vec![0x1A];
        // length = 2^64 - 11
        let l: u64 = 0u64.wrapping_sub(11);
        let mut x = l;
        loop { let byte = (x & 0x7f) as u8; x >>= 7; if x == 0 { b.push(byte); break } else { b.push(byte | 0x80) } }
        println!("bytes {:?}", b);
        println!("len overflow unknown field: {:?}", catch(AssertUnwindSafe(|| verif::parse_write_request(&b).map(|_| ()).map_err(|e| e.to_string()))));
        // 3. 2^63 value
        let req = WriteRequest { timeseries: vec![TimeSeries { labels: vec![Label { name: "__name__".into(), value: "m".into() }], samples: vec![Sample { timestamp_ms: 1, value: 9223372036854775808.0 }] }] };
        let r = catch(AssertUnwindSafe(|| verif::convert_prom_to_arrow(&req).map_err(|e| e.to_string())));
        println!("2^63: {:?}", r);
        // 4. ts overflow
        let req = WriteRequest { timeseries: vec![TimeSeries { labels: vec![], samples: vec![Sample { timestamp_ms: 1 << 62, value: 1.5 }] }] };
        let r = catch(AssertUnwindSafe(|| verif::convert_prom_to_arrow(&req).map(|b| format!("{:?}", b.column(0))).map_err(|e| e.to_string())));
        println!("ts overflow: {:?}", r);
        // 5. zero samples
        let req = WriteRequest { timeseries: vec![TimeSeries { labels: vec![Label { name: "a".into(), value: "b".into() }], samples: vec![] }] };
        let r = catch(AssertUnwindSafe(|| verif::convert_prom_to_arrow(&req).map(|b| b.num_rows()).map_err(|e| e.to_string())));
        println!("zero samples: {:?}", r);
        handler_probe();
    }
}

fn mk_state(flush_rows: usize) -> (cardinalsin::api::ApiState, std::sync::Arc<cardinalsin::ingester::Ingester>) {
    use cardinalsin::ingester::{Ingester, IngesterConfig};
    use cardinalsin::metadata::LocalMetadataClient;
    use cardinalsin::query::{QueryConfig, QueryNode};
    use cardinalsin::schema::MetricSchema;
    use cardinalsin::StorageConfig;
    use std::sync::Arc;
    let store: Arc<dyn object_store::ObjectStore> = Arc::new(object_store::memory::InMemory::new());
    let meta = Arc::new(LocalMetadataClient::new());
    let mut cfg = IngesterConfig::default();
    cfg.flush_row_count = flush_rows;
    let ing = Arc::new(Ingester::new(cfg, store.clone(), meta.clone(), StorageConfig::default(), MetricSchema::default_metrics()));
    let rt = tokio::runtime::Handle::current();
    let _ = rt;
    let qn = futures_block(QueryNode::new(QueryConfig::default(), store, meta, StorageConfig::default())).unwrap();
    (cardinalsin::api::ApiState { ingester: ing.clone(), query_node: Arc::new(qn) }, ing)
}
fn futures_block<F: std::future::Future>(f: F) -> F::Output {
    tokio::task::block_in_place(|| tokio::runtime::Handle::current().block_on(f))
}
fn handler_probe() {
    use axum::response::IntoResponse;
    let rt = tokio::runtime::Builder::new_multi_thread().enable_all().build().unwrap();
    rt.block_on(async {
        let (state, ing) = mk_state(1);
        let mut rx = ing.subscribe();
        let bodies: Vec<(&str, Vec<u8>)> = vec![
            ("empty body", vec![]),
            ("one empty series", vec![0x0A, 0x00]),
            ("series with label only", vec![0x0A, 0x06, 0x0A, 0x04, 0x0A, 0x00, 0x12, 0x00]),
            ("one sample", vec![0x0A, 0x0D, 0x12, 0x0B, 0x09, 0,0,0,0,0,0,0xF0,0x3F, 0x10, 0x05]),
            ("label named timestamp", {
                // label{name=timestamp,value=x}, sample
                let mut l = vec![0x0A, 9]; l.extend(b"timestamp"); l.extend([0x12, 1, b'x']);
                let mut ts = vec![0x0A, l.len() as u8]; ts.extend(l);
                ts.extend([0x12, 0x0B, 0x09, 0,0,0,0,0,0,0xF0,0x3F, 0x10, 0x05]);
                let mut b = vec![0x0A, ts.len() as u8]; b.extend(ts); b }),
        ];
        {
            use arrow_array::{RecordBatch, StringArray, TimestampNanosecondArray, Float64Array};
            use arrow_schema::{Schema, Field, DataType, TimeUnit};
            use std::sync::Arc;
            let schema = Arc::new(Schema::new(vec![
                Field::new("timestamp", DataType::Timestamp(TimeUnit::Nanosecond, Some("UTC".into())), false),
                Field::new("metric_name", DataType::Utf8, false),
                Field::new("value_f64", DataType::Float64, true)]));
            let b = RecordBatch::try_new(schema, vec![
                Arc::new(TimestampNanosecondArray::from(Vec::<i64>::new()).with_timezone("UTC")),
                Arc::new(StringArray::from(Vec::<String>::new())),
                Arc::new(Float64Array::from(Vec::<f64>::new()))]).unwrap();
            let fd = cardinalsin::api::ingest::flight_ingest::batch_to_flight_data(&b).unwrap();
            let svc = Arc::new(cardinalsin::api::ingest::flight_ingest::FlightIngestService::new(ing.clone()));
            let h = tokio::spawn(async move { svc.process_stream(fd.into_iter()).await.map_err(|e| e.to_string()) });
            println!("flight zero-row batch: {:?}", h.await.map_err(|e| e.to_string()));
        }
        for (name, raw) in bodies {
            let body = snap::raw::Encoder::new().compress_vec(&raw).unwrap();
            let st = state.clone();
            let h = tokio::spawn(async move {
                cardinalsin::api::ingest::prometheus::handle_remote_write(axum::extract::State(st), axum::body::Bytes::from(body)).await.into_response().status()
            });
            let r = h.await;
            println!("handler {}: {:?}", name, r.map_err(|e| e.to_string()));
            while let Ok(b) = rx.try_recv() { println!("   broadcast rows {} cols {}", b.num_rows(), b.num_columns()); }
        }
    });
}
