//! csv-proto — correspondence + oracle for C17 (ingest protocol conversion is
//! faithful; no payload can crash the receiver).
//!
//! Streams (all randomness from the one seed):
//!  1. structured remote-write: generated requests, encoded by the hand encoder
//!     (canonical and non-canonical variants), through the re-exported
//!     `parse_write_request` / `convert_prom_to_arrow` and (a share of them,
//!     snappy-compressed) through the public `handle_remote_write`; decoded
//!     request, produced rows and HTTP status vs the extracted Coq model; the
//!     oracle checks one row per sample with exact fields on the produced batch.
//!  2. malformed remote-write: mutated valid encodings, random bytes, a corpus
//!     of hostile inputs; outcome (ok / error code / panic / hang) vs model.
//!  3. OTLP: generated export requests through `export_request_to_arrow`;
//!     rows vs model; oracle per data point; prost-decoded random / mutated
//!     bytes must never panic.
//!  4. Arrow Flight DoPut frames (valid, mutated, random): never panic.
//! Every call into the implementation that parses hostile bytes runs in a child
//! process (`csv-proto worker`) under a watchdog, so a hang or an abort is an
//! outcome, not the end of the run.
mod canon;
mod otlp;
mod wire;

use csv_common::{catch, ddmin, Args, Model, Report, Rng};
use serde_json::json;
use std::io::{BufRead, BufReader, Write};
use std::panic::AssertUnwindSafe;
use std::process::{Child, ChildStdin, Command, Stdio};
use std::sync::mpsc::{channel, Receiver};
use std::sync::Arc;
use std::time::Duration;
use wire::{hex, unhex};

// ===================================================================== worker
/// Child process: one request per line, one answer per line.
///   P <hex>      parse + convert      -> <parse out> \t <convert out>
///   R <request>  convert a request     -> <convert out>
///   T <hex>      prost-decode an OTLP request and convert it -> ok rows=N | err | undecodable | PANIC ..
///   F <frames>   Flight DoPut frames (hexheader:hexbody joined by ",") -> ok N | err | PANIC ..
///   G <chunks>   raw gRPC body chunks through FlightIngestGrpcService::do_put
///                -> ok <acknowledged rows> buffered=<rows> | err <grpc code> buffered=<rows> | PANIC ..
fn worker_main() {
    csv_common::quiet_panics();
    unsafe {
        // a hostile length must not be able to eat the machine's memory
        let lim = libc::rlimit { rlim_cur: 6 << 30, rlim_max: 6 << 30 };
        libc::setrlimit(libc::RLIMIT_AS, &lim);
    }
    let rt = tokio::runtime::Builder::new_current_thread().enable_all().build().unwrap();
    let stdin = std::io::stdin();
    let stdout = std::io::stdout();
    for line in stdin.lock().lines() {
        let line = match line {
            Ok(l) => l,
            Err(_) => break,
        };
        let (cmd, arg) = line.split_once(' ').unwrap_or((line.as_str(), ""));
        let out = match cmd {
            "P" => {
                let bytes = unhex(arg);
                let (p, req) = canon::impl_parse(&bytes);
                let c = match req {
                    Some(r) => canon::impl_convert(&r).0,
                    None => "-".to_string(),
                };
                format!("{}\t{}", p, c)
            }
            "R" => match canon::request_of_text(arg) {
                Some(r) => canon::impl_convert(&r).0,
                None => "BADINPUT".into(),
            },
            "T" => {
                use prost::Message;
                let bytes = unhex(arg);
                match catch(AssertUnwindSafe(|| opentelemetry_proto::tonic::collector::metrics::v1::ExportMetricsServiceRequest::decode(&bytes[..]))) {
                    Err(p) => format!("PANIC in prost decode: {}", p.replace(['\n', '\t'], " ")),
                    Ok(Err(_)) => "undecodable".into(),
                    Ok(Ok(req)) => match catch(AssertUnwindSafe(|| cardinalsin::api::ingest::otlp::export_request_to_arrow(&req))) {
                        Err(p) => format!("PANIC {}", p.replace(['\n', '\t'], " ")),
                        Ok(Err(_)) => "err".into(),
                        Ok(Ok(b)) => format!("ok rows={}", b.num_rows()),
                    },
                }
            }
            "G" => {
                // raw gRPC request body for FlightIngestGrpcService::do_put: chunks (hex) joined by ",";
                // the chunk "ERR" makes the transport fail at that point
                let chunks: Vec<Option<Vec<u8>>> = arg.split(',').filter(|x| !x.is_empty()).map(|c| if c == "ERR" { None } else { Some(unhex(c)) }).collect();
                rt.block_on(grpc_do_put(chunks))
            }
            "F" => {
                let frames: Vec<arrow_flight::FlightData> = arg
                    .split(',')
                    .filter(|x| !x.is_empty())
                    .map(|f| {
                        let (h, b) = f.split_once(':').unwrap_or((f, ""));
                        arrow_flight::FlightData { flight_descriptor: None, data_header: unhex(h).into(), app_metadata: Default::default(), data_body: unhex(b).into() }
                    })
                    .collect();
                // a fresh ingester per stream: what an earlier hostile stream left in the
                // write buffer must not decide the answer to this one
                let svc = rt.block_on(async { mk_flight() });
                let r = rt.block_on(async move {
                    let h = tokio::spawn(async move { svc.process_stream(frames.into_iter()).await.map_err(|e| e.to_string()) });
                    h.await
                });
                match r {
                    Err(e) => format!("PANIC {}", e.to_string().replace(['\n', '\t'], " ")),
                    Ok(Err(_)) => "err".into(),
                    Ok(Ok(n)) => format!("ok {}", n),
                }
            }
            _ => "BADCMD".into(),
        };
        let mut o = stdout.lock();
        let _ = writeln!(o, "{}", out);
        let _ = o.flush();
    }
}

/// Drives the real gRPC entry point of the Flight ingestion: a `tonic::Streaming<FlightData>`
/// decoded from a raw request body, `FlightIngestGrpcService::do_put`, then what was
/// acknowledged and what the (fresh) ingester buffered.
async fn grpc_do_put(chunks: Vec<Option<Vec<u8>>>) -> String {
    use arrow_flight::flight_service_server::FlightService;
    use futures::StreamExt;
    use tonic::codec::Codec;
    let ing = mk_ingester(1_000_000);
    let svc = Arc::new(cardinalsin::api::grpc::FlightIngestGrpcService::new(ing.clone()));
    let frames = chunks.into_iter().map(|c| match c {
        Some(b) => Ok(http_body::Frame::data(bytes::Bytes::from(b))),
        None => Err(tonic::Status::unavailable("connection reset by peer")),
    });
    let body = http_body_util::StreamBody::new(futures::stream::iter(frames));
    let decoder = tonic::codec::ProstCodec::<arrow_flight::PutResult, arrow_flight::FlightData>::default().decoder();
    let streaming = tonic::Streaming::new_request(decoder, body, None, None);
    let h = tokio::spawn(async move {
        match svc.do_put(tonic::Request::new(streaming)).await {
            Err(st) => format!("err {:?}", st.code()),
            Ok(resp) => {
                let mut out = resp.into_inner();
                match out.next().await {
                    Some(Ok(r)) => format!("ok {}", String::from_utf8_lossy(&r.app_metadata)),
                    Some(Err(st)) => format!("err {:?}", st.code()),
                    None => "ok -".to_string(),
                }
            }
        }
    });
    let r = match h.await {
        Ok(s) => s,
        Err(e) => return format!("PANIC {}", e.to_string().replace(['\n', '\t'], " ")),
    };
    format!("{} buffered={}", r, ing.buffer_stats().await.row_count)
}

fn mk_ingester(flush_rows: usize) -> Arc<cardinalsin::ingester::Ingester> {
    use cardinalsin::ingester::{Ingester, IngesterConfig};
    use cardinalsin::metadata::LocalMetadataClient;
    use cardinalsin::schema::MetricSchema;
    use cardinalsin::StorageConfig;
    let store: Arc<dyn object_store::ObjectStore> = Arc::new(object_store::memory::InMemory::new());
    let meta = Arc::new(LocalMetadataClient::new());
    let mut cfg = IngesterConfig::default();
    cfg.flush_row_count = flush_rows;
    cfg.wal.enabled = false;
    Arc::new(Ingester::new(cfg, store, meta, StorageConfig::default(), MetricSchema::default_metrics()))
}

fn mk_flight() -> Arc<cardinalsin::api::ingest::flight_ingest::FlightIngestService> {
    Arc::new(cardinalsin::api::ingest::flight_ingest::FlightIngestService::new(mk_ingester(1_000_000)))
}

/// Parent side of the worker: ask with a watchdog.
struct Worker {
    child: Child,
    stdin: ChildStdin,
    rx: Receiver<String>,
    pub restarts: u64,
    pub confirmed_hangs: u32,
}
enum Answer {
    Line(String),
    Hang,
    Died,
}
impl Worker {
    fn spawn() -> Worker {
        let exe = std::env::current_exe().expect("current_exe");
        let mut child = Command::new(exe).arg("worker").stdin(Stdio::piped()).stdout(Stdio::piped()).stderr(Stdio::null()).spawn().expect("spawn worker");
        let stdin = child.stdin.take().unwrap();
        let stdout = child.stdout.take().unwrap();
        let (tx, rx) = channel();
        std::thread::spawn(move || {
            let r = BufReader::new(stdout);
            for l in r.lines() {
                match l {
                    Ok(l) => {
                        if tx.send(l).is_err() {
                            break;
                        }
                    }
                    Err(_) => break,
                }
            }
        });
        Worker { child, stdin, rx, restarts: 0, confirmed_hangs: 0 }
    }
    fn restart(&mut self) {
        let _ = self.child.kill();
        let _ = self.child.wait();
        let n = self.restarts + 1;
        let h = self.confirmed_hangs;
        *self = Worker::spawn();
        self.restarts = n;
        self.confirmed_hangs = h;
    }
    /// A timeout is confirmed by a second, much longer attempt in a fresh worker, so
    /// that a descheduled process on a busy machine is not reported as a hang.
    fn ask(&mut self, line: &str, timeout: Duration) -> Answer {
        match self.ask_once(line, timeout) {
            Answer::Hang if self.confirmed_hangs < 3 => {
                let again = self.ask_once(line, timeout * 6);
                if matches!(again, Answer::Hang) {
                    self.confirmed_hangs += 1;
                }
                again
            }
            other => other,
        }
    }
    fn ask_once(&mut self, line: &str, timeout: Duration) -> Answer {
        if writeln!(self.stdin, "{}", line).is_err() || self.stdin.flush().is_err() {
            self.restart();
            return Answer::Died;
        }
        match self.rx.recv_timeout(timeout) {
            Ok(l) => Answer::Line(l),
            Err(std::sync::mpsc::RecvTimeoutError::Timeout) => {
                self.restart();
                Answer::Hang
            }
            Err(_) => {
                self.restart();
                Answer::Died
            }
        }
    }
}
impl Drop for Worker {
    fn drop(&mut self) {
        let _ = self.child.kill();
        let _ = self.child.wait();
    }
}

const WATCHDOG: Duration = Duration::from_secs(20);

/// (parse out, combined parse+convert out in the model's `C` format)
fn impl_prom(w: &mut Worker, bytes: &[u8]) -> (String, String) {
    match w.ask(&format!("P {}", hex(bytes)), WATCHDOG) {
        Answer::Hang => ("HANG".into(), "HANG".into()),
        Answer::Died => ("ABORT".into(), "ABORT".into()),
        Answer::Line(l) => {
            let (p, c) = l.split_once('\t').unwrap_or((l.as_str(), "-"));
            let p = strip_panic(p);
            let c = strip_panic(c);
            let combined = if let Some(code) = p.strip_prefix("ERR ") {
                format!("PERR {}", code)
            } else if p == "PANIC" {
                "PANIC".to_string()
            } else {
                c.clone()
            };
            (p, combined)
        }
    }
}
fn strip_panic(s: &str) -> String {
    if s.starts_with("PANIC") {
        "PANIC".into()
    } else {
        s.to_string()
    }
}

// ===================================================================== oracle
/// The property's own predicate for a remote-write request whose encoding was
/// accepted: one row per sample, exact ns timestamp, metric name, complete
/// label set, numerically equal value, nothing mixed between series.
fn prom_oracle(req: &[wire::GSeries], conv: &str, lossy: bool) -> Vec<String> {
    let mut bad = Vec::new();
    let total: usize = req.iter().map(|t| t.samples.len()).sum();
    let overflow = req.iter().flat_map(|t| t.samples.iter()).any(|s| (s.ts as i128 * 1_000_000) > i64::MAX as i128 || (s.ts as i128 * 1_000_000) < i64::MIN as i128);
    if conv.starts_with("PANIC") || conv == "HANG" || conv == "ABORT" {
        bad.push(format!("the receiver crashed on a well-formed request: {}", conv));
        return bad;
    }
    if let Some(code) = conv.strip_prefix("CERR ") {
        // an error is the only faithful answer when there is nothing to store or a timestamp has no ns representation
        if !(req.is_empty() || overflow) {
            bad.push(format!("well-formed request with {} samples rejected (code {})", total, code));
        }
        return bad;
    }
    if conv.starts_with("PERR") {
        bad.push(format!("well-formed encoding rejected by the reader ({})", conv));
        return bad;
    }
    let Some(body) = conv.strip_prefix("OK ") else {
        bad.push(format!("unreadable conversion output: {}", &conv[..conv.len().min(80)]));
        return bad;
    };
    if overflow {
        bad.push("a timestamp that overflows i64 nanoseconds was accepted".into());
        return bad;
    }
    let Some((cols, rows)) = body.strip_prefix("cols=").and_then(|b| b.split_once("|rows=")) else {
        bad.push("unreadable batch".into());
        return bad;
    };
    let cols: Vec<Vec<u8>> = cols.split(',').filter(|c| !c.is_empty()).map(|c| unhex(&c[1..])).collect();
    let rows: Vec<&str> = if rows.is_empty() { vec![] } else { rows.split('/').collect() };
    if rows.len() != total {
        bad.push(format!("{} samples became {} rows", total, rows.len()));
        return bad;
    }
    // label columns: sorted, unique, exactly the label names other than __name__
    let fix = |b: &Vec<u8>| if lossy { String::from_utf8_lossy(b).into_owned().into_bytes() } else { b.clone() };
    let mut want: Vec<Vec<u8>> = req.iter().flat_map(|t| t.labels.iter()).map(|l| fix(&l.name)).filter(|n| n != b"__name__").collect();
    want.sort();
    want.dedup();
    if cols != want {
        bad.push(format!("label columns {:?} != sorted union of label names {:?}", show(&cols), show(&want)));
        return bad;
    }
    let mut k = 0;
    for (si, t) in req.iter().enumerate() {
        let name = t.labels.iter().find(|l| l.name == b"__name__").map(|l| fix(&l.value)).unwrap_or_default();
        for (sj, s) in t.samples.iter().enumerate() {
            let f: Vec<&str> = rows[k].split(';').collect();
            k += 1;
            if f.len() != 4 {
                bad.push(format!("series {} sample {}: unreadable row", si, sj));
                continue;
            }
            if f[0] != (s.ts as i128 * 1_000_000).to_string() {
                bad.push(format!("series {} sample {}: timestamp {} ms stored as {} ns", si, sj, s.ts, f[0]));
            }
            if unhex(f[1]) != name {
                bad.push(format!("series {} sample {}: metric name {:?} stored as {:?}", si, sj, String::from_utf8_lossy(&name), String::from_utf8_lossy(&unhex(f[1]))));
            }
            // value: numerically equal
            let v = f64::from_bits(s.bits);
            let ok = match f[2].split_at(1) {
                ("F", b) => b.parse::<u64>().ok().map(|b| b == s.bits || (v.is_nan() && f64::from_bits(b).is_nan())).unwrap_or(false),
                ("U", u) => u.parse::<u64>().ok().map(|u| otlp::f64_exact_int(s.bits) == Some(u as i128)).unwrap_or(false),
                ("I", i) => i.parse::<i64>().ok().map(|i| otlp::f64_exact_int(s.bits) == Some(i as i128)).unwrap_or(false),
                _ => false,
            };
            if !ok {
                bad.push(format!("series {} sample {}: value {:e} (bits {:#x}) stored as {}", si, sj, v, s.bits, f[2]));
            }
            // labels: complete, exact, nothing from other series
            let cells: Vec<&str> = if cols.is_empty() { vec![] } else { f[3].split(',').collect() };
            if cells.len() != cols.len() {
                bad.push(format!("series {} sample {}: {} cells for {} label columns", si, sj, cells.len(), cols.len()));
                continue;
            }
            for (c, cell) in cols.iter().zip(cells.iter()) {
                let want = t.labels.iter().rev().find(|l| fix(&l.name) == *c).map(|l| fix(&l.value));
                let got = if *cell == "~" { None } else { Some(unhex(&cell[1..])) };
                if want != got {
                    bad.push(format!(
                        "series {} sample {}: label {:?} = {:?} stored as {:?}",
                        si, sj, String::from_utf8_lossy(c), want.as_ref().map(|v| String::from_utf8_lossy(v).into_owned()), got.as_ref().map(|v| String::from_utf8_lossy(v).into_owned())
                    ));
                }
            }
        }
    }
    bad
}
fn show(v: &[Vec<u8>]) -> Vec<String> {
    v.iter().map(|b| String::from_utf8_lossy(b).into_owned()).collect()
}

// ============================================================ handler path
struct HandlerEnv {
    rt: tokio::runtime::Runtime,
    query_node: Arc<cardinalsin::query::QueryNode>,
    /// ingester that flushes every write, so the batch that reached it can be observed
    flushing: Arc<cardinalsin::ingester::Ingester>,
    rx: tokio::sync::broadcast::Receiver<arrow_array::RecordBatch>,
    pub t_post: f64,
}
impl HandlerEnv {
    fn new() -> HandlerEnv {
        let rt = tokio::runtime::Builder::new_current_thread().enable_all().build().unwrap();
        let (qn, ing, rx) = rt.block_on(async {
            use cardinalsin::metadata::LocalMetadataClient;
            use cardinalsin::query::{QueryConfig, QueryNode};
            let ing = mk_ingester(1);
            let rx = ing.subscribe();
            let store: Arc<dyn object_store::ObjectStore> = Arc::new(object_store::memory::InMemory::new());
            let qn = QueryNode::new(QueryConfig::default(), store, Arc::new(LocalMetadataClient::new()), cardinalsin::StorageConfig::default()).await.expect("query node");
            (Arc::new(qn), ing, rx)
        });
        HandlerEnv { rt, query_node: qn, flushing: ing, rx, t_post: 0.0 }
    }
    /// An OTLP export through the gRPC service entry point (`OtlpGrpcService::export`) with a
    /// fresh ingester -> ("ok" | "err <code>" | "PANIC", rows buffered).
    fn otlp_export(&mut self, req: opentelemetry_proto::tonic::collector::metrics::v1::ExportMetricsServiceRequest) -> (String, usize) {
        use opentelemetry_proto::tonic::collector::metrics::v1::metrics_service_server::MetricsService;
        let ing = mk_ingester(1_000_000);
        let svc = cardinalsin::api::grpc::OtlpGrpcService::new(ing.clone());
        self.rt.block_on(async move {
            let h = tokio::spawn(async move { svc.export(tonic::Request::new(req)).await.map(|_| ()).map_err(|s| format!("{:?}", s.code())) });
            let r = match h.await {
                Ok(Ok(())) => "ok".to_string(),
                Ok(Err(c)) => format!("err {}", c),
                Err(_) => "PANIC".to_string(),
            };
            (r, ing.buffer_stats().await.row_count)
        })
    }
    /// POST body -> (status | PANIC, rows buffered by the ingester, flushed batches in canonical text).
    /// `observe_rows`: use the flushing ingester (slower) so that the stored rows can be read back;
    /// otherwise a fresh ingester whose buffer row count is reported.
    fn post(&mut self, body: Vec<u8>, observe_rows: bool) -> (String, usize, Vec<String>) {
        use axum::response::IntoResponse;
        let t0 = std::time::Instant::now();
        let ing = if observe_rows { self.flushing.clone() } else { mk_ingester(1_000_000) };
        let st = cardinalsin::api::ApiState { ingester: ing.clone(), query_node: self.query_node.clone() };
        let (r, buffered) = self.rt.block_on(async move {
            let h = tokio::spawn(async move {
                cardinalsin::api::ingest::prometheus::handle_remote_write(axum::extract::State(st), axum::body::Bytes::from(body)).await.into_response().status().as_u16()
            });
            let r = h.await;
            let rows = ing.buffer_stats().await.row_count;
            (r, rows)
        });
        let mut flushed = Vec::new();
        while let Ok(b) = self.rx.try_recv() {
            flushed.push(canon::canon_batch(&b));
        }
        self.t_post += t0.elapsed().as_secs_f64();
        (match r { Ok(s) => s.to_string(), Err(_) => "PANIC".into() }, buffered, flushed)
    }
}

// ======================================================================= main
struct Ctx {
    model: Model,
    worker: Worker,
    report: Report,
    t_model: f64,
    t_worker: f64,
    out: String,
    started: std::time::Instant,
    budget: Duration,
    shrinks: u32,
}

/// Work bounds under a breaking change: stop generating after this many findings,
/// shrink only the first few, each shrink within a bounded number of runs.
const MAX_FINDINGS: usize = 10;
const MAX_SHRINKS: u32 = 4;
const SHRINK_RUNS: u32 = 250;

impl Ctx {
    /// disagreements + oracle violations outside the known classes
    fn findings(&self) -> usize {
        self.report.disagreements.len() + self.report.oracle_violations.iter().filter(|o| o["class"].as_str().unwrap_or("").is_empty()).count()
    }
    /// true when the run should stop generating cases (enough findings, or out of time)
    fn stop(&self) -> bool {
        self.findings() >= MAX_FINDINGS || self.started.elapsed() > self.budget
    }
    /// the report on disk always reflects what has been found so far
    fn flush(&self) {
        if !self.out.is_empty() {
            self.report.write(&self.out);
        }
    }
    fn may_shrink(&mut self) -> bool {
        if self.shrinks >= MAX_SHRINKS {
            return false;
        }
        self.shrinks += 1;
        true
    }
    /// one remote-write byte string through implementation and model; returns
    /// (impl parse out, impl combined out, disagreement?)
    fn check_bytes(&mut self, bytes: &[u8], origin: &str) -> (String, String, bool) {
        let t0 = std::time::Instant::now();
        let (ip, ic) = impl_prom(&mut self.worker, bytes);
        self.t_worker += t0.elapsed().as_secs_f64();
        self.report.impl_runs += 1;
        let h = hex(bytes);
        let t1 = std::time::Instant::now();
        let (d1, mp) = self.model.differs(&format!("P d {}", h), &ip);
        let (d2, mc) = self.model.differs(&format!("C d {}", h), &ic);
        // the release-build model must agree with the debug-build model on the current code
        let mr = self.model.ask(&format!("P r {}", h));
        self.t_model += t1.elapsed().as_secs_f64();
        let d3 = !self.model.is_null() && mr != mp;
        if (d1 || d2 || d3) && !self.may_shrink() {
            // enough shrunk examples are on record: count the rest
            self.report.bump("disagreements.not_shrunk");
            if self.report.disagreements.len() < 20 {
                self.report.disagreement(json!({
                    "correspondence": "protobuf reader + conversion model (Model/Proto.v, Model/ProtoConv.v) vs parse_write_request / convert_prom_to_arrow",
                    "case": {"kind": "prom", "hex": h, "origin": origin},
                    "impl": {"parse": ip, "convert": ic}, "model": {"parse": mp, "convert": mc, "parse_release": mr},
                    "shrunk": {"kind": "prom", "hex": h}, "oracle_failed": false,
                }));
            }
        } else if d1 || d2 || d3 {
            let mut runs = 0u32;
            let shrunk = ddmin(bytes, &mut |cand: &[u8]| {
                runs += 1;
                if runs > SHRINK_RUNS {
                    return false;
                }
                let (p, c) = impl_prom(&mut self.worker, cand);
                let hh = hex(cand);
                self.model.differs(&format!("P d {}", hh), &p).0 || self.model.differs(&format!("C d {}", hh), &c).0
            });
            let (sp, sc) = impl_prom(&mut self.worker, &shrunk);
            let sh = hex(&shrunk);
            let smp = self.model.ask(&format!("P d {}", sh));
            let smc = self.model.ask(&format!("C d {}", sh));
            let crashed = ["PANIC", "HANG", "ABORT"].iter().any(|k| ip.starts_with(k) || ic.starts_with(k));
            self.report.disagreement(json!({
                "correspondence": "protobuf reader + conversion model (Model/Proto.v, Model/ProtoConv.v) vs parse_write_request / convert_prom_to_arrow",
                "case": {"kind": "prom", "hex": h, "origin": origin},
                "impl": {"parse": ip, "convert": ic}, "model": {"parse": mp, "convert": mc, "parse_release": mr},
                "shrunk": {"kind": "prom", "hex": sh}, "shrunk_impl": {"parse": sp, "convert": sc}, "shrunk_model": {"parse": smp, "convert": smc},
                "oracle_failed": crashed,
            }));
        }
        if d1 || d2 || d3 {
            self.flush();
        }
        (ip, ic, d1 || d2 || d3)
    }

    fn no_crash_oracle(&mut self, bytes: &[u8], ip: &str, ic: &str, origin: &str) {
        for (what, out) in [("parse_write_request", ip), ("convert_prom_to_arrow", ic)] {
            let crash = if out.starts_with("PANIC") {
                Some("panicked")
            } else if out == "HANG" {
                Some("did not return within the watchdog (hang)")
            } else if out == "ABORT" {
                Some("killed the process (abort)")
            } else {
                None
            };
            if let Some(c) = crash {
                if !self.may_shrink() {
                    self.report.bump("crashes.not_shrunk");
                    self.report.oracle_violation("", &format!("{} {} on a request body ({} bytes)", what, c, bytes.len()), json!({"kind": "prom", "hex": hex(bytes), "origin": origin}));
                    self.flush();
                    return;
                }
                let mut runs = 0u32;
                let shrunk = ddmin(bytes, &mut |cand: &[u8]| {
                    runs += 1;
                    if runs > SHRINK_RUNS {
                        return false;
                    }
                    // a hang costs a watchdog period per run: do not shrink those
                    if c.contains("hang") {
                        return false;
                    }
                    let (p, cc) = impl_prom(&mut self.worker, cand);
                    [p.as_str(), cc.as_str()].iter().any(|o| o.starts_with("PANIC") || *o == "HANG" || *o == "ABORT")
                });
                self.report.oracle_violation("", &format!("{} {} on a request body ({} bytes after shrinking)", what, c, shrunk.len()), json!({"kind": "prom", "hex": hex(&shrunk), "original": hex(bytes), "origin": origin}));
                self.flush();
                return;
            }
        }
    }
}

fn replay(args: &Args, path: &str) -> ! {
    let txt = std::fs::read_to_string(path).expect("replay file");
    let v: serde_json::Value = serde_json::from_str(&txt).expect("replay json");
    let case = if v["case"].is_object() { v["case"].clone() } else { v.clone() };
    let kind = case["kind"].as_str().unwrap_or("prom").to_string();
    let mut model = Model::spawn(&args.model);
    let mut worker = Worker::spawn();
    let mut failed = false;
    match kind.as_str() {
        "prom" => {
            let bytes = unhex(case["hex"].as_str().unwrap_or(""));
            let (ip, ic) = impl_prom(&mut worker, &bytes);
            let mp = model.ask(&format!("P d {}", hex(&bytes)));
            let mc = model.ask(&format!("C d {}", hex(&bytes)));
            println!("bytes : {}\nimpl  parse  : {}\nmodel parse  : {}\nimpl  convert: {}\nmodel convert: {}", hex(&bytes), ip, mp, ic, mc);
            failed = (!model.is_null() && (ip != mp || ic != mc)) || [&ip, &ic].iter().any(|o| o.starts_with("PANIC") || *o == "HANG" || *o == "ABORT");
            if let Some(rt) = case["request"].as_str() {
                let req = parse_request_text(rt);
                let bad = prom_oracle(&req, &ic, false);
                println!("oracle failures: {:?}", bad);
                failed |= !bad.is_empty();
            }
        }
        "handler" => {
            let body = unhex(case["body_hex"].as_str().unwrap_or(""));
            let mut env = HandlerEnv::new();
            let (st, _, fl) = env.post(body.clone(), true);
            let dec = snap::raw::Decoder::new().decompress_vec(&body).ok();
            let ms = model.ask(&format!("H d {}", dec.as_ref().map(|d| hex(d)).unwrap_or("-".into())));
            println!("status impl {} model {}\nflushed {:?}", st, ms, fl);
            failed = st == "PANIC" || (!model.is_null() && st != ms);
        }
        "otlp" => {
            use prost::Message;
            let bytes = unhex(case["hex"].as_str().unwrap_or(""));
            let req = opentelemetry_proto::tonic::collector::metrics::v1::ExportMetricsServiceRequest::decode(&bytes[..]).expect("decode");
            let out = catch(AssertUnwindSafe(|| cardinalsin::api::ingest::otlp::export_request_to_arrow(&req).map_err(|e| e.to_string())));
            let bad = otlp::oracle(&req, &out);
            println!("request: {:?}\nclasses: {}\noracle failures: {:?}", otlp::request_text(&req), model.ask(&format!("K {}", otlp::classifier_text(&req))), bad);
            failed = !bad.is_empty();
        }
        "otlp_bytes" => {
            let r = worker.ask(&format!("T {}", case["hex"].as_str().unwrap_or("")), WATCHDOG);
            let s = match r { Answer::Line(l) => l, Answer::Hang => "HANG".into(), Answer::Died => "ABORT".into() };
            println!("otlp bytes -> {}", s);
            failed = s.starts_with("PANIC") || s == "HANG" || s == "ABORT";
        }
        "flight" => {
            let r = worker.ask(&format!("F {}", case["frames"].as_str().unwrap_or("")), WATCHDOG);
            let s = match r { Answer::Line(l) => l, Answer::Hang => "HANG".into(), Answer::Died => "ABORT".into() };
            println!("flight frames -> {}", s);
            failed = s.starts_with("PANIC") || s == "HANG" || s == "ABORT";
        }
        "flight_grpc" => {
            let r = worker.ask(&format!("G {}", case["chunks"].as_str().unwrap_or("")), WATCHDOG);
            let s = match r { Answer::Line(l) => l, Answer::Hang => "HANG".into(), Answer::Died => "ABORT".into() };
            let g = Grpc { chunks: vec![], class: "replay", broken: case["broken"].as_bool().unwrap_or(false), rows: case["rows"].as_u64().unwrap_or(0) as usize, complete_batches: 0 };
            let bad = grpc_oracle(&g, &s);
            println!("flight gRPC body -> {}\noracle: {:?}", s, bad);
            failed = bad.is_some();
        }
        _ => println!("unknown replay kind {}", kind),
    }
    std::process::exit(if failed { 1 } else { 0 });
}

fn parse_request_text(s: &str) -> Vec<wire::GSeries> {
    if s == "-" {
        return vec![];
    }
    s.split('/')
        .map(|ser| {
            let (ls, ss) = ser.split_once('|').unwrap_or((ser, ""));
            wire::GSeries {
                labels: ls.split(',').filter(|x| !x.is_empty()).map(|l| { let (a, b) = l.split_once(':').unwrap_or((l, "")); wire::GLabel { name: unhex(a), value: unhex(b) } }).collect(),
                samples: ss.split(',').filter(|x| !x.is_empty()).map(|x| { let (t, v) = x.split_once(':').unwrap_or((x, "0")); wire::GSample { ts: t.parse().unwrap_or(0), bits: v.parse().unwrap_or(0) } }).collect(),
            }
        })
        .collect()
}

fn main() {
    if std::env::args().nth(1).as_deref() == Some("worker") {
        worker_main();
        return;
    }
    let args = Args::parse();
    csv_common::quiet_panics();
    if let Some(path) = &args.replay {
        replay(&args, path);
    }
    let thorough = args.thorough();
    let n_structured = if thorough { 20_000 } else { 2_000 };
    let n_malformed = if thorough { 100_000 } else { 5_000 };
    let n_handler = if thorough { 1_000 } else { 150 };
    let n_otlp = if thorough { 10_000 } else { 1_200 };
    let n_otlp_bytes = if thorough { 10_000 } else { 1_000 };
    let n_flight = if thorough { 3_000 } else { 400 };
    // `--only prom|otlp|flight` restricts the run to one protocol (debugging aid)
    let only = args.get("only").unwrap_or("").to_string();
    let (n_structured, n_malformed) = if only.is_empty() || only == "prom" { (n_structured, n_malformed) } else { (0, 0) };
    let (n_otlp, n_otlp_bytes) = if only.is_empty() || only == "otlp" { (n_otlp, n_otlp_bytes) } else { (0, 0) };
    let n_flight = if only.is_empty() || only == "flight" { n_flight } else { 0 };
    let n_grpc = if !(only.is_empty() || only == "flight" || only == "grpc") { 0 } else if thorough { 4_000 } else { 500 };
    let n_flight = if only == "grpc" { 0 } else { n_flight };

    let mut cx = Ctx { model: Model::spawn(&args.model), worker: Worker::spawn(), report: Report::new("C17"), t_model: 0.0, t_worker: 0.0, out: args.out.clone(), started: std::time::Instant::now(), budget: Duration::from_secs(if thorough { 2400 } else { 420 }), shrinks: 0 };
    let mut rng = Rng::new(args.seed);
    let mut henv = HandlerEnv::new();
    let t_start = std::time::Instant::now();
    let mut lap = t_start;
    let mut laps: Vec<String> = Vec::new();
    macro_rules! lap {
        ($name:expr) => {{
            let now = std::time::Instant::now();
            laps.push(format!("{} {:.1}s", $name, (now - lap).as_secs_f64()));
            lap = now;
        }};
    }

    // ------------------------------------------------ 0. corpus of hostile inputs
    for (bytes, name) in wire::corpus() {
        cx.report.case(None);
        cx.report.bump(name);
        cx.report.bump("stream.malformed");
        let (ip, ic, _) = cx.check_bytes(&bytes, name);
        cx.no_crash_oracle(&bytes, &ip, &ic, name);
        // the same body through the public handler
        let body = snap::raw::Encoder::new().compress_vec(&bytes).unwrap();
        let (st, _, _) = henv.post(body.clone(), false);
        cx.report.impl_runs += 1;
        let (d, ms) = cx.model.differs(&format!("H d {}", hex(&bytes)), &st);
        if st == "PANIC" {
            cx.report.oracle_violation("", &format!("handle_remote_write panicked on corpus input {}", name), json!({"kind": "handler", "body_hex": hex(&body), "decompressed_hex": hex(&bytes)}));
        } else if d {
            cx.report.disagreement(json!({"correspondence": "handler status model (ProtoConv.handle) vs handle_remote_write", "case": {"kind": "handler", "body_hex": hex(&body)}, "impl": st, "model": ms, "shrunk": {"kind": "handler", "body_hex": hex(&body)}, "oracle_failed": false}));
        }
    }

    lap!("corpus");
    // ------------------------------------------------ 1. structured remote-write
    let handler_every = (n_structured / n_handler.max(1)).max(1);
    for k in 0..n_structured {
        if cx.stop() {
            break;
        }
        let mut r = rng.fork();
        let mut bumps: Vec<String> = Vec::new();
        let opts = wire::GenOpts { invalid_utf8: false, reserved_names: r.chance(1, 6) };
        let req = wire::gen_request(&mut r, &opts, &mut |s| bumps.push(s.to_string()));
        let canonical = r.chance(1, 2);
        let (enc, feats) = if canonical { (wire::encode_canonical(&req), vec![]) } else { wire::encode_variant(&req, &mut r) };
        let text = wire::request_text(&req);
        let total: usize = req.iter().map(|t| t.samples.len()).sum();
        cx.report.case(if total > 0 { Some(&text) } else { None });
        cx.report.bump("stream.structured");
        cx.report.bump(if canonical { "encoding.canonical" } else { "encoding.variant" });
        for f in &feats {
            cx.report.bump(&format!("encoding.{}", f));
        }
        for b in &bumps {
            cx.report.bump(b);
        }
        let (ip, ic, differs) = cx.check_bytes(&enc.buf, "structured");
        if k < 2 {
            cx.report.sample(json!({"request": text, "bytes": hex(&enc.buf), "impl_parse": ip, "impl_convert": ic}));
        }
        // the canonical encoder of the harness is the model's encoder
        if canonical {
            let (d, me) = cx.model.differs(&format!("E {}", text), &hex(&enc.buf));
            if d {
                cx.report.disagreement(json!({"correspondence": "hand encoder of the harness vs enc_request of the model", "case": {"kind": "prom", "hex": hex(&enc.buf), "request": text}, "impl": hex(&enc.buf), "model": me, "shrunk": {"kind": "prom", "hex": hex(&enc.buf)}, "oracle_failed": false}));
            }
            // parse_encode on the implementation: the reader returns exactly the request
            if ip != format!("OK {}", text) {
                cx.report.oracle_violation("", &format!("canonical encoding of a well-formed request decoded as {}", &ip[..ip.len().min(200)]), json!({"kind": "prom", "hex": hex(&enc.buf), "request": text}));
            }
        }
        // oracle on what the conversion produced (the decoded request is `req` also for the
        // non-canonical variants: a repeated scalar keeps the last occurrence, which the
        // encoder makes the real one; omitted fields are the defaults; unknown fields are skipped)
        let bad = prom_oracle(&req, &ic, false);
        if !bad.is_empty() {
            cx.report.oracle_violation("", &bad.join("; "), json!({"kind": "prom", "hex": hex(&enc.buf), "request": text, "features": feats}));
        }
        let _ = differs;
        // struct-level conversion (no wire decoding in between)
        if k % 5 == 0 {
            let out = match cx.worker.ask(&format!("R {}", text), WATCHDOG) {
                Answer::Line(l) => strip_panic(&l),
                Answer::Hang => "HANG".into(),
                Answer::Died => "ABORT".into(),
            };
            cx.report.impl_runs += 1;
            let (d, m) = cx.model.differs(&format!("R {}", text), &out);
            if d {
                cx.report.disagreement(json!({"correspondence": "conversion model (ProtoConv.convert) vs convert_prom_to_arrow on a decoded request", "case": {"kind": "prom", "hex": hex(&enc.buf), "request": text}, "impl": out, "model": m, "shrunk": {"kind": "prom", "hex": hex(&enc.buf)}, "oracle_failed": false}));
            }
        }
        // through the public handler
        if k % handler_every == 0 {
            let body = snap::raw::Encoder::new().compress_vec(&enc.buf).unwrap();
            let observe = (k / handler_every) % 8 == 0;
            let (st, buffered, flushed) = henv.post(body.clone(), observe);
            cx.report.impl_runs += 1;
            cx.report.bump(if observe { "stream.handler_rows_read_back" } else { "stream.handler" });
            let (d, ms) = cx.model.differs(&format!("H d {}", hex(&enc.buf)), &st);
            let case = json!({"kind": "handler", "body_hex": hex(&body), "decompressed_hex": hex(&enc.buf), "request": text});
            if st == "PANIC" {
                cx.report.oracle_violation("", "handle_remote_write panicked on a well-formed request", case.clone());
            } else if d {
                cx.report.disagreement(json!({"correspondence": "handler status model (ProtoConv.handle) vs handle_remote_write", "case": case, "impl": st, "model": ms, "shrunk": case, "oracle_failed": false}));
            }
            if st == "204" && total > 0 {
                if observe {
                    let want = ic.strip_prefix("OK ").unwrap_or("");
                    if flushed.len() != 1 || flushed[0] != want {
                        cx.report.oracle_violation("", &format!("rows reaching the ingester through handle_remote_write differ from the converted request ({} batches flushed)", flushed.len()), case);
                    }
                } else if buffered != total {
                    cx.report.oracle_violation("", &format!("{} samples posted to handle_remote_write, {} rows buffered by the ingester", total, buffered), case);
                }
            }
        }
    }

    lap!("structured");
    // ------------------------------------------------ 2. malformed remote-write
    cx.flush();
    for _ in 0..n_malformed {
        if cx.stop() {
            break;
        }
        let mut r = rng.fork();
        let (bytes, class) = if r.chance(1, 5) {
            wire::random_bytes(&mut r)
        } else {
            let opts = wire::GenOpts { invalid_utf8: true, reserved_names: false };
            let req = wire::gen_request(&mut r, &opts, &mut |_| {});
            let (enc, _) = if r.chance(1, 2) { (wire::encode_canonical(&req), vec![]) } else { wire::encode_variant(&req, &mut r) };
            if r.chance(1, 6) {
                // not mutated: invalid UTF-8 in labels only (lossy conversion)
                (enc.buf, "malformed.invalid_utf8_only")
            } else {
                let (b, c) = wire::mutate(&enc, &mut r);
                if r.chance(1, 5) {
                    let e2 = wire::Enc { buf: b, len_marks: enc.len_marks.clone() };
                    let e2 = wire::Enc { len_marks: e2.len_marks.into_iter().filter(|(o, l)| o + l <= e2.buf.len()).collect(), buf: e2.buf };
                    (wire::mutate(&e2, &mut r).0, "mutation.double")
                } else {
                    (b, c)
                }
            }
        };
        cx.report.case(None);
        cx.report.bump("stream.malformed");
        cx.report.bump(class);
        let (ip, ic, _) = cx.check_bytes(&bytes, class);
        let oc = if ip.starts_with("OK") { "outcome.accepted" } else if ip.starts_with("ERR") { "outcome.rejected" } else { "outcome.crash" };
        cx.report.bump(oc);
        cx.no_crash_oracle(&bytes, &ip, &ic, class);
        // a share of them through the handler, some with a broken snappy frame
        if r.chance(1, 40) {
            let (body, dec) = if r.chance(1, 4) {
                let junk: Vec<u8> = (0..r.range_usize(0, 20)).map(|_| r.below(256) as u8).collect();
                let d = snap::raw::Decoder::new().decompress_vec(&junk).ok();
                (junk, d)
            } else {
                (snap::raw::Encoder::new().compress_vec(&bytes).unwrap(), Some(bytes.clone()))
            };
            let (st, _, _) = henv.post(body.clone(), false);
            cx.report.impl_runs += 1;
            cx.report.bump("stream.handler");
            let (d, ms) = cx.model.differs(&format!("H d {}", dec.as_ref().map(|d| hex(d)).unwrap_or("-".into())), &st);
            let case = json!({"kind": "handler", "body_hex": hex(&body)});
            if st == "PANIC" {
                cx.report.oracle_violation("", "handle_remote_write panicked on a hostile body", case);
            } else if d {
                cx.report.disagreement(json!({"correspondence": "handler status model (ProtoConv.handle) vs handle_remote_write", "case": case, "impl": st, "model": ms, "shrunk": case, "oracle_failed": false}));
            }
        }
    }

    lap!("malformed");
    // ------------------------------------------------ 3. OTLP
    let mut known_reported: std::collections::BTreeMap<&'static str, u32> = std::collections::BTreeMap::new();
    cx.flush();
    for k in 0..n_otlp {
        use prost::Message;
        if cx.stop() {
            break;
        }
        let mut r = rng.fork();
        let modelled = !r.chance(1, 6);
        let mut bumps: Vec<String> = Vec::new();
        let req = otlp::gen_request(&mut r, modelled, &mut |s| bumps.push(s.to_string()));
        let text = otlp::request_text(&req);
        let npoints = otlp::expectations(&req).len();
        cx.report.case(if npoints > 0 { text.as_deref().or(Some("unmodelled")) } else { None });
        cx.report.bump("stream.otlp");
        for b in &bumps {
            cx.report.bump(b);
        }
        let out = catch(AssertUnwindSafe(|| cardinalsin::api::ingest::otlp::export_request_to_arrow(&req).map_err(|e| e.to_string())));
        cx.report.impl_runs += 1;
        let enc = hex(&req.encode_to_vec());
        let impl_out = match &out {
            Err(_) => "PANIC".to_string(),
            Ok(Err(e)) => format!("OERR {}", canon::err_code(e)),
            Ok(Ok(b)) => format!("OK {}", otlp::canon_batch(b)),
        };
        let classes = cx.model.ask(&format!("K {}", otlp::classifier_text(&req)));
        if let Some(t) = &text {
            let (d, m) = cx.model.differs(&format!("O {}", t), &impl_out);
            if k < 2 {
                cx.report.sample(json!({"otlp_request": t, "impl": impl_out}));
            }
            if d {
                cx.report.disagreement(json!({"correspondence": "OTLP conversion model (Model/Otlp.v) vs export_request_to_arrow", "case": {"kind": "otlp", "hex": enc, "request": t}, "impl": impl_out, "model": m, "shrunk": {"kind": "otlp", "hex": enc}, "oracle_failed": false}));
            }
        } else {
            cx.report.bump("otlp.unmodelled_attribute_values");
        }
        // the same request through the gRPC service entry point
        if k % 4 == 0 {
            let (ans, buffered) = henv.otlp_export(req.clone());
            cx.report.impl_runs += 1;
            cx.report.bump("stream.otlp_grpc_export");
            let want = if npoints == 0 { "err InvalidArgument".to_string() } else { "ok".to_string() };
            if ans != want || buffered != npoints {
                cx.report.oracle_violation("", &format!("OtlpGrpcService::export of {} data points answered '{}' with {} rows buffered (expected '{}', {} rows)", npoints, ans, buffered, want, npoints), json!({"kind": "otlp", "hex": enc}));
                cx.flush();
            }
        }
        for (kind, what) in otlp::oracle(&req, &out) {
            // known-finding classes come from the model's executable classifier
            let class = match kind {
                "value" if classes.contains("int-precision") => "otlp-int-precision",
                "time" if classes.contains("time-wrap") => "otlp-time-wrap",
                _ => "",
            };
            if !class.is_empty() {
                // every occurrence is counted, the first few are reported (the report keeps 50 entries)
                cx.report.bump(&format!("known.{}", class));
                let n = known_reported.entry(class).or_insert(0u32);
                *n += 1;
                if *n > 3 {
                    continue;
                }
            }
            cx.report.oracle_violation(class, &what, json!({"kind": "otlp", "hex": enc}));
        }
    }
    lap!("otlp");
    cx.flush();
    for _ in 0..n_otlp_bytes {
        use prost::Message;
        if cx.stop() {
            break;
        }
        let mut r = rng.fork();
        let bytes: Vec<u8> = if r.chance(1, 3) {
            wire::random_bytes(&mut r).0
        } else {
            let req = otlp::gen_request(&mut r, false, &mut |_| {});
            let e = wire::Enc { buf: req.encode_to_vec(), len_marks: vec![] };
            wire::mutate(&e, &mut r).0
        };
        cx.report.case(None);
        cx.report.bump("stream.otlp_bytes");
        let s = match cx.worker.ask(&format!("T {}", hex(&bytes)), WATCHDOG) {
            Answer::Line(l) => l,
            Answer::Hang => "HANG".into(),
            Answer::Died => "ABORT".into(),
        };
        cx.report.impl_runs += 1;
        cx.report.bump(&format!("otlp_bytes.{}", s.split(' ').next().unwrap_or("")));
        if s.starts_with("PANIC") || s == "HANG" || s == "ABORT" {
            cx.report.oracle_violation("", &format!("OTLP request bytes: {}", &s[..s.len().min(160)]), json!({"kind": "otlp_bytes", "hex": hex(&bytes)}));
        }
    }

    lap!("otlp_bytes");
    // ------------------------------------------------ 4. Arrow Flight DoPut
    cx.flush();
    for _ in 0..n_flight {
        if cx.stop() {
            break;
        }
        let mut r = rng.fork();
        let (frames, class, nrows) = gen_flight(&mut r);
        cx.report.case(None);
        cx.report.bump("stream.flight");
        cx.report.bump(class);
        let line = frames.iter().map(|(h, b)| format!("{}:{}", hex(h), hex(b))).collect::<Vec<_>>().join(",");
        let s = match cx.worker.ask(&format!("F {}", line), WATCHDOG) {
            Answer::Line(l) => l,
            Answer::Hang => "HANG".into(),
            Answer::Died => "ABORT".into(),
        };
        cx.report.impl_runs += 1;
        cx.report.bump(&format!("flight.{}", s.split(' ').next().unwrap_or("")));
        if (class == "flight.valid" || class == "flight.zero_rows") && s != format!("ok {}", nrows) {
            cx.report.oracle_violation("", &format!("a valid Flight DoPut stream of {} rows was answered with {}", nrows, &s[..s.len().min(120)]), json!({"kind": "flight", "frames": line}));
        }
        if s.starts_with("PANIC") || s == "HANG" || s == "ABORT" {
            // shrink over frames
            let mut runs = 0u32;
            let can = cx.may_shrink() && s.starts_with("PANIC");
            let shrunk = ddmin(&frames, &mut |cand: &[(Vec<u8>, Vec<u8>)]| {
                runs += 1;
                if !can || runs > SHRINK_RUNS {
                    return false;
                }
                let l = cand.iter().map(|(h, b)| format!("{}:{}", hex(h), hex(b))).collect::<Vec<_>>().join(",");
                match cx.worker.ask(&format!("F {}", l), WATCHDOG) {
                    Answer::Line(x) => x.starts_with("PANIC"),
                    _ => true,
                }
            });
            let l = shrunk.iter().map(|(h, b)| format!("{}:{}", hex(h), hex(b))).collect::<Vec<_>>().join(",");
            cx.report.oracle_violation("", &format!("Flight DoPut frames ({}): {}", class, &s[..s.len().min(200)]), json!({"kind": "flight", "frames": l}));
            cx.flush();
        }
    }

    lap!("flight");
    // ------------------------------------------------ 5. Flight DoPut through the gRPC service
    cx.flush();
    for k in 0..n_grpc {
        if cx.stop() {
            break;
        }
        let mut r = rng.fork();
        let g = gen_grpc(&mut r);
        cx.report.case(None);
        cx.report.bump("stream.flight_grpc");
        cx.report.bump(g.class);
        let line = g.chunks.iter().map(|c| match c { Some(b) => hex(b), None => "ERR".to_string() }).collect::<Vec<_>>().join(",");
        let s = match cx.worker.ask(&format!("G {}", line), WATCHDOG) {
            Answer::Line(l) => l,
            Answer::Hang => "HANG".into(),
            Answer::Died => "ABORT".into(),
        };
        cx.report.impl_runs += 1;
        cx.report.bump(&format!("flight_grpc.{}", s.split(' ').next().unwrap_or("")));
        if k < 1 {
            cx.report.sample(json!({"flight_grpc": g.class, "complete_batch_frames_before_break": g.complete_batches, "answer": s}));
        }
        if let Some(what) = grpc_oracle(&g, &s) {
            cx.report.oracle_violation("", &what, json!({"kind": "flight_grpc", "chunks": line, "class": g.class, "broken": g.broken, "rows": g.rows}));
            cx.flush();
        }
    }

    lap!("flight_grpc");
    let _ = lap;
    if cx.stop() {
        cx.report.notes.push(format!("stopped early: {} findings (limit {}), {:.0}s elapsed (budget {}s)", cx.findings(), MAX_FINDINGS, cx.started.elapsed().as_secs_f64(), cx.budget.as_secs()));
    }
    cx.report.notes.push(format!("stream times: {}; in check_bytes: model {:.1}s, worker {:.1}s; handler posts {:.1}s", laps.join(", "), cx.t_model, cx.t_worker, henv.t_post));
    cx.report.notes.push(format!("model calls: {}; worker restarts: {}", cx.model.calls, cx.worker.restarts));
    cx.report.write(&args.out);
}

fn gen_flight(rng: &mut Rng) -> (Vec<(Vec<u8>, Vec<u8>)>, &'static str, usize) {
    use arrow_array::{Float64Array, RecordBatch, StringArray, TimestampNanosecondArray};
    use arrow_schema::{DataType, Field, Schema, TimeUnit};
    let n = if rng.chance(1, 8) { 0 } else { rng.range_usize(1, 4) };
    let schema = Arc::new(Schema::new(vec![
        Field::new("timestamp", DataType::Timestamp(TimeUnit::Nanosecond, Some("UTC".into())), false),
        Field::new("metric_name", DataType::Utf8, false),
        Field::new("value_f64", DataType::Float64, true),
        Field::new("host", DataType::Utf8, true),
    ]));
    let batch = RecordBatch::try_new(
        schema,
        vec![
            Arc::new(TimestampNanosecondArray::from((0..n).map(|i| 1_700_000_000_000_000_000 + i as i64).collect::<Vec<_>>()).with_timezone("UTC")),
            Arc::new(StringArray::from((0..n).map(|_| "cpu").collect::<Vec<_>>())),
            Arc::new(Float64Array::from((0..n).map(|i| i as f64 * 0.5).collect::<Vec<_>>())),
            Arc::new(StringArray::from((0..n).map(|i| if i % 2 == 0 { Some("a") } else { None }).collect::<Vec<Option<&str>>>())),
        ],
    )
    .unwrap();
    let fd = cardinalsin::api::ingest::flight_ingest::batch_to_flight_data(&batch).unwrap();
    let mut frames: Vec<(Vec<u8>, Vec<u8>)> = fd.iter().map(|f| (f.data_header.to_vec(), f.data_body.to_vec())).collect();
    match rng.below(10) {
        0 | 1 => (frames, if n == 0 { "flight.zero_rows" } else { "flight.valid" }, n),
        2 => {
            // random bytes as frames
            let k = rng.range_usize(1, 3);
            ((0..k).map(|_| (wire::random_bytes(rng).0, wire::random_bytes(rng).0)).collect(), "flight.random_frames", n)
        }
        3 => {
            frames.remove(0);
            (frames, "flight.schema_missing", n)
        }
        4 => {
            for f in frames.iter_mut().skip(1) {
                let l = f.1.len();
                f.1.truncate(if l == 0 { 0 } else { rng.below(l as u64) as usize });
            }
            (frames, "flight.body_truncated", n)
        }
        5 | 6 => {
            let i = rng.below(frames.len() as u64) as usize;
            let e = wire::Enc { buf: frames[i].0.clone(), len_marks: vec![] };
            for _ in 0..rng.range_usize(1, 3) {
                let m = wire::mutate(&wire::Enc { buf: frames[i].0.clone(), len_marks: vec![] }, rng).0;
                frames[i].0 = m;
            }
            let _ = e;
            (frames, "flight.header_mutated", n)
        }
        7 => {
            let i = rng.below(frames.len() as u64) as usize;
            let l = frames[i].0.len();
            if l >= 8 {
                // overwrite 4 aligned bytes with an extreme value (offsets / lengths of the flatbuffer)
                let at = (rng.below((l / 4) as u64) as usize) * 4;
                let v: u32 = *rng.pick(&[0xFFFF_FFFFu32, 0x7FFF_FFFF, 0x8000_0000, 0, 1, 0x0000_FFFF]);
                frames[i].0[at..at + 4].copy_from_slice(&v.to_le_bytes());
            }
            (frames, "flight.header_word_overwritten", n)
        }
        8 => {
            frames.reverse();
            (frames, "flight.frames_reordered", n)
        }
        _ => {
            if frames.len() > 1 {
                let i = 1 + rng.below(frames.len() as u64 - 1) as usize;
                let extra = frames[i].clone();
                frames.push(extra);
                frames[i].1 = (0..rng.range_usize(0, 32)).map(|_| rng.below(256) as u8).collect();
            }
            (frames, "flight.body_replaced", n)
        }
    }
}

// ------------------------------------------------ Flight DoPut through the gRPC service
/// A raw gRPC request body for DoPut (chunks as they arrive from the transport; `None` =
/// the transport fails there), whether the stream is broken, and the rows of a complete one.
struct Grpc {
    chunks: Vec<Option<Vec<u8>>>,
    class: &'static str,
    broken: bool,
    rows: usize,
    complete_batches: usize,
}

/// The rule established on the unchanged code: `do_put` collects the whole stream first,
/// so a stream that ends in an error (message cut short, declared length past the body,
/// invalid compression flag, undecodable message, transport error) is answered with an
/// error status and nothing of it reaches the ingester; a complete stream is acknowledged
/// with exactly its row count, all of which is buffered.
fn grpc_oracle(g: &Grpc, answer: &str) -> Option<String> {
    if answer.starts_with("PANIC") || answer == "HANG" || answer == "ABORT" {
        return Some(format!("FlightIngestGrpcService::do_put crashed on a {} stream: {}", g.class, &answer[..answer.len().min(160)]));
    }
    let (verdict, buffered) = answer.split_once(" buffered=").unwrap_or((answer, "?"));
    if g.broken {
        if verdict.starts_with("ok") {
            return Some(format!("a DoPut stream that ends in an error ({}) was acknowledged with '{}' ({} rows buffered)", g.class, verdict, buffered));
        }
        if buffered != "0" {
            return Some(format!("a DoPut stream that ends in an error ({}) was rejected but {} of its rows were buffered", g.class, buffered));
        }
        None
    } else if verdict != format!("ok {}", g.rows) || buffered != g.rows.to_string() {
        Some(format!("a complete DoPut stream of {} rows ({}) was answered with '{}', {} rows buffered", g.rows, g.class, verdict, buffered))
    } else {
        None
    }
}

fn gen_grpc(rng: &mut Rng) -> Grpc {
    use arrow_array::{Float64Array, RecordBatch, StringArray, TimestampNanosecondArray};
    use arrow_schema::{DataType, Field, Schema, TimeUnit};
    use prost::Message;
    let schema = Arc::new(Schema::new(vec![
        Field::new("timestamp", DataType::Timestamp(TimeUnit::Nanosecond, Some("UTC".into())), false),
        Field::new("metric_name", DataType::Utf8, false),
        Field::new("value_f64", DataType::Float64, true),
        Field::new("host", DataType::Utf8, true),
    ]));
    let nb = rng.range_usize(1, 4);
    let mut sizes = Vec::new();
    let mut batches = Vec::new();
    for b in 0..nb {
        let n = if rng.chance(1, 10) { 0 } else { rng.range_usize(1, 5) };
        sizes.push(n);
        batches.push(
            RecordBatch::try_new(
                schema.clone(),
                vec![
                    Arc::new(TimestampNanosecondArray::from((0..n).map(|i| 1_700_000_000_000_000_000 + (b * 10 + i) as i64).collect::<Vec<_>>()).with_timezone("UTC")),
                    Arc::new(StringArray::from((0..n).map(|_| "cpu").collect::<Vec<_>>())),
                    Arc::new(Float64Array::from((0..n).map(|i| i as f64 * 0.25).collect::<Vec<_>>())),
                    Arc::new(StringArray::from((0..n).map(|i| if i % 2 == 0 { Some("a") } else { None }).collect::<Vec<Option<&str>>>())),
                ],
            )
            .unwrap(),
        );
    }
    let fd = arrow_flight::utils::batches_to_flight_data(schema.as_ref(), batches).unwrap();
    // gRPC length-prefixed messages: frame 0 is the schema, frame i >= 1 carries batch i - 1
    let mut msgs: Vec<Vec<u8>> = fd
        .iter()
        .map(|f| {
            let p = f.encode_to_vec();
            let mut m = vec![0u8];
            m.extend((p.len() as u32).to_be_bytes());
            m.extend(p);
            m
        })
        .collect();
    let nmsg = msgs.len();
    // where the stream breaks: biased to "after the schema frame and at least one complete batch frame"
    let j = if nmsg > 2 && rng.chance(3, 4) { rng.range_usize(2, nmsg - 1) } else { rng.range_usize(0, nmsg - 1) };
    let rows_before = |j: usize| sizes.iter().take(j.saturating_sub(1)).sum::<usize>();
    let total: usize = sizes.iter().sum();
    let mut transport_error_at: Option<usize> = None; // byte offset in the body
    let (class, broken, rows): (&'static str, bool, usize) = match rng.below(10) {
        0 | 1 => ("grpc.complete", false, total),
        2 => {
            // ends cleanly after j frames: a shorter, complete stream
            msgs.truncate(j);
            ("grpc.ends_at_message_boundary", false, rows_before(j))
        }
        3 | 4 => {
            // cut inside message j (header or payload)
            msgs.truncate(j + 1);
            let l = msgs[j].len();
            // (a body that ends exactly after the 5-byte length prefix is reported by tonic 0.12's
            // frame decoder as a clean end of stream — nothing is left in its buffer — so the
            // service cannot see that break; it is generated as its own class below)
            match rng.below(9) {
                0 | 1 => {
                    msgs[j].truncate(rng.range_usize(1, 4));
                    ("grpc.cut_inside_message", true, 0)
                }
                2 => {
                    msgs[j].truncate(5);
                    ("grpc.ends_after_length_prefix_seen_as_eof_by_tonic", false, rows_before(j))
                }
                _ => {
                    msgs[j].truncate(rng.range_usize(6, l - 1));
                    ("grpc.cut_inside_message", true, 0)
                }
            }
        }
        5 => {
            // declared length runs past the end of the body (or past the 4 MiB decode limit)
            msgs.truncate(j + 1);
            let real = msgs[j].len() - 5;
            let declared: u32 = match rng.below(4) {
                0 => real as u32 + 1,
                1 => real as u32 + rng.range_usize(2, 4000) as u32,
                2 => 0x7FFF_FFFF,
                _ => u32::MAX,
            };
            msgs[j][1..5].copy_from_slice(&declared.to_be_bytes());
            ("grpc.declared_length_past_body", true, 0)
        }
        6 => {
            // compression flag without a negotiated encoding, or an invalid flag
            msgs[j][0] = *rng.pick(&[1u8, 2, 3, 0x80, 0xFF]);
            ("grpc.bad_compression_flag", true, 0)
        }
        7 => {
            // the transport fails: at a message boundary or inside message j
            let start: usize = msgs.iter().take(j).map(|m| m.len()).sum();
            let at = if rng.chance(1, 2) { start } else { start + rng.range_usize(1, msgs[j].len() - 1) };
            transport_error_at = Some(at);
            ("grpc.transport_error", true, 0)
        }
        8 => {
            // message j is not a FlightData message: a length-delimited field that overruns the message
            let junk = vec![0x0A, 0x7F, 0x01, 0x02, 0x03];
            let mut m = vec![0u8];
            m.extend((junk.len() as u32).to_be_bytes());
            m.extend(junk);
            msgs[j] = m;
            ("grpc.undecodable_message", true, 0)
        }
        _ => {
            // a few stray bytes after the last complete message
            let extra: Vec<u8> = (0..rng.range_usize(1, 4)).map(|_| rng.below(256) as u8).collect();
            msgs.push(extra);
            ("grpc.trailing_partial_header", true, 0)
        }
    };
    let body: Vec<u8> = msgs.concat();
    // how the transport delivers the body: 1-4 chunks at arbitrary offsets
    let mut cuts: Vec<usize> = (0..rng.range_usize(0, 3)).map(|_| if body.is_empty() { 0 } else { rng.below(body.len() as u64 + 1) as usize }).collect();
    if let Some(at) = transport_error_at {
        cuts.push(at.min(body.len()));
    }
    cuts.push(0);
    cuts.push(body.len());
    cuts.sort();
    cuts.dedup();
    let mut chunks: Vec<Option<Vec<u8>>> = Vec::new();
    for w in cuts.windows(2) {
        if Some(w[0]) == transport_error_at {
            break;
        }
        chunks.push(Some(body[w[0]..w[1]].to_vec()));
    }
    if let Some(at) = transport_error_at {
        // everything before the failure point was delivered
        let delivered: usize = chunks.iter().map(|c| c.as_ref().map(|b| b.len()).unwrap_or(0)).sum();
        if delivered < at.min(body.len()) {
            chunks.push(Some(body[delivered..at.min(body.len())].to_vec()));
        }
        chunks.push(None);
    }
    let complete_batches = if broken { j.saturating_sub(1) } else { nb };
    Grpc { chunks, class, broken, rows, complete_batches }
}
